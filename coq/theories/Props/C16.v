(* C16 -- property theorems only.  Statements are about the model of TensorLy's random_state plumbing
   (Model/Draws.v): an ABSTRACT generator (any state type, any draw function, any seeding function),
   any deterministic interpretation of the data-dependent parts, any global generator state, any
   interleaved activity [env] on the global generator. *)
From Coq Require Import List Arith ZArith Bool.
From TLV Require Import Model.Draws Model.DrawsSparse Proofs.DrawsProofsSparse Proofs.DrawsProofs Proofs.DrawsProofsSem Proofs.DrawsProofsPy Proofs.DrawsProofsPy2 Proofs.DrawsProofsHist Proofs.DrawsProofsMax.
Import ListNotations.

(* check_random_state: None -> the global generator, int in [0, 2**32) -> a fresh object seeded with it (nothing
   else changes), any other int -> error (nothing created, nothing drawn), generator -> itself, anything else -> error *)
Theorem C16_check_random_state : forall (gstate value : Type) (seed : Z -> gstate) (w : lworld gstate value),
  check_random_state gstate value seed VNone w = (Some GGlobal, w) /\
  (forall s, seed_ok s = true -> fst (check_random_state gstate value seed (VInt s) w) = Some (GObj (length (heap w))) /\
             heap (snd (check_random_state gstate value seed (VInt s) w)) = heap w ++ [seed s] /\
             nth_error (heap (snd (check_random_state gstate value seed (VInt s) w))) (length (heap w)) = Some (seed s) /\
             hist (snd (check_random_state gstate value seed (VInt s) w)) = hist w /\
             failed (snd (check_random_state gstate value seed (VInt s) w)) = failed w) /\
  (forall s, seed_ok s = false ->
             fst (check_random_state gstate value seed (VInt s) w) = None /\
             failed (snd (check_random_state gstate value seed (VInt s) w)) = true /\
             heap (snd (check_random_state gstate value seed (VInt s) w)) = heap w /\
             hist (snd (check_random_state gstate value seed (VInt s) w)) = hist w) /\
  (forall g, check_random_state gstate value seed (VGen g) w = (Some g, w)) /\
  (fst (check_random_state gstate value seed VBad w) = None /\ failed (snd (check_random_state gstate value seed VBad w)) = true).
Proof. exact check_random_state_spec. Qed.
Print Assumptions C16_check_random_state.

(* check_random_state as the code writes it: an if / elif chain of type tests.  corr:C16-static re-reads the chain from the
   source on every run and writes it as a decision table; for EVERY table accepted by [crs_table_ok] (decidable, evaluated
   on the regenerated table) the table-driven function is the model's check_random_state, for all arguments and worlds.  The
   chain of /repo is accepted (Example C16_crs_table_examples).  (That RandomState(seed) itself rejects ints outside
   [0, 2**32) is NumPy's behaviour: traced, not read from the source.) *)
Theorem C16_check_random_state_table : forall (gstate value : Type) (seed : Z -> gstate)
    (tbl : list (crs_test * crs_action)) (dflt : crs_action),
  crs_table_ok tbl dflt = true ->
  forall (p : rsval) (w : lworld gstate value),
    crs_by_table gstate value seed tbl dflt p w = check_random_state gstate value seed p w.
Proof. exact crs_table_exact. Qed.
Print Assumptions C16_check_random_state_table.

(* NON-INTERFERENCE, unary form: a global-free skeleton computes exactly what the semantics WITHOUT a
   global generator computes, and the global generator evolves by the environment's steps alone *)
Theorem C16_noninterference : forall (gstate value req : Type) (draw : req -> gstate -> value * gstate) (seed : Z -> gstate)
    (env : nat -> gstate -> gstate) (I : interp value req) (sk : skel) (p : rsval) (c : option gen) (ac' : acur),
  gf sk (absp p) (absc c) = Some ac' ->
  forall w : lworld gstate value,
  exists c1 w1 k, run_local gstate value req draw seed I sk p c w = Some (c1, w1) /\ absc c1 = ac' /\
                  ticks w1 = ticks w + k /\
                  forall g, run gstate value req draw seed env I sk p c w g = (c1, w1, advance gstate env (ticks w) k g).
Proof. exact ni. Qed.
Print Assumptions C16_noninterference.

(* same int seed -- ANY integer: an out-of-range one makes the call fail, reproducibly -- => same draws (hence same
   result), whatever the global state and the interleaving *)
Theorem C16_seeded_reproducible : forall (gstate value req : Type) (draw : req -> gstate -> value * gstate) (seed : Z -> gstate)
    (I : interp value req) (sk : skel) (s : Z),
  global_free sk PInt = true ->
  forall env env' g g',
    fst (call gstate value req draw seed env I sk (HInt s) g) = fst (call gstate value req draw seed env' I sk (HInt s) g').
Proof.
  intros gstate value req draw seed I sk s H.
  exact (proj1 (gfw_reproducible gstate value req draw seed I sk (HInt s) (global_free_gfw sk H) eq_refl)).
Qed.
Print Assumptions C16_seeded_reproducible.

(* an int-seeded call leaves the global generator untouched (alone: bit-identical state; under
   interleaving: exactly what the environment did) and never draws from it *)
Theorem C16_global_untouched : forall (gstate value req : Type) (draw : req -> gstate -> value * gstate) (seed : Z -> gstate)
    (I : interp value req) (sk : skel) (s : Z),
  global_free sk PInt = true ->
  (forall g, snd (call gstate value req draw seed (fun _ x => x) I sk (HInt s) g) = g) /\
  (forall env, exists k, forall g, snd (call gstate value req draw seed env I sk (HInt s) g) = advance gstate env 0 k g) /\
  (forall env g, ~ In GGlobal (o_srcs (fst (call gstate value req draw seed env I sk (HInt s) g)))).
Proof.
  intros gstate value req draw seed I sk s H.
  pose proof (gfw_reproducible gstate value req draw seed I sk (HInt s) (global_free_gfw sk H) eq_refl) as (_ & U & N).
  destruct (gfw_call gstate value req draw seed I sk (HInt s) (global_free_gfw sk H) eq_refl) as (o & k & _ & _ & G).
  split; [exact U|]. split; [|exact N].
  intro env. exists k. intro g. now rewrite G.
Qed.
Print Assumptions C16_global_untouched.

(* two generator objects in the same state => same draws AND same final generator state, global untouched *)
Theorem C16_instances_identical : forall (gstate value req : Type) (draw : req -> gstate -> value * gstate) (seed : Z -> gstate)
    (I : interp value req) (sk : skel) (gs : gstate),
  global_free sk PLoc = true ->
  (forall env env' g g',
     fst (call gstate value req draw seed env I sk (HInst gs) g) = fst (call gstate value req draw seed env' I sk (HInst gs) g')) /\
  (forall g, snd (call gstate value req draw seed (fun _ x => x) I sk (HInst gs) g) = g).
Proof.
  intros gstate value req draw seed I sk gs H.
  exact (conj (call_reproducible gstate value req draw seed I sk (HInst gs) H)
              (proj1 (call_global_untouched gstate value req draw seed I sk (HInst gs) H))).
Qed.
Print Assumptions C16_instances_identical.

(* functions without random choices: nothing is drawn whatever random_state is, repeated calls see nothing *)
Theorem C16_rng_free : forall (gstate value req : Type) (draw : req -> gstate -> value * gstate) (seed : Z -> gstate)
    (I : interp value req) (sk : skel),
  draw_free sk = true ->
  forall (a : rsarg gstate) env g,
    o_hist (fst (call gstate value req draw seed env I sk a g)) = [] /\
    o_srcs (fst (call gstate value req draw seed env I sk a g)) = [] /\
    exists k, snd (call gstate value req draw seed env I sk a g) = advance gstate env 0 k g.
Proof. exact call_rng_free. Qed.
Print Assumptions C16_rng_free.

(* ... instantiated for the real entry points: the decompositions with SVD or user initialisation, a deterministic SVD
   and no mode shorter than the rank ([no_random_choice]; CP pads such a mode with random columns) have draw-free
   skeletons, for ALL shapes / ranks / masks / repeat and iteration counts and through the class wrappers ... *)
Theorem C16_deterministic_entry_points_draw_free : forall (e : ep) (o : opts),
  deterministic_family e = true -> no_random_choice o = true -> draw_free (skeleton e o) = true.
Proof. exact deterministic_draw_free. Qed.
Print Assumptions C16_deterministic_entry_points_draw_free.

(* ... hence: SVD- / user-initialised parafac, non_negative_parafac(_hals), constrained_parafac, tucker, partial_tucker,
   non_negative_tucker(_hals), parafac2 (+ its initialize_decomposition and _compute_projections),
   initialize_constrained_parafac, svd_interface with truncated / symeig SVD draw NOTHING from any generator,
   whatever random_state is (None included), and leave the global generator to the environment: repeated calls see
   exactly the same thing *)
Theorem C16_deterministic_entry_points : forall (gstate value req : Type) (draw : req -> gstate -> value * gstate) (seed : Z -> gstate)
    (I : interp value req) (e : ep) (o : opts),
  deterministic_family e = true -> no_random_choice o = true ->
  forall (a : rsarg gstate) env g,
    o_hist (fst (call gstate value req draw seed env I (skeleton e o) a g)) = [] /\
    o_srcs (fst (call gstate value req draw seed env I (skeleton e o) a g)) = [] /\
    exists k, snd (call gstate value req draw seed env I (skeleton e o) a g) = advance gstate env 0 k g.
Proof.
  intros gstate value req draw seed I e o F N.
  exact (call_rng_free gstate value req draw seed I (skeleton e o) (deterministic_draw_free e o F N)).
Qed.
Print Assumptions C16_deterministic_entry_points.

(* HISTORIES of one process (library calls with any random_state, arbitrary other use of the global
   generator, creation of generator objects, repeated calls / fit twice): every int-seeded call of a
   global-free entry point returns what the global-free semantics gives for (skeleton, arguments, seed)
   alone, wherever it occurs ... *)
Theorem C16_history_results : forall (gstate value req : Type) (draw : req -> gstate -> value * gstate) (seed : Z -> gstate)
    (h : list (event gstate value req)) (g : gstate) (insts : list gstate) (i : nat) (ip : interp value req) (sk : skel) (s : Z),
  nth_error h i = Some (ECall ip sk (RInt s)) -> global_free sk PInt = true ->
  nth_error (fst (fst (run_hist gstate value req draw seed h g insts))) i = Some (call_local gstate value req draw seed ip sk (HInt s)).
Proof. exact history_results. Qed.
Print Assumptions C16_history_results.

(* ... and is invisible to everybody else: the global generator and the caller's generator objects end
   in the state they would have without those calls *)
Theorem C16_history_global : forall (gstate value req : Type) (draw : req -> gstate -> value * gstate) (seed : Z -> gstate)
    (h : list (event gstate value req)) (g : gstate) (insts : list gstate),
  snd (fst (run_hist gstate value req draw seed h g insts)) = snd (fst (run_hist gstate value req draw seed (erase gstate value req h) g insts)) /\
  snd (run_hist gstate value req draw seed h g insts) = snd (run_hist gstate value req draw seed (erase gstate value req h) g insts).
Proof. exact history_global. Qed.
Print Assumptions C16_history_global.

(* every modelled entry point that accepts AND USES a random_state ([seedable]: everything except CP_PLSR, see the
   next theorem, and parafac_power_iteration, which has no such argument) is global-free for an int seed and for a
   passed generator object -- for ALL shapes, ranks, initialisations, SVD methods, masks, iteration counts *)
Theorem C16_skeletons_global_free : forall (e : ep) (o : opts) (p : aparam),
  p = PInt \/ p = PLoc -> seedable e = true -> global_free (skeleton e o) p = true.
Proof. exact skeleton_gf. Qed.
Print Assumptions C16_skeletons_global_free.

(* (_partial: carries the hypothesis "no empty mode", shown necessary in the model by Example C16_cp_plsr_hypothesis)
   CP_PLSR accepts random_state but calls initialize_cp(Z, 1) without it (SVD init, truncated SVD): global-free for
   EVERY kind of random_state -- nothing is ever drawn -- provided the contracted tensor has no empty mode (the
   rank-1 padding branch `shape[mode] < rank`, which would draw from the GLOBAL generator, is then unreachable) *)
Theorem C16_cp_plsr_global_free_partial : forall (o : opts) (p : aparam),
  forallb (Nat.leb 1) (tl (o_shape o)) = true -> global_free (skeleton E_cp_plsr o) p = true.
Proof. exact gf_cp_plsr. Qed.
Print Assumptions C16_cp_plsr_global_free_partial.

(* ------------------------------------------------------------------ the SEMANTIC criterion (no static analysis) *)

(* for ANY skeleton, interpretation and random_state: if the semantics without a global generator is defined,
   the whole-process semantics returns exactly its outcome under every global state and every interleaving,
   logs no global draw, and the global generator sees the environment's steps only *)
Theorem C16_local_semantics_exact : forall (gstate value req : Type) (draw : req -> gstate -> value * gstate) (seed : Z -> gstate)
    (I : interp value req) (sk : skel) (a : rsarg gstate) (o : outcome gstate value),
  call_local gstate value req draw seed I sk a = Some o ->
  ~ In GGlobal (o_srcs o) /\
  exists k, forall env g, call gstate value req draw seed env I sk a g = (o, advance gstate env 0 k g).
Proof. exact call_local_agrees. Qed.
Print Assumptions C16_local_semantics_exact.

(* ... and it is undefined EXACTLY when the run logs a draw from the global generator: the source log -- the
   quantity corr:C16 observes on the implementation -- decides whether the call was global-free *)
Theorem C16_trace_criterion : forall (gstate value req : Type) (draw : req -> gstate -> value * gstate) (seed : Z -> gstate)
    (I : interp value req) (sk : skel) (a : rsarg gstate) (env : nat -> gstate -> gstate) (g : gstate),
  In GGlobal (o_srcs (fst (call gstate value req draw seed env I sk a g))) <-> call_local gstate value req draw seed I sk a = None.
Proof. exact call_trace_criterion. Qed.
Print Assumptions C16_trace_criterion.

(* one run whose source log does not contain the global generator => every run of the same call (any global
   state, any interleaved use of the global generator) returns the same outcome and, left alone, does not move
   the global generator *)
Theorem C16_trace_reproducible : forall (gstate value req : Type) (draw : req -> gstate -> value * gstate) (seed : Z -> gstate)
    (I : interp value req) (sk : skel) (a : rsarg gstate) (env : nat -> gstate -> gstate) (g : gstate),
  ~ In GGlobal (o_srcs (fst (call gstate value req draw seed env I sk a g))) ->
  (forall env' g', fst (call gstate value req draw seed env' I sk a g') = fst (call gstate value req draw seed env I sk a g)) /\
  (forall g', snd (call gstate value req draw seed (fun _ x => x) I sk a g') = g').
Proof. exact call_trace_reproducible. Qed.
Print Assumptions C16_trace_reproducible.

(* conversely, for a generator whose drawn value determines the state it was in (hypothesis [value_injective];
   the toy counter generator satisfies it, see C16_observable_nonvacuous -- nothing is claimed about MT19937),
   a logged global draw is observable: the drawn values differ between ANY two different global states.  With the
   three theorems above: for such generators, reproducible <=> no global draw <=> local semantics defined *)
Theorem C16_global_draw_observable : forall (gstate value req : Type) (draw : req -> gstate -> value * gstate) (seed : Z -> gstate),
  value_injective gstate value req draw ->
  forall (I : interp value req) (sk : skel) (a : rsarg gstate),
    call_local gstate value req draw seed I sk a = None ->
    forall g g', g <> g' ->
      o_hist (fst (call gstate value req draw seed (idenv0 gstate) I sk a g)) <>
      o_hist (fst (call gstate value req draw seed (idenv0 gstate) I sk a g')).
Proof. exact global_draw_observable. Qed.
Print Assumptions C16_global_draw_observable.

(* a second static analysis, precise at joins (the rng variable may be bound in one branch only; a draw on an unset
   rng raises, it does not reach the global generator): if it accepts a skeleton then, for random_state an int / a
   generator object other than the global one / junk, every run returns the same outcome whatever the global state
   and the interleaving, the global generator is untouched and never drawn from. *)
Theorem C16_join_precise_analysis : forall (gstate value req : Type) (draw : req -> gstate -> value * gstate) (seed : Z -> gstate)
    (I : interp value req) (sk : skel) (a : rsarg gstate),
  global_free_w sk = true -> safe_arg gstate a = true ->
  (forall env env' g g', fst (call gstate value req draw seed env I sk a g) = fst (call gstate value req draw seed env' I sk a g')) /\
  (forall g, snd (call gstate value req draw seed (fun _ x => x) I sk a g) = g) /\
  (forall env g, ~ In GGlobal (o_srcs (fst (call gstate value req draw seed env I sk a g)))).
Proof. exact gfw_reproducible. Qed.
Print Assumptions C16_join_precise_analysis.

(* THE SOURCE-LEVEL LANGUAGE.  corr:C16-static writes what it reads in the source as a [pskel]: named variables per
   scope (variable 0 = the random_state argument), `x = e`, `x = check_random_state(e)`, draws on a name, numpy.random
   draws, calls passing an expression.  Its semantics [prun] keeps every name apart (several generators per scope,
   aliases of the argument, re-assigned arguments, np.random used as an object; a draw on a name that holds no
   generator raises).  If the analysis [pgf] accepts a skeleton ([pglobal_free]) then for random_state an int (any),
   a generator object other than the global one, or junk: every run of the call returns the same outcome whatever the
   global state and the interleaving, and the global generator is moved by the environment alone.  So the treatment
   of check_random_state bindings and aliases in the static correspondence is proved, not trusted; what remains
   trusted there is the ast-to-pskel transcription (harness) *)
Theorem C16_source_analysis : forall (gstate value req : Type) (draw : req -> gstate -> value * gstate) (seed : Z -> gstate)
    (I : interp value req) (sk : pskel) (a : rsarg gstate),
  pglobal_free sk = true -> safe_arg gstate a = true ->
  (forall env env' g g', fst (pcall gstate value req draw seed env I sk a g) = fst (pcall gstate value req draw seed env' I sk a g')) /\
  (forall g, snd (pcall gstate value req draw seed (fun _ x => x) I sk a g) = g) /\
  (forall env, exists k, forall g, snd (pcall gstate value req draw seed env I sk a g) = advance gstate env 0 k g).
Proof. exact pgf_reproducible. Qed.
Print Assumptions C16_source_analysis.

(* its semantics without a global generator is exact whenever it is defined (no analysis involved) *)
Theorem C16_source_local_semantics_exact : forall (gstate value req : Type) (draw : req -> gstate -> value * gstate) (seed : Z -> gstate)
    (env : nat -> gstate -> gstate) (I : interp value req) (sk : pskel) (e : list rsval) (w : lworld gstate value)
    (e1 : list rsval) (w1 : lworld gstate value),
  prun_local gstate value req draw seed I sk e w = Some (e1, w1) ->
  exists k, ticks w1 = ticks w + k /\
            forall g, prun gstate value req draw seed env I sk e w g = (e1, w1, advance gstate env (ticks w) k g).
Proof. exact prun_local_agrees. Qed.
Print Assumptions C16_source_local_semantics_exact.

(* source level, functions WITHOUT random choices: a transcribed skeleton without any draw ([pdraw_free], evaluated by
   corr:C16-static on the source of tensor_train, tensor_ring, robust_pca, tucker / parafac2 with SVD init, parafac with
   a user init, the tenalg functions, ...) draws nothing from any generator whatever random_state is *)
Theorem C16_source_rng_free : forall (gstate value req : Type) (draw : req -> gstate -> value * gstate) (seed : Z -> gstate)
    (I : interp value req) (sk : pskel),
  pdraw_free sk = true ->
  forall (a : rsarg gstate) env g,
    o_hist (fst (pcall gstate value req draw seed env I sk a g)) = [] /\
    o_srcs (fst (pcall gstate value req draw seed env I sk a g)) = [] /\
    exists k, snd (pcall gstate value req draw seed env I sk a g) = advance gstate env 0 k g.
Proof. exact pcall_rng_free. Qed.
Print Assumptions C16_source_rng_free.

(* it accepts everything the first analysis accepts (in particular every hand-written seedable skeleton) *)
Theorem C16_join_precise_subsumes : forall sk : skel, global_free sk PInt = true -> global_free_w sk = true.
Proof. exact global_free_gfw. Qed.
Print Assumptions C16_join_precise_subsumes.

(* histories, any kind of random_state: a call whose local semantics is defined on the caller's generator objects
   as they are at that moment ([state_at]) returns exactly that outcome *)
Theorem C16_history_results_any : forall (gstate value req : Type) (draw : req -> gstate -> value * gstate) (seed : Z -> gstate)
    (h : list (event gstate value req)) (g : gstate) (insts : list gstate) (i : nat) (ip : interp value req) (sk : skel) (a : hrs)
    (o : outcome gstate value),
  nth_error h i = Some (ECall ip sk a) ->
  call_local gstate value req draw seed ip sk (resolve gstate a (snd (state_at gstate value req draw seed h i g insts))) = Some o ->
  nth_error (fst (fst (run_hist gstate value req draw seed h g insts))) i = Some (Some o).
Proof. exact history_results_sem. Qed.
Print Assumptions C16_history_results_any.

(* generator OBJECTS in histories: any call accepted by the join-precise analysis whose random_state is an int, a
   generator object of the caller's (in whatever state it is at that moment) or junk leaves the global generator
   exactly as it found it, wherever it occurs ... *)
Theorem C16_history_object_calls : forall (gstate value req : Type) (draw : req -> gstate -> value * gstate) (seed : Z -> gstate)
    (h : list (event gstate value req)) (i : nat) (g : gstate) (insts : list gstate) (ip : interp value req) (sk : skel) (a : hrs),
  nth_error h i = Some (ECall ip sk a) -> global_free_w sk = true ->
  safe_arg gstate (resolve gstate a (snd (state_at gstate value req draw seed h i g insts))) = true ->
  fst (state_at gstate value req draw seed h (S i) g insts) = fst (state_at gstate value req draw seed h i g insts).
Proof. exact history_step_global_untouched. Qed.
Print Assumptions C16_history_object_calls.

(* ... so a process all of whose library calls are of that kind ends with the global generator exactly where the
   rest of the process put it ([env_only] folds the EEnv events alone) *)
Theorem C16_history_global_env_only : forall (gstate value req : Type) (draw : req -> gstate -> value * gstate) (seed : Z -> gstate)
    (h : list (event gstate value req)) (g : gstate) (insts : list gstate),
  forallb (call_safe gstate value req) h = true ->
  snd (fst (run_hist gstate value req draw seed h g insts)) = env_only gstate value req h g.
Proof. exact history_global_env_only. Qed.
Print Assumptions C16_history_global_env_only.

(* C16_history_global with the join-precise analysis as the erasure criterion *)
Theorem C16_history_global_w : forall (gstate value req : Type) (draw : req -> gstate -> value * gstate) (seed : Z -> gstate)
    (h : list (event gstate value req)) (g : gstate) (insts : list gstate),
  snd (fst (run_hist gstate value req draw seed h g insts)) =
  snd (fst (run_hist gstate value req draw seed (erase_w gstate value req h) g insts)) /\
  snd (run_hist gstate value req draw seed h g insts) = snd (run_hist gstate value req draw seed (erase_w gstate value req h) g insts).
Proof. exact history_global_w. Qed.
Print Assumptions C16_history_global_w.

(* out-of-range int seeds: every entry point that always reaches check_random_state with its own argument
   ([always_checks]; e.g. not tucker with SVD init, whose truncated SVD never looks at random_state) fails -- the
   ValueError of RandomState(seed) -- for ALL options, global states and interleavings *)
Theorem C16_invalid_seed_rejected : forall (gstate value req : Type) (draw : req -> gstate -> value * gstate) (seed : Z -> gstate)
    (I : interp value req) (e : ep) (o : opts) (s : Z),
  always_checks e = true -> seed_ok s = false ->
  forall env g, o_failed (fst (call gstate value req draw seed env I (skeleton e o) (HInt s) g)) = true.
Proof.
  intros gstate value req draw seed I e o s A Hs.
  exact (invalid_seed_rejected gstate value req draw seed I (skeleton e o) s (always_checks_must e o A) Hs).
Qed.
Print Assumptions C16_invalid_seed_rejected.

(* fit twice / call twice in one process: same entry point, same arguments, same int seed => same outcome,
   wherever the two calls occur *)
Theorem C16_fit_twice : forall (gstate value req : Type) (draw : req -> gstate -> value * gstate) (seed : Z -> gstate)
    (h : list (event gstate value req)) (g : gstate) (insts : list gstate) (i j : nat) (ip : interp value req) (sk : skel) (s : Z),
  nth_error h i = Some (ECall ip sk (RInt s)) -> nth_error h j = Some (ECall ip sk (RInt s)) ->
  global_free sk PInt = true ->
  nth_error (fst (fst (run_hist gstate value req draw seed h g insts))) i =
  nth_error (fst (fst (run_hist gstate value req draw seed h g insts))) j /\
  nth_error (fst (fst (run_hist gstate value req draw seed h g insts))) i = Some (call_local gstate value req draw seed ip sk (HInt s)).
Proof. exact history_same_seed_same_result. Qed.
Print Assumptions C16_fit_twice.

(* two different processes (different global states, different histories, different caller objects) *)
Theorem C16_two_processes : forall (gstate value req : Type) (draw : req -> gstate -> value * gstate) (seed : Z -> gstate)
    (h h' : list (event gstate value req)) (g g' : gstate) (insts insts' : list gstate) (i j : nat) (ip : interp value req) (sk : skel) (s : Z),
  nth_error h i = Some (ECall ip sk (RInt s)) -> nth_error h' j = Some (ECall ip sk (RInt s)) ->
  global_free sk PInt = true ->
  nth_error (fst (fst (run_hist gstate value req draw seed h g insts))) i =
  nth_error (fst (fst (run_hist gstate value req draw seed h' g' insts'))) j.
Proof. exact histories_same_seed_same_result. Qed.
Print Assumptions C16_two_processes.

(* THE TWO LANGUAGES AGREE: every skeleton of the first language (one rng variable per scope), written in the Python-shaped
   language by [embed] (variable 0 = random_state, variable 1 = rng), has EXACTLY the same calls: same outcome (draws,
   error flag, final state of a passed object, source log) and same final global state, for every generator,
   interpretation, environment, global state and random_state.  So the hand-written skeletons of the entry points and the
   skeletons transcribed from the source live in one language with one semantics, and every source-level theorem
   (C16_source_analysis, C16_source_rng_free, C16_source_invalid_seed_rejected) applies to the hand-written ones too *)
Theorem C16_languages_agree : forall (gstate value req : Type) (draw : req -> gstate -> value * gstate) (seed : Z -> gstate)
    (I : interp value req) (sk : skel) (a : rsarg gstate) (env : nat -> gstate -> gstate) (g : gstate),
  pcall gstate value req draw seed env I (embed sk) a g = call gstate value req draw seed env I sk a g.
Proof. exact embed_call. Qed.
Print Assumptions C16_languages_agree.

(* ... and the two static analyses COINCIDE on embeddings: the source-level analysis accepts the embedding of a skeleton
   exactly when the join-precise analysis of the first language accepts the skeleton, for EVERY skeleton (so
   C16_skeletons_global_free + C16_join_precise_subsumes give: the source-level analysis accepts the embedding of every
   hand-written skeleton of a seedable definition, for all option values -- universally, not only on the grid) *)
Theorem C16_analyses_coincide : forall sk : skel, pglobal_free (embed sk) = global_free_w sk.
Proof. exact pglobal_free_embed. Qed.
Print Assumptions C16_analyses_coincide.

Corollary C16_source_analysis_accepts_skeletons : forall (e : ep) (o : opts),
  seedable e = true -> pglobal_free (embed (skeleton e o)) = true.
Proof.
  intros e o S. rewrite pglobal_free_embed. apply global_free_gfw. apply skeleton_gf; [left; reflexivity | exact S].
Qed.
Print Assumptions C16_source_analysis_accepts_skeletons.

(* source level, out-of-range int seeds: a transcribed skeleton that certainly hands its own (not re-bound) random_state
   argument to check_random_state on every path ([pmust_check], evaluated by corr:C16-static on the source of every entry
   point whose hand-written skeleton always checks) fails for every int outside [0, 2**32), whatever the global state and
   the interleaving *)
Theorem C16_source_invalid_seed_rejected : forall (gstate value req : Type) (draw : req -> gstate -> value * gstate) (seed : Z -> gstate)
    (I : interp value req) (sk : pskel) (s : Z),
  pmust_check sk = true -> seed_ok s = false ->
  forall env g, o_failed (fst (pcall gstate value req draw seed env I sk (HInt s) g)) = true.
Proof. exact pinvalid_seed_rejected. Qed.
Print Assumptions C16_source_invalid_seed_rejected.

(* the source-level criteria are conservative extensions of the first language's: on an embedded skeleton they accept
   whatever must_check accepts, and they see exactly the same draws *)
Theorem C16_source_criteria_extend : forall sk : skel,
  (must_check sk = true -> pmust_check (embed sk) = true) /\ pdraw_free (embed sk) = draw_free sk.
Proof. intro sk. exact (conj (must_check_embed sk) (pdraw_free_embed sk)). Qed.
Print Assumptions C16_source_criteria_extend.

(* THE GENERATOR-INSTANCE CLAUSE in histories: two calls of the same entry point with the same arguments that receive
   caller-owned generator objects in the SAME STATE at the moment of the call -- two RandomState(s) created anywhere
   (ENew s ... ENew s), one of them possibly used before by other calls as long as the states coincide, in one process
   or in two different ones -- return the same outcome o (draws, error flag, final object state o_inst), write the same
   final state back into their objects and leave the global generator exactly as they found it.  Premise: the
   join-precise analysis accepts the skeleton (true of every seedable entry point: C16_skeletons_global_free +
   C16_join_precise_subsumes) *)
Theorem C16_identical_instances_history : forall (gstate value req : Type) (draw : req -> gstate -> value * gstate) (seed : Z -> gstate)
    (h h' : list (event gstate value req)) (g g' : gstate) (insts insts' : list gstate) (i j : nat) (ip : interp value req) (sk : skel)
    (k k' : nat) (gs : gstate),
  nth_error h i = Some (ECall ip sk (RInst k)) -> nth_error h' j = Some (ECall ip sk (RInst k')) ->
  global_free_w sk = true ->
  nth_error (snd (state_at gstate value req draw seed h i g insts)) k = Some gs ->
  nth_error (snd (state_at gstate value req draw seed h' j g' insts')) k' = Some gs ->
  exists o,
    nth_error (fst (fst (run_hist gstate value req draw seed h g insts))) i = Some (Some o) /\
    nth_error (fst (fst (run_hist gstate value req draw seed h' g' insts'))) j = Some (Some o) /\
    snd (state_at gstate value req draw seed h (S i) g insts) =
      writeback gstate value (RInst k) o (snd (state_at gstate value req draw seed h i g insts)) /\
    snd (state_at gstate value req draw seed h' (S j) g' insts') =
      writeback gstate value (RInst k') o (snd (state_at gstate value req draw seed h' j g' insts')) /\
    fst (state_at gstate value req draw seed h (S i) g insts) = fst (state_at gstate value req draw seed h i g insts) /\
    fst (state_at gstate value req draw seed h' (S j) g' insts') = fst (state_at gstate value req draw seed h' j g' insts').
Proof. exact history_identical_instances. Qed.
Print Assumptions C16_identical_instances_history.

(* ... and over MULTI-STEP SEQUENCES: the outcomes of all the calls made on one caller-owned generator object during a
   history, and the object's final state, are those of the object threaded through these calls ALONE ([thread]: no
   history, no global generator, no other object), whatever else the history contains (library calls with any other
   random_state, accepted by the analysis or not; other objects; arbitrary use of the global generator) ... *)
Theorem C16_instance_thread : forall (gstate value req : Type) (draw : req -> gstate -> value * gstate) (seed : Z -> gstate)
    (h : list (event gstate value req)) (g : gstate) (insts : list gstate) (k : nat) (gs : gstate),
  nth_error insts k = Some gs ->
  forallb (fun c => global_free_w (snd c)) (calls_on gstate value req k h) = true ->
  outcomes_on gstate value req k h (fst (fst (run_hist gstate value req draw seed h g insts))) =
    fst (thread gstate value req draw seed gs (calls_on gstate value req k h)) /\
  nth_error (snd (run_hist gstate value req draw seed h g insts)) k =
    Some (snd (thread gstate value req draw seed gs (calls_on gstate value req k h))).
Proof. exact history_instance_thread. Qed.
Print Assumptions C16_instance_thread.

(* ... hence two objects in the same state threaded through the same sequence of (entry point, arguments) -- in one
   history or in two, sequentially or interleaved -- see the same outcomes step by step and end in the same state (what
   the harness's instance-sequence predicate tests on the implementation) *)
Theorem C16_threaded_instances : forall (gstate value req : Type) (draw : req -> gstate -> value * gstate) (seed : Z -> gstate)
    (h h' : list (event gstate value req)) (g g' : gstate) (insts insts' : list gstate) (k k' : nat) (gs : gstate),
  nth_error insts k = Some gs -> nth_error insts' k' = Some gs ->
  calls_on gstate value req k h = calls_on gstate value req k' h' ->
  forallb (fun c => global_free_w (snd c)) (calls_on gstate value req k h) = true ->
  outcomes_on gstate value req k h (fst (fst (run_hist gstate value req draw seed h g insts))) =
    outcomes_on gstate value req k' h' (fst (fst (run_hist gstate value req draw seed h' g' insts'))) /\
  nth_error (snd (run_hist gstate value req draw seed h g insts)) k =
    nth_error (snd (run_hist gstate value req draw seed h' g' insts')) k'.
Proof. exact history_threaded_instances. Qed.
Print Assumptions C16_threaded_instances.

(* histories compose: running h1 ++ h2 is running h1 and then h2 from the state h1 left, so every theorem stated for objects
   that exist when a history starts applies to any suffix of a longer history ... *)
Theorem C16_history_compose : forall (gstate value req : Type) (draw : req -> gstate -> value * gstate) (seed : Z -> gstate)
    (h1 h2 : list (event gstate value req)) (g : gstate) (insts : list gstate),
  run_hist gstate value req draw seed (h1 ++ h2) g insts =
  (fst (fst (run_hist gstate value req draw seed h1 g insts)) ++
     fst (fst (run_hist gstate value req draw seed h2 (snd (fst (run_hist gstate value req draw seed h1 g insts))) (snd (run_hist gstate value req draw seed h1 g insts)))),
   snd (fst (run_hist gstate value req draw seed h2 (snd (fst (run_hist gstate value req draw seed h1 g insts))) (snd (run_hist gstate value req draw seed h1 g insts)))),
   snd (run_hist gstate value req draw seed h2 (snd (fst (run_hist gstate value req draw seed h1 g insts))) (snd (run_hist gstate value req draw seed h1 g insts)))).
Proof. exact run_hist_app. Qed.
Print Assumptions C16_history_compose.

(* ... in particular to an object from the moment the caller creates it: RandomState(s) created after ANY prefix h1 and then
   used by the calls of h2 sees exactly what RandomState(s) threaded through these calls alone sees -- a function of s and
   the calls only -- and ends in that state, whatever h1 did and whatever else h2 contains.  Two generators seeded
   identically, created anywhere in any two processes and given the same calls, therefore agree step by step *)
Theorem C16_new_instance_thread : forall (gstate value req : Type) (draw : req -> gstate -> value * gstate) (seed : Z -> gstate)
    (h1 h2 : list (event gstate value req)) (g : gstate) (insts : list gstate) (s : Z),
  let k := length (snd (run_hist gstate value req draw seed h1 g insts)) in
  forallb (fun c => global_free_w (snd c)) (calls_on gstate value req k h2) = true ->
  nth_error (snd (run_hist gstate value req draw seed (h1 ++ ENew s :: h2) g insts)) k =
    Some (snd (thread gstate value req draw seed (seed s) (calls_on gstate value req k h2))) /\
  outcomes_on gstate value req k h2
    (fst (fst (run_hist gstate value req draw seed h2 (snd (fst (run_hist gstate value req draw seed h1 g insts)))
                        (snd (run_hist gstate value req draw seed h1 g insts) ++ [seed s])))) =
    fst (thread gstate value req draw seed (seed s) (calls_on gstate value req k h2)).
Proof. exact history_new_instance_thread. Qed.
Print Assumptions C16_new_instance_thread.

(* FUNCTIONS WITHOUT RANDOM CHOICES in histories: a call of a draw-free skeleton, anywhere in any history and whatever
   random_state is (None and the global object included), draws nothing from any generator and leaves the global
   generator exactly as it found it ... *)
Theorem C16_history_rng_free : forall (gstate value req : Type) (draw : req -> gstate -> value * gstate) (seed : Z -> gstate)
    (h : list (event gstate value req)) (g : gstate) (insts : list gstate) (i : nat) (ip : interp value req) (sk : skel) (a : hrs),
  nth_error h i = Some (ECall ip sk a) -> draw_free sk = true ->
  exists o, nth_error (fst (fst (run_hist gstate value req draw seed h g insts))) i = Some (Some o) /\
            o_hist o = [] /\ o_srcs o = [] /\
            fst (state_at gstate value req draw seed h (S i) g insts) = fst (state_at gstate value req draw seed h i g insts).
Proof. exact history_rng_free. Qed.
Print Assumptions C16_history_rng_free.

(* ... and REPEATED CALLS return the same outcome: same function, same arguments, the same random_state of any kind but a
   caller-owned object (None, the global object, any int, junk), at any two positions of any two histories *)
Theorem C16_history_rng_free_same : forall (gstate value req : Type) (draw : req -> gstate -> value * gstate) (seed : Z -> gstate)
    (h h' : list (event gstate value req)) (g g' : gstate) (insts insts' : list gstate) (i j : nat) (ip : interp value req) (sk : skel) (a : hrs),
  not_inst a = true -> draw_free sk = true ->
  nth_error h i = Some (ECall ip sk a) -> nth_error h' j = Some (ECall ip sk a) ->
  nth_error (fst (fst (run_hist gstate value req draw seed h g insts))) i =
  nth_error (fst (fst (run_hist gstate value req draw seed h' g' insts'))) j.
Proof. exact history_rng_free_same. Qed.
Print Assumptions C16_history_rng_free_same.

(* ------------------------------------------------------------------ non-vacuity and sensitivity *)

(* the hypotheses are satisfiable and the skeletons really draw: parafac with randomized SVD init, mask and
   random padding, int seed 3, from two different global states *)
Example C16_nonvacuous :
  seedable (E_estimator E_parafac) = true /\
  global_free (skeleton E_parafac ex_opts) PInt = true /\
  fst (call Z Z nat toy_draw toy_seed toy_env toy_interp (skeleton E_parafac ex_opts) (HInt 3%Z) 0%Z) =
  fst (call Z Z nat toy_draw toy_seed toy_env toy_interp (skeleton E_parafac ex_opts) (HInt 3%Z) 1%Z) /\
  length (o_hist (fst (call Z Z nat toy_draw toy_seed toy_env toy_interp (skeleton E_parafac ex_opts) (HInt 3%Z) 0%Z))) = 12 /\
  model_projection E_parafac ex_opts (HInt 3%Z) = (true, false, true, false, false) /\
  model_projection E_parafac ex_opts HNone = (true, true, false, false, true) /\
  model_projection E_parafac ex_opts (HInst 5%Z) = (true, false, false, true, false).
Proof. vm_compute. repeat split; reflexivity. Qed.

(* the rules the code followed before the repairs are NOT global-free, and the model exhibits the failure:
   same int seed, different global state => different draws, and the global state moves *)
Example C16_cp_svd_init_old_rule_refuted :          (* /repo 5ba9482 *)
  global_free (sk_parafac_old ex_opts) PInt = false /\
  exists g g', fst (call Z Z nat toy_draw toy_seed toy_env toy_interp (sk_parafac_old ex_opts) (HInt 3%Z) g) <>
               fst (call Z Z nat toy_draw toy_seed toy_env toy_interp (sk_parafac_old ex_opts) (HInt 3%Z) g') /\
               snd (call Z Z nat toy_draw toy_seed toy_env toy_interp (sk_parafac_old ex_opts) (HInt 3%Z) g) <> g.
Proof. split; [reflexivity|]. exists 0%Z, 1%Z. split; vm_compute; discriminate. Qed.

Example C16_parafac2_svd_old_rule_refuted :         (* /repo 20fd4fd *)
  global_free (sk_parafac2_old ex_opts) PInt = false /\
  exists g g', fst (call Z Z nat toy_draw toy_seed toy_env toy_interp (sk_parafac2_old ex_opts) (HInt 3%Z) g) <>
               fst (call Z Z nat toy_draw toy_seed toy_env toy_interp (sk_parafac2_old ex_opts) (HInt 3%Z) g') /\
               snd (call Z Z nat toy_draw toy_seed toy_env toy_interp (sk_parafac2_old ex_opts) (HInt 3%Z) g) <> g.
Proof. split; [reflexivity|]. exists 0%Z, 1%Z. split; vm_compute; discriminate. Qed.

Example C16_constrained_random_old_rule_refuted :   (* /repo ec93052 *)
  global_free (sk_constrained_parafac_old ex_opts) PInt = false /\
  exists g g', fst (call Z Z nat toy_draw toy_seed toy_env toy_interp (sk_constrained_parafac_old ex_opts) (HInt 3%Z) g) <>
               fst (call Z Z nat toy_draw toy_seed toy_env toy_interp (sk_constrained_parafac_old ex_opts) (HInt 3%Z) g').
Proof. split; [reflexivity|]. exists 0%Z, 1%Z. vm_compute; discriminate. Qed.

(* parafac_power_iteration has no random_state argument and draws from the global generator: outside the statement *)
Example C16_power_iteration_not_seedable :
  seedable E_power_iteration = false /\ global_free (skeleton E_power_iteration ex_opts) PInt = false.
Proof. split; reflexivity. Qed.

(* the semantic criterion is not vacuous: on the toy generator (value-injective) the repaired parafac skeleton has
   a defined local semantics, the old one does not, and the old one's draws differ between ANY two global states *)
Example C16_observable_nonvacuous :
  value_injective Z Z nat toy_draw /\
  (exists o, call_local Z Z nat toy_draw toy_seed toy_interp (skeleton E_parafac ex_opts) (HInt 3%Z) = Some o /\ length (o_hist o) = 12) /\
  call_local Z Z nat toy_draw toy_seed toy_interp (sk_parafac_old ex_opts) (HInt 3%Z) = None /\
  call_local Z Z nat toy_draw toy_seed toy_interp (skeleton E_parafac ex_opts) HNone = None /\
  (forall g g', g <> g' ->
     o_hist (fst (call Z Z nat toy_draw toy_seed (idenv0 Z) toy_interp (sk_parafac_old ex_opts) (HInt 3%Z) g)) <>
     o_hist (fst (call Z Z nat toy_draw toy_seed (idenv0 Z) toy_interp (sk_parafac_old ex_opts) (HInt 3%Z) g'))).
Proof.
  split; [exact toy_value_injective|]. split; [eexists; split; vm_compute; reflexivity|].
  split; [vm_compute; reflexivity|]. split; [vm_compute; reflexivity|].
  apply (global_draw_observable Z Z nat toy_draw toy_seed toy_value_injective). vm_compute; reflexivity.
Qed.

(* an estimator that would resolve its seed EAGERLY (self.random_state = check_random_state(seed) in __init__, i.e.
   one generator object created once and passed to every fit) is not reproducible across fits, whereas keeping the
   int and resolving it inside fit (what the code does: E_estimator = Call ARaw) is: the model tells them apart *)
Example C16_eager_seed_resolution_refuted :
  let sk := skeleton (E_estimator E_cp_regressor) ex_opts in
  let lazy_h := [ECall toy_interp sk (RInt 3%Z); EEnv (fun g => (g + 5)%Z); ECall toy_interp sk (RInt 3%Z)] in
  let eager_h := [ENew 3%Z; ECall toy_interp sk (RInst 0); EEnv (fun g => (g + 5)%Z); ECall toy_interp sk (RInst 0)] in
  nth_error (fst (fst (run_hist Z Z nat toy_draw toy_seed lazy_h 0%Z []))) 0 =
  nth_error (fst (fst (run_hist Z Z nat toy_draw toy_seed lazy_h 0%Z []))) 2 /\
  nth_error (fst (fst (run_hist Z Z nat toy_draw toy_seed eager_h 0%Z []))) 1 <>
  nth_error (fst (fst (run_hist Z Z nat toy_draw toy_seed eager_h 0%Z []))) 3.
Proof. split; [vm_compute; reflexivity | vm_compute; discriminate]. Qed.

(* the hypothesis of C16_cp_plsr_global_free_partial is needed IN THE MODEL (an empty mode makes the un-seeded padding draw
   reachable; the implementation raises in the SVD of the empty unfolding before getting there) and satisfiable *)
Example C16_cp_plsr_hypothesis :
  global_free (skeleton E_cp_plsr {| o_shape := [8; 0; 4]; o_rank := 2; o_init := IRandom; o_svd := STruncated; o_mask := false;
                                     o_nrep := 0; o_iters := 3; o_aux := 0 |}) PInt = false /\
  forallb (Nat.leb 1) (tl (o_shape ex_opts)) = true /\
  model_projection E_cp_plsr ex_opts (HInt 3%Z) = (true, false, false, false, false).
Proof. repeat split; reflexivity. Qed.

(* the join-precise analysis: accepts a generator bound in one branch only (the first analysis does not), rejects a
   module-level draw in one branch, a callee that gets no random_state and draws, and a check on None *)
Example C16_join_precise_examples :
  global_free (Seq (Branch 0 Check Skip) (Draw 1)) PInt = false /\
  global_free_w (Seq (Branch 0 Check Skip) (Draw 1)) = true /\
  global_free_w (Seq Check (Branch 0 (Draw 1) (DrawNp 1))) = false /\
  global_free_w (Seq Check (Call ANone (Seq Check (Draw 1)))) = false /\
  global_free_w (Seq Check (Call ANone (Seq Check Skip))) = true /\
  global_free_w (For 0 3 (Seq (Branch 0 Skip (Draw 1)) (Call ANone Check))) = true /\
  global_free_w (Call ARaw (For 0 3 (Seq (Branch 0 Skip (Draw 1)) (Call ANone Check)))) = true /\
  global_free_w (For 0 3 (Seq (Branch 0 Skip (Draw 1)) (Seq (Call ANone Check) (Call ARng (Seq Check (Draw 2)))))) = true /\
  safe_arg Z (HInt 3%Z) = true /\ safe_arg Z (HInst 5%Z) = true /\ safe_arg Z HNone = false.
Proof. repeat split; reflexivity. Qed.

(* seed range: non-vacuity (both classes of ints exist; parafac always checks, tucker does not; an object call in a
   history: the instance advances, the global generator does not) *)
Example C16_seed_range_examples :
  seed_ok 0%Z = true /\ seed_ok 4294967295%Z = true /\ seed_ok 4294967296%Z = false /\ seed_ok (-1)%Z = false /\
  always_checks (E_estimator E_parafac) = true /\ always_checks E_tucker = false /\
  model_projection E_parafac ex_opts (HInt (-1)%Z) = (false, false, false, false, false) /\
  model_projection E_tucker {| o_shape := [4; 3; 5]; o_rank := 2; o_init := ISvd; o_svd := STruncated; o_mask := false;
                               o_nrep := 0; o_iters := 2; o_aux := 0 |} (HInt (-1)%Z) = (true, false, false, false, false) /\
  (let sk := skeleton E_cp_regressor ex_opts in
   let h := [ENew 3%Z; ECall toy_interp sk (RInst 0); EEnv (fun g => (g + 5)%Z); ECall toy_interp sk (RInst 0)] in
   forallb (call_safe Z Z nat) h = true /\
   snd (fst (run_hist Z Z nat toy_draw toy_seed h 0%Z [])) = 5%Z /\
   snd (run_hist Z Z nat toy_draw toy_seed h 0%Z []) <> [toy_seed 3%Z]).
Proof. repeat split; try reflexivity. vm_compute. discriminate. Qed.

(* the source-level analysis: two generator names; a generator bound in one branch and an alias of the argument in
   the other (sample_khatri_rao); the argument re-bound to the checked generator and passed on; np.random used as an
   object; a generator that MAY have been re-bound to np.random; check_random_state(None); a callee that gets no
   random_state and draws; a loop that re-binds its generator from the argument; and the two runs of an accepted
   skeleton from different global states *)
Example C16_source_analysis_examples :
  pglobal_free (PSeq (PCheck 1 (PVar 0)) (PSeq (PCheck 2 (PVar 0)) (PSeq (PDraw 1 0) (PDraw 2 0)))) = true /\
  pglobal_free (PSeq (PBranch 0 (PCheck 1 (PVar 0)) (PAssign 1 (PVar 0))) (PFor 0 3 (PDraw 1 0))) = true /\
  pglobal_free (PSeq (PCheck 1 (PVar 0)) (PSeq (PAssign 0 (PVar 1)) (PCall (PVar 0) (PSeq (PCheck 1 (PVar 0)) (PDraw 1 0))))) = true /\
  pglobal_free (PSeq (PAssign 1 PGlobE) (PDraw 1 0)) = false /\
  pglobal_free (PSeq (PCheck 1 (PVar 0)) (PSeq (PBranch 0 (PAssign 1 PGlobE) PSkip) (PDraw 1 0))) = false /\
  pglobal_free (PSeq (PCheck 1 PNoneE) (PDraw 1 0)) = false /\
  pglobal_free (PCall PNoneE (PSeq (PCheck 1 (PVar 0)) (PDraw 1 0))) = false /\
  pglobal_free (PSeq (PCheck 1 (PVar 0)) (PFor 0 3 (PSeq (PDraw 1 0) (PBranch 0 (PCheck 1 (PVar 0)) PSkip)))) = true /\
  (let sk := PSeq (PBranch 0 (PCheck 1 (PVar 0)) (PAssign 1 (PVar 0))) (PFor 0 3 (PDraw 1 0)) in
   fst (pcall Z Z nat toy_draw toy_seed toy_env toy_interp sk (HInt 3%Z) 0%Z) =
   fst (pcall Z Z nat toy_draw toy_seed toy_env toy_interp sk (HInt 3%Z) 9%Z) /\
   length (o_hist (fst (pcall Z Z nat toy_draw toy_seed toy_env toy_interp sk (HInt 3%Z) 0%Z))) = 3 /\
   snd (pcall Z Z nat toy_draw toy_seed toy_env toy_interp (PSeq (PAssign 1 PGlobE) (PDraw 1 0)) (HInt 3%Z) 0%Z) = 1%Z).
Proof. repeat split; reflexivity. Qed.

(* functions without random choices: the hypotheses are satisfiable (SVD-initialised tucker / parafac / parafac2 with a
   mask and any SVD but the randomized one, user-initialised CP through its class), each of them is needed (random
   init, randomized SVD, a mode shorter than the rank with SVD init all draw; the rank condition is sufficient, not
   necessary: a user init is draw-free for any rank), and randomised_parafac is not in the family *)
Example C16_deterministic_examples :
  let o := {| o_shape := [4; 3; 5]; o_rank := 2; o_init := ISvd; o_svd := STruncated; o_mask := true; o_nrep := 2; o_iters := 3; o_aux := 3 |} in
  no_random_choice o = true /\
  deterministic_family (E_estimator E_tucker) = true /\ deterministic_family E_parafac2 = true /\
  deterministic_family E_randomised_parafac = false /\
  draw_free (skeleton E_parafac o) = true /\ draw_free (skeleton E_parafac2 o) = true /\
  draw_free (skeleton (E_estimator E_parafac) {| o_shape := [4; 3; 5]; o_rank := 9; o_init := IUser; o_svd := SSymeig; o_mask := false;
                                                 o_nrep := 0; o_iters := 3; o_aux := 0 |}) = true /\
  draw_free (skeleton E_parafac {| o_shape := [4; 3; 5]; o_rank := 4; o_init := ISvd; o_svd := STruncated; o_mask := false;
                                   o_nrep := 0; o_iters := 3; o_aux := 0 |}) = false /\
  draw_free (skeleton E_tucker {| o_shape := [4; 3; 5]; o_rank := 2; o_init := ISvd; o_svd := SRandomized; o_mask := false;
                                  o_nrep := 0; o_iters := 3; o_aux := 0 |}) = false /\
  draw_free (skeleton E_tucker {| o_shape := [4; 3; 5]; o_rank := 2; o_init := IRandom; o_svd := STruncated; o_mask := false;
                                  o_nrep := 0; o_iters := 3; o_aux := 0 |}) = false.
Proof. repeat split; reflexivity. Qed.

(* the languages agree, non-vacuously: the embedded parafac skeleton (randomized-SVD init, mask, padding) draws the same 12
   values; the source-level criteria on embedded skeletons; an out-of-range seed is rejected by a transcribed-style
   skeleton and NOT when the argument is re-bound before the check (the hypothesis of pmust_check is needed) *)
Example C16_languages_agree_examples :
  pcall Z Z nat toy_draw toy_seed toy_env toy_interp (embed (skeleton E_parafac ex_opts)) (HInt 3%Z) 0%Z =
  call Z Z nat toy_draw toy_seed toy_env toy_interp (skeleton E_parafac ex_opts) (HInt 3%Z) 0%Z /\
  length (o_hist (fst (pcall Z Z nat toy_draw toy_seed toy_env toy_interp (embed (skeleton E_parafac ex_opts)) (HInt 3%Z) 0%Z))) = 12 /\
  pglobal_free (embed (skeleton E_parafac ex_opts)) = true /\
  pmust_check (embed (skeleton (E_estimator E_parafac) ex_opts)) = true /\
  pmust_check (embed (skeleton E_tucker ex_opts)) = false /\
  pmust_check (PSeq (PAssign 2 (PVar 0)) (PCall (PVar 0) (PSeq (PCheck 1 (PVar 0)) (PDraw 1 0)))) = true /\
  pmust_check (PSeq (PAssign 0 (PConstE 7%Z)) (PCheck 1 (PVar 0))) = false /\
  o_failed (fst (pcall Z Z nat toy_draw toy_seed toy_env toy_interp
                   (PSeq (PAssign 2 (PVar 0)) (PCall (PVar 0) (PSeq (PCheck 1 (PVar 0)) (PDraw 1 0)))) (HInt (-1)%Z) 0%Z)) = true /\
  o_failed (fst (pcall Z Z nat toy_draw toy_seed toy_env toy_interp
                   (PSeq (PAssign 0 (PConstE 7%Z)) (PCheck 1 (PVar 0))) (HInt (-1)%Z) 0%Z)) = false.
Proof. vm_compute. repeat split; reflexivity. Qed.

(* the instance clause in a history, non-vacuously: two RandomState(3) objects, the global generator re-seeded in between,
   the first object used twice: calls 2 and 4 (objects 0 and 1, both fresh) return the same outcome and leave both objects in
   the same state; call 5 (object 0 again, now advanced) returns something else; the global generator ends where the
   environment put it *)
Example C16_identical_instances_example :
  let sk := skeleton E_cp_regressor ex_opts in
  let h := [ENew 3%Z; ENew 3%Z; ECall toy_interp sk (RInst 0); EEnv (fun g => (g + 5)%Z); ECall toy_interp sk (RInst 1);
            ECall toy_interp sk (RInst 0)] in
  global_free_w sk = true /\
  nth_error (snd (state_at Z Z nat toy_draw toy_seed h 2 0%Z [])) 0 = nth_error (snd (state_at Z Z nat toy_draw toy_seed h 4 0%Z [])) 1 /\
  nth_error (fst (fst (run_hist Z Z nat toy_draw toy_seed h 0%Z []))) 2 = nth_error (fst (fst (run_hist Z Z nat toy_draw toy_seed h 0%Z []))) 4 /\
  nth_error (fst (fst (run_hist Z Z nat toy_draw toy_seed h 0%Z []))) 2 <> nth_error (fst (fst (run_hist Z Z nat toy_draw toy_seed h 0%Z []))) 5 /\
  nth_error (snd (state_at Z Z nat toy_draw toy_seed h 3 0%Z [])) 0 = nth_error (snd (state_at Z Z nat toy_draw toy_seed h 5 0%Z [])) 1 /\
  nth_error (snd (state_at Z Z nat toy_draw toy_seed h 3 0%Z [])) 0 <> Some (toy_seed 3%Z) /\
  snd (fst (run_hist Z Z nat toy_draw toy_seed h 0%Z [])) = 5%Z.
Proof. vm_compute. repeat split; try reflexivity; discriminate. Qed.

(* functions without random choices in a history, non-vacuously: SVD-initialised tucker called with random_state=None, then
   the global generator re-seeded, then called again with None and once with an int: same outcome, nothing drawn, the global
   generator only moved by the environment; the same with a random initialisation differs *)
Example C16_history_rng_free_example :
  let o := {| o_shape := [4; 3; 5]; o_rank := 2; o_init := ISvd; o_svd := STruncated; o_mask := true; o_nrep := 2; o_iters := 3; o_aux := 3 |} in
  let o' := {| o_shape := [4; 3; 5]; o_rank := 2; o_init := IRandom; o_svd := STruncated; o_mask := true; o_nrep := 2; o_iters := 3; o_aux := 3 |} in
  let h := fun o => [ECall toy_interp (skeleton E_tucker o) RNone; EEnv (fun g => (g + 5)%Z); ECall toy_interp (skeleton E_tucker o) RNone] in
  draw_free (skeleton E_tucker o) = true /\ not_inst RNone = true /\
  nth_error (fst (fst (run_hist Z Z nat toy_draw toy_seed (h o) 0%Z []))) 0 = nth_error (fst (fst (run_hist Z Z nat toy_draw toy_seed (h o) 0%Z []))) 2 /\
  snd (fst (run_hist Z Z nat toy_draw toy_seed (h o) 0%Z [])) = 5%Z /\
  nth_error (fst (fst (run_hist Z Z nat toy_draw toy_seed (h o') 0%Z []))) 0 <> nth_error (fst (fst (run_hist Z Z nat toy_draw toy_seed (h o') 0%Z []))) 2.
Proof. vm_compute. repeat split; try reflexivity; discriminate. Qed.

(* sequences, non-vacuously: objects 0 and 1 (both RandomState(3)) are threaded, interleaved, through CPRegressor.fit, parafac
   (randomized-SVD init, mask, padding) and tensor_ring_als_sampled, with an unseeded call and a re-seeding of the global
   generator in between: the same three outcomes, the same final state (not the initial one), 5 + 12 + ... draws *)
Example C16_threaded_instances_example :
  let s1 := skeleton E_cp_regressor ex_opts in let s2 := skeleton E_parafac ex_opts in let s3 := skeleton E_tr_als_sampled ex_opts in
  let h := [ECall toy_interp s1 (RInst 0); ECall toy_interp s1 (RInst 1); EEnv (fun g => (g + 5)%Z); ECall toy_interp s2 (RInst 0);
            ECall toy_interp s2 RNone; ECall toy_interp s2 (RInst 1); ECall toy_interp s3 (RInst 1); ECall toy_interp s3 (RInst 0)] in
  let r := run_hist Z Z nat toy_draw toy_seed h 0%Z [toy_seed 3%Z; toy_seed 3%Z] in
  calls_on Z Z nat 0 h = calls_on Z Z nat 1 h /\ length (calls_on Z Z nat 0 h) = 3 /\
  forallb (fun c => global_free_w (snd c)) (calls_on Z Z nat 0 h) = true /\
  outcomes_on Z Z nat 0 h (fst (fst r)) = outcomes_on Z Z nat 1 h (fst (fst r)) /\
  length (outcomes_on Z Z nat 0 h (fst (fst r))) = 3 /\
  nth_error (snd r) 0 = nth_error (snd r) 1 /\ nth_error (snd r) 0 <> Some (toy_seed 3%Z).
Proof. vm_compute. repeat split; try reflexivity; discriminate. Qed.

(* the decision table: the chain of /repo is accepted; so is a chain that tests in another order or accepts NumPy integers as
   ints; a chain that seeds the GLOBAL generator for ints, forgets the raise, tests the instance before None is fine but maps
   it to the global generator, or contains a test the translator does not understand is NOT *)
Example C16_crs_table_examples :
  crs_table_ok crs_table_repo ARaise = true /\
  crs_table_ok [(TIsRandomState, ASelf); (TIsInt, AFreshSeeded); (TIsNone, AGlobalGen)] ARaise = true /\
  crs_table_ok [(TIsNone, AGlobalGen); (TIsInt, AGlobalGen); (TIsRandomState, ASelf)] ARaise = false /\
  crs_table_ok [(TIsNone, AGlobalGen); (TIsInt, AFreshSeeded); (TIsRandomState, ASelf)] AGlobalGen = false /\
  crs_table_ok [(TIsNone, AGlobalGen); (TIsInt, AFreshSeeded); (TIsRandomState, AGlobalGen)] ARaise = false /\
  crs_table_ok [(TUnknown, ARaise); (TIsNone, AGlobalGen); (TIsInt, AFreshSeeded); (TIsRandomState, ASelf)] ARaise = false /\
  fst (crs_by_table Z Z toy_seed crs_table_repo ARaise (VInt 3%Z) (w0 Z Z (HInt 3%Z))) = Some (GObj 0).
Proof. repeat split; reflexivity. Qed.

(* the source-level analysis accepts the embedding of EVERY hand-written skeleton of a seedable definition (and of its class
   wrapper) on the whole option grid -- 64 definitions x 36 option values, by computation; the universal statement for the
   first language's analyses is C16_skeletons_global_free -- and the source-level out-of-range criterion accepts the
   embedding of every entry point C16_invalid_seed_rejected is claimed for *)
Example C16_source_analysis_accepts_handwritten :
  forallb seedable seedable_eps = true /\ length seedable_eps = 64 /\ length opt_grid = 36 /\
  forallb (fun e => forallb (fun o => pglobal_free (embed (skeleton e o)) && global_free_w (skeleton e o)) opt_grid) seedable_eps = true /\
  forallb (fun e => forallb (fun o => implb (always_checks e) (pmust_check (embed (skeleton e o)))) opt_grid) seedable_eps = true.
Proof. vm_compute. repeat split; reflexivity. Qed.

(* an object created in the middle of a history: after an unseeded call, a re-seeding of the global generator and the creation
   of another object, RandomState(3) is created and used twice; it ends where RandomState(3) threaded through the two calls
   alone ends, which is not where it started *)
Example C16_new_instance_thread_example :
  let s1 := skeleton E_cp_regressor ex_opts in let s2 := skeleton E_parafac ex_opts in
  let h1 := [ECall toy_interp s2 RNone; EEnv (fun g => (g + 5)%Z); ENew 9%Z] in
  let h2 := [ECall toy_interp s1 (RInst 1); ECall toy_interp s2 (RInt 4%Z); ECall toy_interp s2 (RInst 1); ECall toy_interp s1 (RInst 0)] in
  length (snd (run_hist Z Z nat toy_draw toy_seed h1 0%Z [])) = 1 /\
  length (calls_on Z Z nat 1 h2) = 2 /\
  nth_error (snd (run_hist Z Z nat toy_draw toy_seed (h1 ++ ENew 3%Z :: h2) 0%Z [])) 1 =
    Some (snd (thread Z Z nat toy_draw toy_seed (toy_seed 3%Z) (calls_on Z Z nat 1 h2))) /\
  snd (thread Z Z nat toy_draw toy_seed (toy_seed 3%Z) (calls_on Z Z nat 1 h2)) <> toy_seed 3%Z.
Proof. vm_compute. repeat split; try reflexivity; discriminate. Qed.

(* the two constructs the transcription of round 6 adds: a CHILD generator x = RandomState(<expr of drawn values>) is a safe
   generator object (its draws are a function of the seed: same outcome from two global states, 3 draws), seeded from an
   expression it may also fail (out-of-range int: as_seed of the toy interpretation is small, so it does not here); a raise
   ([PFail]) on one branch of an argument validation does not hide the check on the other: the out-of-range criterion still
   accepts, and rejects when the other branch returns early without checking *)
Example C16_child_generator_and_raise_examples :
  let sk := PSeq (PCheck 1 (PVar 0)) (PSeq (PDraw 1 0) (PSeq (PSeedFrom 2 0) (PSeq (PDraw 2 1) (PDraw 2 1)))) in
  pglobal_free sk = true /\
  fst (pcall Z Z nat toy_draw toy_seed toy_env toy_interp sk (HInt 3%Z) 0%Z) = fst (pcall Z Z nat toy_draw toy_seed toy_env toy_interp sk (HInt 3%Z) 9%Z) /\
  length (o_hist (fst (pcall Z Z nat toy_draw toy_seed toy_env toy_interp sk (HInt 3%Z) 0%Z))) = 3 /\
  o_failed (fst (pcall Z Z nat toy_draw toy_seed toy_env toy_interp sk (HInt 3%Z) 0%Z)) = false /\
  pglobal_free (PSeq (PSeedFrom 2 0) (PSeq (PBranch 0 (PAssign 2 PGlobE) PSkip) (PDraw 2 1))) = false /\
  pmust_check (PBranch 0 PFail (PSeq (PCheck 1 (PVar 0)) (PDraw 1 0))) = true /\
  pmust_check (PBranch 0 PSkip (PSeq (PCheck 1 (PVar 0)) (PDraw 1 0))) = false /\
  o_failed (fst (pcall Z Z nat toy_draw toy_seed toy_env toy_interp (PBranch 0 PFail (PCheck 1 (PVar 0))) (HInt 3%Z) 0%Z)) = true.
Proof. vm_compute. repeat split; reflexivity. Qed.

(* tensor_train / tensor_ring / tensor_train_matrix (E_tt_svd): no random_state parameter.  With a deterministic SVD they are in
   the family of C16_deterministic_entry_points (nothing is drawn); with svd='randomized_svd' the model -- like the code -- draws
   from the GLOBAL generator and moves it, and no argument can prevent that: they are then functions WITH random choices that
   accept no seed, outside both clauses of the property *)
Example C16_tt_svd_examples :
  let o := fun sv => {| o_shape := [4; 3; 5]; o_rank := 2; o_init := ISvd; o_svd := sv; o_mask := false; o_nrep := 0; o_iters := 0; o_aux := 0 |} in
  seedable E_tt_svd = false /\ deterministic_family E_tt_svd = true /\
  draw_free (skeleton E_tt_svd (o STruncated)) = true /\ draw_free (skeleton E_tt_svd (o SSymeig)) = true /\
  global_free_w (skeleton E_tt_svd (o SRandomized)) = false /\
  model_projection E_tt_svd (o SRandomized) HNone = (true, true, false, false, true) /\
  model_projection E_tt_svd (o SRandomized) (HInt 3%Z) = (true, true, false, false, true) /\
  model_projection E_tt_svd (o STruncated) HNone = (true, false, false, false, false).
Proof. vm_compute. repeat split; reflexivity. Qed.

(* the five-bit projection under BOTH branch interpretations: for every modelled definition, every option value of the grid and
   every kind of random_state, the run that takes the second alternative of every branch and leaves every loop at once draws
   from no generator, moves no state and fails in no case that the first-alternative / full-loop run does not: the
   interpretation used by corr:C16 is the maximal one (by computation; corr:C16 re-checks it per traced case) *)
Example C16_first_interpretation_is_maximal :
  forallb (fun e => forallb (fun o => forallb (fun a => proj_le (model_projection_alt e o a) (model_projection e o a))
                                        [HNone; HInt 3%Z; HInt (-1)%Z; HInst 5%Z; HGlobObj; HBad]) opt_grid)
          (seedable_eps ++ [E_cp_plsr; E_power_iteration; E_tt_svd; E_rng_free]) = true.
Proof. vm_compute. reflexivity. Qed.

(* THE FIRST INTERPRETATION IS THE MAXIMAL ONE, as universal theorems (the Example above is the same statement by computation on
   the option grid, for one opposite interpretation).  [fm] is a syntactic test on skeletons (Proofs/DrawsProofsMax.v): the second
   alternative of every data-dependent branch is inert (no check, no draw at any depth), first alternatives and loop bodies
   leave the scope's rng variable alone, no child generator.  (1) every modelled definition passes it, for ALL option values;
   (2) for ANY generator, any skeleton passing it, ANY interpretation I and any interpretation J that takes every first
   alternative and never leaves a loop early, any random_state, any two environments and global states: the call under I draws
   from no class of generator (0 = the global one, 1 = the caller's instance, 2 = an object created inside the call) that the
   call under J does not draw from, and fails only if the call under J fails; (3) hence, on the toy generator the
   correspondence executes, the five-bit projection of every modelled definition under EVERY interpretation is componentwise
   below the projection corr:C16 compares the trace with -- for all options, all kinds of random_state. *)
Theorem C16_skeletons_first_maximal : forall (e : ep) (o : opts), fm (skeleton e o) = true.
Proof. exact skeleton_fm. Qed.
Print Assumptions C16_skeletons_first_maximal.

Theorem C16_first_maximal_any_generator : forall (gstate value req : Type) (draw : req -> gstate -> value * gstate) (seed : Z -> gstate)
    (sk : skel), fm sk = true ->
  forall (I J : interp value req), first_like value req J ->
  forall (a : rsarg gstate) envI envJ gI gJ,
    let oI := fst (call gstate value req draw seed envI I sk a gI) in
    let oJ := fst (call gstate value req draw seed envJ J sk a gJ) in
    (o_failed oI = true -> o_failed oJ = true) /\
    (forall k, has (length (heap0 gstate a)) k (o_srcs oI) -> has (length (heap0 gstate a)) k (o_srcs oJ)).
Proof. exact call_first_maximal. Qed.
Print Assumptions C16_first_maximal_any_generator.

Theorem C16_first_interpretation_maximal : forall (e : ep) (o : opts) (a : rsarg Z) (I : interp Z nat),
  proj_le (model_projection_with I e o a) (model_projection e o a) = true.
Proof. exact first_interpretation_maximal. Qed.
Print Assumptions C16_first_interpretation_maximal.

(* non-vacuity: toy_interp is first-like; the premise [fm] is needed -- a branch whose SECOND alternative draws from numpy.random is
   rejected by it, and the opposite interpretation then draws from the global generator while the first one draws nothing *)
Example C16_first_maximal_nonvacuous :
  first_like Z nat toy_interp /\ fm (skeleton E_parafac2 ex_opts) = true /\
  (let sk := Branch 0 Skip (DrawNp 1) in
   fm sk = false /\
   project (HInt 3%Z) (fst (call Z Z nat toy_draw toy_seed toy_env toy_interp_alt sk (HInt 3%Z) 77%Z)) 77%Z (snd (call Z Z nat toy_draw toy_seed toy_env toy_interp_alt sk (HInt 3%Z) 77%Z))
     = (true, true, false, false, true) /\
   project (HInt 3%Z) (fst (call Z Z nat toy_draw toy_seed toy_env toy_interp sk (HInt 3%Z) 77%Z)) 77%Z (snd (call Z Z nat toy_draw toy_seed toy_env toy_interp sk (HInt 3%Z) 77%Z))
     = (true, false, false, false, false)).
Proof. split; [split; intros; reflexivity|]. split; [reflexivity|]. exact fm_needed. Qed.

(* GENUINE DEFECT, environment dependent (found in round 8 by tracing the sparse backend on dense matrices): tensorly/contrib/sparse/
   backend/numpy_backend.py partial_svd(random_state=<int>) seeds only ARPACK's START vector; on a SciPy whose eigsh has an `rng`
   argument (here 1.18) eigsh draws ARPACK's RESTART vectors from numpy.random.default_rng(None) -- operating-system entropy --
   and partial_svd does not pass `rng`.  Failing input on the real code: partial_svd(numpy.diag([2, 1, 0, 0, 0, 0, 0]), 3,
   random_state=3) called twice returns different third singular vectors (rank 2 < n_eigenvecs: the Lanczos process breaks down
   and restarts).  Model: Model/DrawsSparse.v ([entropy] = the source exists; a process-wide source is written DrawNp as
   everywhere).  _refuted: the join-precise analysis rejects the skeleton and one int seed gives two outcomes from two states of
   the process-wide source.  _partial: what does hold -- (1) without the source (eigsh given a generator derived from the
   resolved one: the candidate repair; or an older SciPy), and when random_state is not looked at, an int / instance gives one
   outcome from every global state and environment and leaves the global generator alone; (2) with the source, every run in
   which ARPACK needs no restart vector IS a run of the source-free skeleton. *)
Theorem C16_sparse_partial_svd_refuted :
  global_free_w (sk_sparse_partial_svd true false) = false /\
  exists (I : interp Z nat) (g g' : Z),
    fst (call Z Z nat toy_draw toy_seed toy_env I (sk_sparse_partial_svd true false) (HInt 3%Z) g) <>
    fst (call Z Z nat toy_draw toy_seed toy_env I (sk_sparse_partial_svd true false) (HInt 3%Z) g').
Proof. exact sparse_partial_svd_refuted. Qed.
Print Assumptions C16_sparse_partial_svd_refuted.

Theorem C16_sparse_partial_svd_partial : forall (gstate value req : Type) (draw : req -> gstate -> value * gstate) (seed : Z -> gstate),
  (forall (full : bool) (I : interp value req) (a : rsarg gstate),
     absp (param0 gstate a) = PInt \/ absp (param0 gstate a) = PLoc ->
     (forall env env' g g', fst (call gstate value req draw seed env I (sk_sparse_partial_svd false full) a g) =
                            fst (call gstate value req draw seed env' I (sk_sparse_partial_svd false full) a g')) /\
     (forall g, snd (call gstate value req draw seed (fun _ x => x) I (sk_sparse_partial_svd false full) a g) = g)) /\
  (forall (I : interp value req), (forall h, decide I 6 h = false) ->
     forall env (a : rsarg gstate) g,
       call gstate value req draw seed env I (sk_sparse_partial_svd true false) a g =
       call gstate value req draw seed env I (sk_sparse_partial_svd false false) a g).
Proof. exact sparse_partial_svd_partial. Qed.
Print Assumptions C16_sparse_partial_svd_partial.

(* the source-free skeleton is the one of randomized_range_finder (what corr:C16 compares the traced sparse calls with) and the
   five bits the model predicts for the skeleton WITH the source and an int seed: completes, process-wide source drawn from, fresh object drawn from *)
Example C16_sparse_partial_svd_examples :
  sk_sparse_partial_svd false false = Seq Check (Seq (Draw 2) Skip) /\
  (let (o, g') := call Z Z nat toy_draw toy_seed toy_env toy_interp (sk_sparse_partial_svd true false) (HInt 3%Z) 77%Z in
   project (HInt 3%Z) o 77%Z g') = (true, true, true, false, true) /\
  (let (o, g') := call Z Z nat toy_draw toy_seed toy_env toy_interp (sk_sparse_partial_svd false false) (HInt 3%Z) 77%Z in
   project (HInt 3%Z) o 77%Z g') = (true, false, true, false, false).
Proof. vm_compute. repeat split; reflexivity. Qed.

(* a child generator in the first language ([Reseed]: rng = RandomState(<expr of the values drawn so far>), e.g. a sampler seeded
   with rng.randint(2**31)): the conservative analysis leaves it to the join-precise one (the seed may be out of range), which
   accepts it -- so C16_join_precise_analysis, the history theorems and, through the embedding, the source-level theorems
   cover it: same outcome from two global states, three draws, the global generator untouched; seeding the child from a draw of
   the GLOBAL generator is rejected *)
Example C16_child_generator_first_language :
  let sk := Seq Check (Seq (Draw 1) (Seq (Reseed 2) (Seq (Draw 3) (Draw 3)))) in
  global_free sk PInt = false /\ global_free_w sk = true /\ pglobal_free (embed sk) = true /\
  fst (call Z Z nat toy_draw toy_seed toy_env toy_interp sk (HInt 3%Z) 0%Z) = fst (call Z Z nat toy_draw toy_seed toy_env toy_interp sk (HInt 3%Z) 9%Z) /\
  length (o_hist (fst (call Z Z nat toy_draw toy_seed toy_env toy_interp sk (HInt 3%Z) 0%Z))) = 3 /\
  snd (call Z Z nat toy_draw toy_seed toy_env toy_interp sk (HInt 3%Z) 0%Z) = 0%Z /\
  global_free_w (Seq (Call ANone (Seq Check (Draw 1))) (Seq (Reseed 2) (Draw 3))) = false.
Proof. vm_compute. repeat split; reflexivity. Qed.
