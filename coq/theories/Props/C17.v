(* C17 -- property theorems only.  Statements are about the machine of Model/Backend.v: ONE model
   for tensorly.backend's BackendManager and tensorly.tenalg's TenalgBackendManager (they differ in
   the name table c only), for every rule set R meeting the stated side conditions (the repaired
   tree's `fixed_rules` meets all of them, see the Examples), every name table, every state, every
   finite history over any number of threads (a list of operations tagged with thread ids IS an
   interleaving).  The dispatch clause (P7: the theorems named C17_dispatch_..., C17_static_dispatch_..., C17_tenalg_call_...)
   and initialize_backend (C17_initialize_...) are about Model/BackendDispatch.v, the layer on top of that machine:
   what a dispatched name is bound to on each route and on which object a call through it runs.
   P8 (C17_micro_atomic_generic): the micro-step reduction for ANY programs passing the boolean side condition that Corr/C17.v
   evaluates on the programs regenerated from the current source.  P9 (C17_abort_..., C17_raising_..., C17_rejected_nameless_refuted;
   Model/BackendAbort.v): calls that do NOT run to completion - interrupted between two attribute-level steps, or raising by
   themselves after a write (the nameless-instance defect as it was BEFORE /repo commit e7c4942, parameter nf = false; the
   repaired order is nf = true, C17_raising_selection_repaired; the harness reads nf off the current source).
   P10 (C17_default_name_tracks_shared): cls._default_backend.
   P11 (C17_symbolic_blocks_sound, C17_source_blocks_set / _enter / _exit; Model/BackendSym.v): the check Corr/C17.v runs on the
   programs regenerated from the current source decides block equivalence with the model's programs by symbolic
   execution; a positive answer is PROVED to mean equality on every initial state for every backend instance. *)
From Coq Require Import List Arith Bool.
From TLV Require Import Model.Backend Model.BackendDispatch Model.BackendAbort Proofs.BackendProofs Proofs.BackendNI Proofs.BackendTwo Proofs.BackendMicro Proofs.BackendNorm Proofs.BackendDispatch Proofs.BackendAbort.
From TLV Require Import Model.BackendSym Proofs.BackendSym.
Import ListNotations.

(* P1 view: after any history a thread's backend is its own most recent effective selection
   (explicit set, context enter, context restore), else what it held initially, else the most recent
   non-local selection of any thread, else the initial shared default *)
Theorem C17_view : forall (R : rules) (c : cfg) (s : st) (h : list op) (t : tid),
  cur (run R c s h) t = view (tls s t) (shared s) (events R c s h) t.
Proof. exact view_correct. Qed.
Print Assumptions C17_view.

(* P1 observations: a Query / a Dispatch at ANY position of ANY history returns the name of / is
   executed by exactly that view of the issuing thread *)
Theorem C17_observe : forall (R : rules) (c : cfg) (s : st) (h1 : list op) (t : tid) (h2 : list op),
  nth (length h1) (trace R c s (h1 ++ Query t :: h2)) ONoCtx
    = OName (name_of c (view (tls s t) (shared s) (events R c s h1) t)) /\
  nth (length h1) (trace R c s (h1 ++ Dispatch t :: h2)) ONoCtx
    = OInst (view (tls s t) (shared s) (events R c s h1) t).
Proof. exact observe. Qed.
Print Assumptions C17_observe.

Theorem C17_selected_is_current : forall (R : rules) (c : cfg) (s : st) (t : tid) (x : sel) (l : bool) (b : inst),
  resolve R c x = Some b -> cur (nxt R c s (Set_ t x l)) t = b /\ cur (nxt R c s (Enter t x l)) t = b.
Proof. exact selected_is_current. Qed.
Print Assumptions C17_selected_is_current.

Theorem C17_global_selection_published : forall (R : rules) (c : cfg) (s : st) (t : tid) (x : sel) (b : inst) (u : tid),
  resolve R c x = Some b -> tls s u = None -> u <> t ->
  cur (nxt R c s (Set_ t x false)) u = b /\ cur (nxt R c s (Enter t x false)) u = b.
Proof. exact global_selection_published. Qed.
Print Assumptions C17_global_selection_published.

(* ... and leaving a NON-local context publishes the restored backend to every thread without a
   selection of its own (the dual of isolation; holds for either exit rule) *)
Theorem C17_global_exit_published : forall (R : rules) (c : cfg) (s : st) (t : tid) (e : bool) (old : inst)
    (k : list (inst * bool)) (u : tid),
  wf R s -> ctx s t = (old, false) :: k -> tls s u = None -> u <> t ->
  cur (nxt R c s (Exit_ t e)) u = old /\ shared (nxt R c s (Exit_ t e)) = old.
Proof. exact global_exit_published. Qed.
Print Assumptions C17_global_exit_published.

(* P6 "and, independently, the active tensor-algebra backend": with both managers side by side
   (m = false: tensorly.backend, m = true: tensorly.tenalg) an operation on one manager leaves the
   whole state of the other untouched; every mixed history factors into the two single-manager
   histories (final states and traces); hence what a thread observes through a manager is the view
   computed from the operations on THAT manager alone *)
Theorem C17_other_manager_untouched : forall (R : rules) (cb ct : cfg) (s : st2) (m : bool) (o : op) (m' : bool),
  m' <> m -> on m' (nxt2 R cb ct s (m, o)) = on m' s.
Proof. exact other_manager_untouched. Qed.
Print Assumptions C17_other_manager_untouched.

Theorem C17_mixed_history_factors : forall (R : rules) (cb ct : cfg) (m : bool) (h : list mop) (s : st2),
  on m (run2 R cb ct s h) = run R (cfg2 cb ct m) (on m s) (proj m h) /\
  proj m (trace2 R cb ct s h) = trace R (cfg2 cb ct m) (on m s) (proj m h).
Proof. exact mixed_history_factors. Qed.
Print Assumptions C17_mixed_history_factors.

Theorem C17_managers_independent : forall (R : rules) (cb ct : cfg) (m : bool) (h : list mop) (s : st2) (t : tid),
  cur (on m (run2 R cb ct s h)) t
  = view (tls (on m s) t) (shared (on m s)) (events R (cfg2 cb ct m) (on m s) (proj m h)) t.
Proof. exact managers_independent. Qed.
Print Assumptions C17_managers_independent.

(* P2 isolation, one operation: a thread-local set, the enter AND the exit of a thread-local
   context, leave every other thread's backend unchanged *)
Theorem C17_isolation_step : forall (R : rules) (c : cfg) (s : st) (o : op) (t' : tid),
  keep_flag R = true -> is_local s o = true -> t' <> thr o -> cur (nxt R c s o) t' = cur s t'.
Proof. exact isolation_step. Qed.
Print Assumptions C17_isolation_step.

(* P2 isolation, histories: whatever the other threads do with local_threadsafe=True (sets, contexts
   entered and left in any nesting, rejected requests), thread t' keeps its backend and the shared
   default stays the same *)
Theorem C17_isolation_history : forall (R : rules) (c : cfg) (t' : tid), keep_flag R = true ->
  forall (h : list op) (s : st),
  ctx_local_except t' s ->
  Forall (fun o => thr o <> t' /\ flag_local o = true) h ->
  cur (run R c s h) t' = cur s t' /\ shared (run R c s h) = shared s.
Proof. exact isolation_history. Qed.
Print Assumptions C17_isolation_history.

(* P2 non-interference: if all operations of the other threads are thread-local, every operation
   of t returns exactly what it returns when t runs alone *)
Theorem C17_noninterference : forall (R : rules) (c : cfg) (t : tid), keep_flag R = true ->
  forall (h : list op) (s : st),
  ctx_local_except t s ->
  Forall (fun o => thr o = t \/ flag_local o = true) h ->
  own_trace R c t s h = trace R c s (filter (fun o => Nat.eqb (thr o) t) h).
Proof. exact noninterference. Qed.
Print Assumptions C17_noninterference.

(* P3 restore: Enter ... Exit, with arbitrary properly nested own operations and ARBITRARY
   operations of other threads in between, normal or exceptional exit, any depth, gives the thread
   back the backend (and context stack) it had before the Enter *)
Theorem C17_restore : forall (R : rules) (c : cfg) (s : st) (t : tid) (x : sel) (l : bool) (b : inst) (h : list op) (e : bool),
  (forall n, isinst R (Named n) = true) -> wf R s -> resolve R c x = Some b -> seg R c t 0 h ->
  cur (run R c s (Enter t x l :: h ++ [Exit_ t e])) t = cur s t /\
  ctx (run R c s (Enter t x l :: h ++ [Exit_ t e])) t = ctx s t.
Proof. exact restore. Qed.
Print Assumptions C17_restore.

(* "whether it exits normally or by exception": backend_context is `try: yield / finally: set_backend(old)`
   with no except clause, so in the model the two exits are ONE state transition (the flag of Exit_ is not
   looked at: this theorem holds by computation, and the `forall e` in C17_restore, C17_restore_observed,
   C17_exit_succeeds, C17_global_exit_published adds nothing beyond it); they differ only in the observable:
   after an exit by exception the body's exception propagates out of the `with` statement (OReraised).  That
   the CODE behaves like this (finally runs, exception neither swallowed nor replaced) is exercised by the
   correspondence, which drives real exceptions through real contexts and compares the outcome *)
Theorem C17_exit_by_exception_same_restore : forall (R : rules) (c : cfg) (s : st) (t : tid),
  nxt R c s (Exit_ t true) = nxt R c s (Exit_ t false) /\
  out R c s (Exit_ t true) = match out R c s (Exit_ t false) with ODone => OReraised | o => o end.
Proof. exact exit_exception_same_restore. Qed.
Print Assumptions C17_exit_by_exception_same_restore.

Theorem C17_restore_observed : forall (R : rules) (c : cfg) (s : st) (t : tid) (x : sel) (l : bool) (b : inst) (h : list op) (e : bool),
  (forall n, isinst R (Named n) = true) -> wf R s -> resolve R c x = Some b -> seg R c t 0 h ->
  let hist := Enter t x l :: h ++ [Exit_ t e] in
  out R c (run R c s hist) (Query t) = out R c s (Query t) /\
  out R c (run R c s hist) (Dispatch t) = out R c s (Dispatch t).
Proof. exact restore_observed. Qed.
Print Assumptions C17_restore_observed.

(* the side condition of P3 is an invariant, it holds at process start, and under it the
   finally-clause of backend_context never raises *)
Theorem C17_wf_invariant : forall (R : rules) (c : cfg),
  (forall n, isinst R (Named n) = true) -> forall (h : list op) (s : st), wf R s -> wf R (run R c s h).
Proof. exact wf_run. Qed.
Print Assumptions C17_wf_invariant.

Theorem C17_wf_at_start : forall own0 : tid -> option inst,
  (forall t k, own0 t <> Some (Foreign k)) -> wf fixed_rules (init own0).
Proof. exact wf_fixed_init. Qed.
Print Assumptions C17_wf_at_start.

Theorem C17_exit_succeeds : forall (R : rules) (c : cfg) (s : st) (t : tid) (e : bool),
  wf R s -> out R c s (Exit_ t e) <> OExitFailed.
Proof. exact exit_succeeds. Qed.
Print Assumptions C17_exit_succeeds.

(* P4 rejection: a selection that does not resolve leaves the WHOLE state unchanged, for set_backend
   and for backend_context (nothing pushed, nothing restored); at any position of any history it
   can be deleted without changing the final state or any other observation *)
Theorem C17_rejection : forall (R : rules) (c : cfg) (s : st) (t : tid) (x : sel) (l : bool),
  resolve R c x = None ->
  step R c s (Set_ t x l) = (s, ORejected) /\ step R c s (Enter t x l) = (s, ORejected).
Proof. exact rejection. Qed.
Print Assumptions C17_rejection.

Theorem C17_rejection_history : forall (R : rules) (c : cfg) (s : st) (h1 : list op) (o : op) (h2 : list op),
  (exists t x l, (o = Set_ t x l \/ o = Enter t x l) /\ resolve R c x = None) ->
  run R c s (h1 ++ o :: h2) = run R c s (h1 ++ h2) /\
  trace R c s (h1 ++ o :: h2) = trace R c s h1 ++ ORejected :: trace R c (run R c s h1) h2.
Proof. exact rejection_history. Qed.
Print Assumptions C17_rejection_history.

Theorem C17_unknown_name_rejected : forall (R : rules) (c : cfg) (n : name),
  known c n = false -> resolve R c (SName n) = None.
Proof. exact unknown_name_rejected. Qed.
Print Assumptions C17_unknown_name_rejected.

Theorem C17_non_instance_rejected : forall (R : rules) (c : cfg) (i : inst),
  isinst R i = false -> resolve R c (SInst i) = None.
Proof. exact non_instance_rejected. Qed.
Print Assumptions C17_non_instance_rejected.

(* where the shared default comes from: initialize_backend() at import (environment variable TENSORLY_BACKEND /
   TENSORLY_TENALG_BACKEND, falling back to the built-in default name 0 with a warning when the requested name is not
   listed).  If the resulting name can be loaded, EVERY thread sees its instance after import (the importing thread as
   its own selection, all others as the shared default) and a warning was issued exactly for an unlisted request; the
   import fails exactly when the resulting name is listed but cannot be loaded *)
Theorem C17_initialize_ok : forall (R : rules) (c : cfg) (listed : name -> bool) (env : option name) (t0 : tid),
  listed 0 = true -> known c (init_name listed env) = true ->
  exists s, initialize R c listed env t0 = IOk (match env with Some n => negb (listed n) | None => false end) s /\
    (forall t, cur s t = Named (init_name listed env)) /\ shared s = Named (init_name listed env) /\
    dname s = init_name listed env /\
    (forall t, tls s t = if Nat.eqb t t0 then Some (Named (init_name listed env)) else None) /\ (forall t, ctx s t = []).
Proof. exact initialize_ok. Qed.
Print Assumptions C17_initialize_ok.

Theorem C17_initialize_fails_iff : forall (R : rules) (c : cfg) (listed : name -> bool) (env : option name) (t0 : tid),
  listed 0 = true -> known c 0 = true ->
  ((exists w, initialize R c listed env t0 = IFail w) <-> known c (init_name listed env) = false).
Proof. exact initialize_fails_iff. Qed.
Print Assumptions C17_initialize_fails_iff.

(* P7 the dispatch clause, "dynamically dispatched functions always run on that backend", for every way a function
   is reached (Model/BackendDispatch.v: the class attributes installed by use_dynamic_dispatch / use_static_dispatch,
   the names tensorly/__init__.py binds at import, the module __getattr__, the class itself, references captured
   by `from tensorly import fn` / `f = tl.fn` and handed to other threads).  dyn_ok = dispatch is dynamic: it holds
   after import and is kept by every history that does not call use_static_dispatch *)
Theorem C17_dispatch_dynamic_at_import : forall (nc : ncfg) (own0 : tid -> option inst), dyn_ok nc (dinit nc own0).
Proof. exact dyn_init. Qed.
Print Assumptions C17_dispatch_dynamic_at_import.

Theorem C17_dispatch_dynamic_invariant : forall (R : rules) (c : cfg) (D : drules) (nc : ncfg) (h : list dop) (d : dst),
  dyn_ok nc d -> no_static h -> dyn_ok nc (drun R c D nc d h).
Proof. exact dyn_run. Qed.
Print Assumptions C17_dispatch_dynamic_invariant.

(* all routes to a function name agree: the call runs on the calling thread's current backend *)
Theorem C17_dispatch_routes_agree : forall (R : rules) (c : cfg) (D : drules) (nc : ncfg) (d : dst) (t : tid) (r : route) (n : fname),
  dyn_ok nc d -> is_fun nc n = true -> dout R c D nc d (DCall t r n) = DRan (cur (d_sel d) t).
Proof. exact dispatch_routes_agree. Qed.
Print Assumptions C17_dispatch_routes_agree.

(* ... at ANY position of ANY history (any threads, any selections, captures, use_dynamic_dispatch) that is the view
   of C17_view: the caller's own most recent selection, else the shared default *)
Theorem C17_dispatch_follows_view : forall (R : rules) (c : cfg) (D : drules) (nc : ncfg) (d : dst) (h1 : list dop)
    (t : tid) (r : route) (n : fname) (h2 : list dop),
  dyn_ok nc d -> no_static h1 -> is_fun nc n = true ->
  nth (length h1) (dtrace R c D nc d (h1 ++ DCall t r n :: h2)) DNone
  = DRan (view (tls (d_sel d) t) (shared (d_sel d)) (events R c (d_sel d) (sel_ops h1)) t).
Proof. exact dispatch_follows_view. Qed.
Print Assumptions C17_dispatch_follows_view.

(* a function reference captured BEFORE a switch (by any thread u, through any route, while dispatch was dynamic) and
   called by any thread t after any further history h2 - selections by anybody, even use_static_dispatch - runs on
   t's backend at the time of the CALL *)
Theorem C17_dispatch_captured_follows_view : forall (R : rules) (c : cfg) (D : drules) (nc : ncfg) (d : dst) (h1 : list dop)
    (u : tid) (r : route) (n : fname) (h2 : list dop) (t : tid) (h3 : list dop),
  dyn_ok nc d -> no_static h1 -> is_fun nc n = true ->
  let k := length (d_caps d) + length (cap_names h1) in
  let h := h1 ++ DCapture u r n :: h2 in
  nth (length h) (dtrace R c D nc d (h ++ DCallCap t k :: h3)) DNone
  = DRan (view (tls (d_sel d) t) (shared (d_sel d)) (events R c (d_sel d) (sel_ops h)) t).
Proof. exact captured_follows_view. Qed.
Print Assumptions C17_dispatch_captured_follows_view.

(* the functions tensorly/__init__.py binds by name (tensorly.context, tensorly.tensor, tensorly.dot, ...; likewise a
   library module's `from tensorly.tenalg import outer`) are closures for ever: through such a binding the call follows
   the caller in EVERY history from import on - use_static_dispatch included, no side condition *)
Theorem C17_dispatch_top_binding_always_dynamic : forall (R : rules) (c : cfg) (D : drules) (nc : ncfg)
    (own0 : tid -> option inst) (h1 : list dop) (t : tid) (n : fname) (h2 : list dop),
  top_bound nc n = true -> is_fun nc n = true ->
  let d := dinit nc own0 in
  nth (length h1) (dtrace R c D nc d (h1 ++ DCall t RTop n :: h2)) DNone
  = DRan (view (own0 t) (Named 0) (events R c (init own0) (sel_ops h1)) t).
Proof. exact top_binding_always_dynamic. Qed.
Print Assumptions C17_dispatch_top_binding_always_dynamic.

(* get_backend() names the object a dispatched function runs on *)
Theorem C17_dispatch_query_consistent : forall (R : rules) (c : cfg) (D : drules) (nc : ncfg) (d : dst) (t : tid) (r : route) (n : fname),
  dyn_ok nc d -> is_fun nc n = true ->
  exists b, dout R c D nc d (DCall t r n) = DRan b /\ dout R c D nc d (DSel (Query t)) = DSelObs (OName (name_of c b)) /\
            dout R c D nc d (DSel (Dispatch t)) = DSelObs (OInst b).
Proof. exact dispatch_query_consistent. Qed.
Print Assumptions C17_dispatch_query_consistent.

(* tenalg dispatch: a tensor-algebra function is dispatched on tensorly.tenalg's manager and its body calls dispatched
   functions of tensorly.backend's manager: in thread t it is executed by t's tenalg view and computes on t's backend
   view, each determined by the operations on its own manager alone *)
Theorem C17_tenalg_call_runs_on_both_views : forall (R : rules) (cb ct : cfg) (h : list mop) (s : st2) (t : tid),
  composite (run2 R cb ct s h) t
  = (view (tls (s_ta s) t) (shared (s_ta s)) (events R ct (s_ta s) (proj true h)) t,
     view (tls (s_bk s) t) (shared (s_bk s)) (events R cb (s_bk s) (proj false h)) t).
Proof. exact composite_view. Qed.
Print Assumptions C17_tenalg_call_runs_on_both_views.

(* library code reaches the backend through an alias of the manager module (`from . import backend as T; T.n(...)`):
   the same look-up as the manager-module route, in every state and mode *)
Theorem C17_dispatch_library_route : forall (R : rules) (c : cfg) (D : drules) (nc : ncfg) (d : dst) (t : tid) (n : fname),
  dout R c D nc d (DCall t RLib n) = dout R c D nc d (DCall t RMgr n).
Proof. exact library_route_is_manager_route. Qed.
Print Assumptions C17_dispatch_library_route.

(* a name that is in neither _functions nor _attributes is not dispatched: no route reaches it in any history (so a
   method registered at run time under a NEW name exists on the backend class only, tensorly.<name> raises AttributeError) *)
Theorem C17_unlisted_name_not_dispatched : forall (R : rules) (c : cfg) (D : drules) (nc : ncfg) (own0 : tid -> option inst)
    (h1 : list dop) (t : tid) (r : route) (n : fname) (h2 : list dop),
  is_fun nc n = false -> is_attr nc n = false ->
  nth (length h1) (dtrace R c D nc (dinit nc own0) (h1 ++ DCall t r n :: h2)) DNone = DErr.
Proof. exact unlisted_name_not_dispatched. Qed.
Print Assumptions C17_unlisted_name_not_dispatched.

(* register_backend_method (model: the method table of the backend CLASSES, classes = backend names, one level of
   inheritance).  A method registered by thread u runs for EVERY thread whose current backend is of the class of u's
   backend, and of a subclass that does not define the name itself; everybody else, and every other name, is unaffected;
   a backend whose class provides nothing raises AttributeError; and at any position of any history of selections,
   registrations and calls the call is executed by the caller's view with what the class of that object provides then *)
Theorem C17_registered_same_class : forall (H : hcfg) (c : cfg) (s : st) (mt : mtab) (u : tid) (n : fname) (v : nat) (t : tid),
  name_of c (cur s t) = name_of c (cur s u) ->
  which H c s (register c s mt u n v) t n = Some (cur s t, v).
Proof. exact registered_same_class. Qed.
Print Assumptions C17_registered_same_class.

Theorem C17_registered_inherited : forall (H : hcfg) (c : cfg) (s : st) (mt : mtab) (u : tid) (n : fname) (v : nat) (t : tid),
  cdepth H <> 0 ->
  mt (name_of c (cur s t)) n = MInherit -> cparent H (name_of c (cur s t)) = Some (name_of c (cur s u)) ->
  which H c s (register c s mt u n v) t n = Some (cur s t, v).
Proof. exact registered_inherited. Qed.
Print Assumptions C17_registered_inherited.

(* class hierarchies of ANY depth (cdepth H bounds the parent chains): the method registered by u runs for every thread
   whose backend's class reaches the class of u's backend through classes that inherit the name (on_chain) ... *)
Theorem C17_registered_inherited_deep : forall (H : hcfg) (c : cfg) (s : st) (mt : mtab) (u : tid) (n : fname) (v : nat) (t : tid),
  on_chain (cdepth H) H mt (name_of c (cur s t)) n (name_of c (cur s u)) ->
  which H c s (register c s mt u n v) t n = Some (cur s t, v).
Proof. exact registered_inherited_deep. Qed.
Print Assumptions C17_registered_inherited_deep.

(* ... and for nobody else: a look-up that does not pass through that class (unrelated class, or a definition of its own
   in the class or in an ancestor on the way) is what it was *)
Theorem C17_registered_elsewhere_unchanged : forall (H : hcfg) (c : cfg) (s : st) (mt : mtab) (u : tid) (n : fname) (v : nat) (t : tid),
  ~ on_chain (cdepth H) H mt (name_of c (cur s t)) n (name_of c (cur s u)) ->
  which H c s (register c s mt u n v) t n = which H c s mt t n.
Proof. exact registered_elsewhere_unchanged. Qed.
Print Assumptions C17_registered_elsewhere_unchanged.

Theorem C17_registered_other_name : forall (H : hcfg) (c : cfg) (s : st) (mt : mtab) (u : tid) (n : fname) (v : nat) (t : tid) (m : fname),
  m <> n -> which H c s (register c s mt u n v) t m = which H c s mt t m.
Proof. exact registered_other_name. Qed.
Print Assumptions C17_registered_other_name.

Theorem C17_undefined_method_raises : forall (H : hcfg) (c : cfg) (s : st) (mt : mtab) (t : tid) (n : fname),
  lookup H mt (name_of c (cur s t)) n = None -> which H c s mt t n = None.
Proof. exact undefined_raises. Qed.
Print Assumptions C17_undefined_method_raises.

Theorem C17_registered_call_follows_view : forall (R : rules) (H : hcfg) (c : cfg) (x : rst) (h1 : list rop) (t : tid) (n : fname)
    (h2 : list rop),
  let b := view (tls (r_sel x) t) (shared (r_sel x)) (events R c (r_sel x) (rsel_ops h1)) t in
  nth (length h1) (rtrace R H c x (h1 ++ RCall t n :: h2)) RNone
  = RRan (option_map (pair b) (lookup H (r_mt (rrun R H c x h1)) (name_of c b) n)).
Proof. exact registered_call_follows_view. Qed.
Print Assumptions C17_registered_call_follows_view.

(* the METADATA of the dispatch closure (__wrapped__, and with it __name__, __doc__, the signature): made once, by the
   thread that ran use_dynamic_dispatch, from ITS backend of that moment (at import: the default).  It does not follow the
   backend: in any history without use_dynamic_dispatch, whatever anybody selects, following __wrapped__ from any thread
   reaches the made-with backend; the import-time bindings keep theirs for ever; use_dynamic_dispatch by thread u re-makes
   the class closures with u's backend - while the CALL through the same closure follows the caller's view *)
Theorem C17_closure_metadata_static : forall (R : rules) (c : cfg) (x : wst) (h1 : list wop) (t : tid) (top : bool) (h2 : list wop),
  no_wdynamic h1 ->
  nth (length h1) (wtrace R c x (h1 ++ WUnwrap t top :: h2)) WNone = WRan (if top then w_top x else w_cls x).
Proof. exact unwrap_static. Qed.
Print Assumptions C17_closure_metadata_static.

Theorem C17_closure_metadata_top_static : forall (R : rules) (c : cfg) (x : wst) (h1 : list wop) (t : tid) (h2 : list wop),
  nth (length h1) (wtrace R c x (h1 ++ WUnwrap t true :: h2)) WNone = WRan (w_top x).
Proof. exact unwrap_top_static. Qed.
Print Assumptions C17_closure_metadata_top_static.

Theorem C17_closure_metadata_remade : forall (R : rules) (c : cfg) (x : wst) (u : tid) (h : list wop) (t : tid) (h2 : list wop),
  no_wdynamic h ->
  nth (S (length h)) (wtrace R c x (WDynamic u :: h ++ WUnwrap t false :: h2)) WNone = WRan (cur (w_sel x) u).
Proof. exact dynamic_remakes. Qed.
Print Assumptions C17_closure_metadata_remade.

Theorem C17_closure_call_follows_view : forall (R : rules) (c : cfg) (x : wst) (h1 : list wop) (t : tid) (top : bool) (h2 : list wop),
  nth (length h1) (wtrace R c x (h1 ++ WCall t top :: h2)) WNone
  = WRan (view (tls (w_sel x) t) (shared (w_sel x))
               (events R c (w_sel x) (flat_map (fun o => match o with WSel o => [o] | _ => [] end) h1)) t).
Proof. exact wcall_follows_view. Qed.
Print Assumptions C17_closure_call_follows_view.

(* the other clauses seen through dispatched CALLS: isolation (whatever the other threads do thread-locally - sets,
   contexts, captures, calls, use_dynamic_dispatch - a function called by t through any route runs on the same object
   as before) and restore (after Enter ... Exit around any properly nested history, normal or exceptional exit, a
   function called by t runs on the object it ran on before the context) *)
Theorem C17_dispatch_isolation : forall (R : rules) (c : cfg) (D : drules) (nc : ncfg) (d : dst) (h : list dop)
    (t : tid) (r : route) (n : fname),
  keep_flag R = true -> dyn_ok nc d -> is_fun nc n = true -> ctx_local_except t (d_sel d) ->
  Forall (fun o => dthr o <> t /\ dflag_local o = true) h ->
  dout R c D nc (drun R c D nc d h) (DCall t r n) = dout R c D nc d (DCall t r n).
Proof. exact dispatch_isolation. Qed.
Print Assumptions C17_dispatch_isolation.

Theorem C17_dispatch_restore : forall (R : rules) (c : cfg) (D : drules) (nc : ncfg) (d : dst) (t : tid) (x : sel) (l : bool)
    (b : inst) (h : list dop) (e : bool) (r : route) (n : fname),
  (forall k, isinst R (Named k) = true) -> wf R (d_sel d) -> dyn_ok nc d -> is_fun nc n = true ->
  resolve R c x = Some b -> seg R c t 0 (sel_ops h) -> no_static h ->
  dout R c D nc (drun R c D nc d (DSel (Enter t x l) :: h ++ [DSel (Exit_ t e)])) (DCall t r n) = dout R c D nc d (DCall t r n).
Proof. exact dispatch_restore. Qed.
Print Assumptions C17_dispatch_restore.

(* dispatched ATTRIBUTES (evaluated at access time): through the manager module and through the module __getattr__
   they are the attribute of the accessing thread's view; through the CLASS the statement depends on the descriptor:
   that value if it serves class access (descr_class D = true: the tree since /repo commit 0b04404, tree_drules),
   AttributeError otherwise (drules_before_0b04404) *)
Theorem C17_dispatch_attribute_follows_view : forall (R : rules) (c : cfg) (D : drules) (nc : ncfg) (d : dst) (h1 : list dop)
    (t : tid) (n : fname) (h2 : list dop),
  dyn_ok nc d -> no_static h1 -> is_fun nc n = false -> is_attr nc n = true ->
  let v := view (tls (d_sel d) t) (shared (d_sel d)) (events R c (d_sel d) (sel_ops h1)) t in
  nth (length h1) (dtrace R c D nc d (h1 ++ DCall t RMgr n :: h2)) DNone = DVal v /\
  (d_top d n = None -> nth (length h1) (dtrace R c D nc d (h1 ++ DCall t RTop n :: h2)) DNone = DVal v) /\
  nth (length h1) (dtrace R c D nc d (h1 ++ DCall t RClass n :: h2)) DNone = if descr_class D then DVal v else DErr.
Proof. exact attribute_follows_view. Qed.
Print Assumptions C17_dispatch_attribute_follows_view.

(* the class route with the repaired descriptor (tree_drules): BackendManager.<attr> is the attribute of the
   accessing thread's view at any position of any history without use_static_dispatch *)
Theorem C17_dispatch_class_attribute_follows_view : forall (R : rules) (c : cfg) (nc : ncfg) (d : dst) (h1 : list dop)
    (t : tid) (n : fname) (h2 : list dop),
  dyn_ok nc d -> no_static h1 -> is_fun nc n = false -> is_attr nc n = true ->
  nth (length h1) (dtrace R c tree_drules nc d (h1 ++ DCall t RClass n :: h2)) DNone
  = DVal (view (tls (d_sel d) t) (shared (d_sel d)) (events R c (d_sel d) (sel_ops h1)) t).
Proof. intros R c nc d h1 t n h2. exact (class_attribute_follows_view R c tree_drules nc d h1 t n h2 eq_refl). Qed.
Print Assumptions C17_dispatch_class_attribute_follows_view.

(* ... while an attribute that tensorly/__init__.py binds by name at import (int64, int32, float64, pi, e, inf, nan,
   index) keeps the import-time backend's value for ever: tensorly.<attr> does NOT follow the backend (C17 speaks of
   dispatched functions; recorded, see build/fix_candidates/C17_static_attributes.md) *)
Theorem C17_dispatch_top_attribute_import_time : forall (R : rules) (c : cfg) (D : drules) (nc : ncfg)
    (own0 : tid -> option inst) (h1 : list dop) (t : tid) (n : fname) (h2 : list dop),
  top_bound nc n = true -> is_fun nc n = false -> is_attr nc n = true ->
  nth (length h1) (dtrace R c D nc (dinit nc own0) (h1 ++ DCall t RTop n :: h2)) DNone = DVal (Named 0).
Proof. exact top_attribute_import_time. Qed.
Print Assumptions C17_dispatch_top_attribute_import_time.

(* use_static_dispatch() (the documented opt-out of dynamic dispatch) called by thread u freezes the manager routes on
   u's backend of that moment for every thread, until use_dynamic_dispatch(); the functions bound at import in the
   top-level namespace are still closures and keep following the caller *)
Theorem C17_static_dispatch_frozen : forall (R : rules) (c : cfg) (D : drules) (nc : ncfg) (d : dst) (u : tid)
    (h : list dop) (t : tid) (n : fname),
  dyn_ok nc d -> no_rebind h -> is_fun nc n = true ->
  let d' := drun R c D nc (dnxt R c D nc d (DStatic u)) h in
  dout R c D nc d' (DCall t RMgr n) = DRan (cur (d_sel d) u) /\
  dout R c D nc d' (DCall t RClass n) = DRan (cur (d_sel d) u) /\
  (top_bound nc n = true -> d_top d n = Some (VWrapper n) -> dout R c D nc d' (DCall t RTop n) = DRan (cur (d_sel d') t)).
Proof. exact static_dispatch_frozen. Qed.
Print Assumptions C17_static_dispatch_frozen.

Theorem C17_static_dispatch_frozen_attributes : forall (R : rules) (c : cfg) (D : drules) (nc : ncfg) (d : dst) (u : tid)
    (h : list dop) (t : tid) (n : fname),
  no_rebind h -> is_fun nc n = false -> is_attr nc n = true ->
  let d' := drun R c D nc (dnxt R c D nc d (DStatic u)) h in
  dout R c D nc d' (DCall t RMgr n) = DVal (cur (d_sel d) u) /\ dout R c D nc d' (DCall t RClass n) = DVal (cur (d_sel d) u).
Proof. exact static_dispatch_frozen_attributes. Qed.
Print Assumptions C17_static_dispatch_frozen_attributes.

(* threads that start late: a thread that has not selected anything - in particular one started at this moment by
   anybody, inside or outside of any context - sees the shared default = the most recent NON-local selection of
   anybody (context entries and restores included); started inside a live context of t it sees the context's backend
   iff the context was entered non-locally *)
Theorem C17_fresh_thread_view : forall (R : rules) (c : cfg) (s : st) (h : list op) (u : tid),
  tls s u = None -> Forall (fun o => thr o <> u) h ->
  tls (run R c s h) u = None /\
  cur (run R c s h) u = shared (run R c s h) /\
  cur (run R c s h) u = match last_from is_global None (events R c s h) with Some b => b | None => shared s end.
Proof. exact fresh_thread_view. Qed.
Print Assumptions C17_fresh_thread_view.

Theorem C17_thread_started_in_context : forall (R : rules) (c : cfg) (s : st) (t : tid) (x : sel) (l : bool) (b : inst) (u : tid),
  resolve R c x = Some b -> tls s u = None -> u <> t ->
  cur (nxt R c s (Enter t x l)) u = if l then shared s else b.
Proof. exact thread_started_in_context. Qed.
Print Assumptions C17_thread_started_in_context.

(* contexts of the two managers nested in one another: a context of manager m around ANY mixed history whose
   operations on m are properly nested for the thread restores m's backend and stack of the thread - whatever the
   same thread and the others do with the OTHER manager in between (contexts of the other manager opened inside and
   still open afterwards included) - and the other manager is exactly where its own operations put it *)
Theorem C17_restore_mixed : forall (R : rules) (cb ct : cfg) (m : bool) (s : st2) (t : tid) (x : sel) (l : bool) (b : inst)
    (h : list mop) (e : bool),
  (forall n, isinst R (Named n) = true) -> wf R (on m s) -> resolve R (cfg2 cb ct m) x = Some b ->
  seg R (cfg2 cb ct m) t 0 (proj m h) ->
  let hist := (m, Enter t x l) :: h ++ [(m, Exit_ t e)] in
  cur (on m (run2 R cb ct s hist)) t = cur (on m s) t /\
  ctx (on m (run2 R cb ct s hist)) t = ctx (on m s) t /\
  on (negb m) (run2 R cb ct s hist) = run R (cfg2 cb ct (negb m)) (on (negb m) s) (proj (negb m) h).
Proof. exact restore_mixed. Qed.
Print Assumptions C17_restore_mixed.

(* re-binding under concurrency (below operation level, outside C17's quantifier: use_dynamic_dispatch is a process-wide
   mode switch, not a selection).  While one thread runs use_dynamic_dispatch() other threads may look dispatched names
   up between any two of its acts.  The loop as it is since /repo commit 34d4068 sets every name with ONE setattr
   (rprog false): every such look-up, in every schedule, finds the old or the new binding, hence never a missing
   attribute.  On every run the harness stops a real use_dynamic_dispatch at source-line and at bytecode granularity while
   another thread looks up EVERY dispatched name, and Coq checks `a window was seen iff the loop in the source deletes
   before it sets` *)
Theorem C17_micro_rebind_old_or_new : forall (fresh : fname -> slot) (names : list fname) (l : list (bool * fname))
    (cl0 cl : fname -> slot),
  (forall n, cl n = cl0 n \/ cl n = fresh n) ->
  Forall (fun s => exists n, s = cl0 n \/ s = fresh n) (rsched cl (rprog false fresh names) l).
Proof. exact rsched_old_or_fresh. Qed.
Print Assumptions C17_micro_rebind_old_or_new.

Theorem C17_micro_rebind_no_window : forall (fresh : fname -> slot) (names : list fname) (l : list (bool * fname))
    (cl : fname -> slot),
  (forall n, cl n <> SAbsent) -> (forall n, fresh n <> SAbsent) ->
  Forall (fun s => s <> SAbsent) (rsched cl (rprog false fresh names) l).
Proof. exact rebind_no_window. Qed.
Print Assumptions C17_micro_rebind_no_window.

(* before_34d4068 (documentation of the OLD loop: delattr, then setattr per name - rprog true): a look-up between the two
   acts found the name missing (AttributeError through the manager module) although it was bound before and after;
   repaired by /repo commit 34d4068 (candidate build/fix_candidates/C17_dynamic_dispatch_window.diff) *)
Theorem C17_micro_rebind_window_refuted :
  let cl := fun _ : fname => SWrap in
  rsched cl (rprog true (fun _ => SWrap) [0; 1]) [(false, 0); (true, 0); (false, 0); (false, 1); (true, 0); (false, 0)]
  = [SWrap; SAbsent; SWrap; SWrap] /\
  (forall nc s t D, eval_slot nc s t true D SAbsent 0 = VError) /\
  rsched cl (rprog false (fun _ => SWrap) [0; 1]) [(false, 0); (true, 0); (false, 0); (false, 1); (true, 0); (false, 0)]
  = [SWrap; SWrap; SWrap; SWrap].
Proof. exact rebind_window_refuted. Qed.
Print Assumptions C17_micro_rebind_window_refuted.

(* P5 micro-steps ("in any interleaving" below the level of whole operations).  Every operation is
   a program of acts (Model/Backend.v, last part: what a thread switch can separate); a schedule is any
   list of "thread t begins operation o" / "thread t executes its next act".  The programs are well
   formed (every act that touches the shared default is an effect point), every operation has ONE
   effect point except the entry of a context, which has two (the read of the current backend, the
   selection) *)
Theorem C17_micro_programs_wellformed : forall (R : rules) (c : cfg) (p : priv) (o : op),
  has_lp (compile R c p o) = true /\ wfp (compile R c p o).
Proof. exact compile_wf. Qed.
Print Assumptions C17_micro_programs_wellformed.

Theorem C17_micro_effect_points : forall (R : rules) (c : cfg) (p : priv) (o : op),
  count_lp (compile R c p o) = match o with Enter _ _ _ => 2 | _ => 1 end.
Proof. exact compile_count. Qed.
Print Assumptions C17_micro_effect_points.

(* the program of an operation executed without interruption IS the operation of the atomic machine
   (observable state: shared default, every thread's selection and context stack; answer returned) *)
Theorem C17_micro_program_is_operation : forall (R : rules) (c : cfg) (b : bst) (o : op),
  seqv (to_st (astep R c b (AOp o))) (nxt R c (to_st b) o) /\
  (forall t, p_out (b_priv (astep R c b (AOp o)) t)
             = p_out (b_priv b t) ++ (if Nat.eqb (thr o) t then [out R c (to_st b) o] else [])).
Proof. exact astep_op. Qed.
Print Assumptions C17_micro_program_is_operation.

(* reduction: EVERY schedule of the acts of any operations of any number of threads, run until no
   operation is in flight, ends in exactly the state (shared default, every thread's selection,
   context stack, saved backend, sequence of answers received) of the SEQUENTIAL execution of the
   blocks in the order in which they took effect *)
Theorem C17_micro_atomic : forall (R : rules) (c : cfg) (b0 : bst) (l : list oev),
  let s := fst (orun R c (quiet b0) l) in
  let h := snd (orun R c (quiet b0) l) in
  (forall t, m_pend (o_m s) t = []) ->
  b_shared (m_b (o_m s)) = b_shared (arun R c b0 h) /\
  forall t, b_priv (m_b (o_m s)) t = b_priv (arun R c b0 h) t.
Proof. exact micro_atomic. Qed.
Print Assumptions C17_micro_atomic.

(* ... and whenever the two halves of every context entry took effect with no block of another
   thread in between, that is the atomic history h of whole operations: same final observable state,
   every thread received exactly the answers of h *)
Theorem C17_micro_atomic_ops : forall (R : rules) (c : cfg) (b0 : bst) (l : list oev) (h : list op),
  let s := fst (orun R c (quiet b0) l) in
  (forall t, m_pend (o_m s) t = []) ->
  snd (orun R c (quiet b0) l) = flat h ->
  seqv (to_st (m_b (o_m s))) (run R c (to_st b0) h) /\
  forall t, p_out (b_priv (m_b (o_m s)) t) = p_out (b_priv b0 t) ++ own_trace R c t (to_st b0) h.
Proof. exact micro_atomic_ops. Qed.
Print Assumptions C17_micro_atomic_ops.

(* the first half of a context entry depends on the shared default only if the entering thread
   holds no selection of its own *)
Theorem C17_micro_save_private : forall (c : cfg) (sh1 sh2 : inst) (p : priv),
  p_tls p <> None -> act_priv c sh1 p ASave = act_priv c sh2 p ASave.
Proof. exact save_private. Qed.
Print Assumptions C17_micro_save_private.

(* ... and then it commutes with every block of every other thread, hence can be postponed past any
   number of them, up to the second half of the entry: for a thread that holds a selection of its own,
   backend_context entry IS atomic (with C17_micro_atomic_ops: such schedules are atomic histories) *)
Theorem C17_micro_save_commutes : forall (R : rules) (c : cfg) (b : bst) (t : tid) (a : aop),
  athr a <> t -> p_tls (b_priv b t) <> None ->
  beqv (astep R c (astep R c b (ASaveOp t)) a) (astep R c (astep R c b a) (ASaveOp t)).
Proof. exact save_commutes. Qed.
Print Assumptions C17_micro_save_commutes.

Theorem C17_micro_save_sinks : forall (R : rules) (c : cfg) (t : tid) (others : list aop) (b : bst) (rest : list aop),
  Forall (fun a => athr a <> t) others -> p_tls (b_priv b t) <> None ->
  beqv (arun R c b (ASaveOp t :: others ++ rest)) (arun R c b (others ++ ASaveOp t :: rest)).
Proof. exact save_sinks. Qed.
Print Assumptions C17_micro_save_sinks.

(* global normalisation.  The blocks of ANY schedule, in effect order, can be read as a history of
   whole operations by holding the first half of every context entry back until its second half
   arrives (normH; `pending` = the threads between the two halves) ... *)
Theorem C17_micro_linearisation_is_history : forall (R : rules) (c : cfg) (l : list oev) (s : ost),
  inv c (o_m s) -> kinv R c s ->
  exists h, forall P, (forall t, P t = pending s t) ->
    exists P', normH P (snd (orun R c s l)) = Some (h, P') /\
               forall t, P' t = pending (fst (orun R c s l)) t.
Proof. exact orun_norm. Qed.
Print Assumptions C17_micro_linearisation_is_history.

(* ... that reading is sound whenever every first half is executed by a thread holding a selection of
   its own (the two executions differ only in the saved-backend register of half-done entries) ... *)
Theorem C17_micro_norm_sound : forall (R : rules) (c : cfg) (H : list aop) (P : tid -> bool) (b b' : bst)
    (h : list op) (P' : tid -> bool),
  normH P H = Some (h, P') -> saves_own R c b H -> relP P b b' ->
  relP P' (arun R c b H) (arun R c b' (map AOp h)).
Proof. exact norm_sound. Qed.
Print Assumptions C17_micro_norm_sound.

(* ... hence P5 for thread-safe use: if every thread that enters a context holds a selection of its own
   at that moment, EVERY schedule of acts of any operations of any number of threads, run to
   quiescence, is observationally an atomic history of whole operations: there is h with the same
   final observable state and exactly the answers every thread received *)
Theorem C17_micro_own_selection_atomic : forall (R : rules) (c : cfg) (b0 : bst) (l : list oev),
  let s := fst (orun R c (quiet b0) l) in
  (forall t, m_pend (o_m s) t = []) ->
  saves_own R c b0 (snd (orun R c (quiet b0) l)) ->
  exists h : list op,
    seqv (to_st (m_b (o_m s))) (run R c (to_st b0) h) /\
    forall t, p_out (b_priv (m_b (o_m s)) t) = p_out (b_priv b0 t) ++ own_trace R c t (to_st b0) h.
Proof. exact micro_own_selection_atomic. Qed.
Print Assumptions C17_micro_own_selection_atomic.

(* ... and with the hypothesis stated on the PROGRAMS instead of the linearisation: a thread-local slot is
   never cleared, so it suffices that every thread for which the schedule begins a context entry holds a
   selection of its own in the start state *)
Theorem C17_micro_own_selection_atomic_programs : forall (R : rules) (c : cfg) (b0 : bst) (l : list oev),
  let s := fst (orun R c (quiet b0) l) in
  (forall t, m_pend (o_m s) t = []) ->
  (forall t x lf, In (OBegin (Enter t x lf)) l -> p_tls (b_priv b0 t) <> None) ->
  exists h : list op,
    seqv (to_st (m_b (o_m s))) (run R c (to_st b0) h) /\
    forall t, p_out (b_priv (m_b (o_m s)) t) = p_out (b_priv b0 t) ++ own_trace R c t (to_st b0) h.
Proof. exact micro_own_selection_atomic_programs. Qed.
Print Assumptions C17_micro_own_selection_atomic_programs.

(* "backend_context entry is atomic" is refuted (repaired rules): a thread WITHOUT a selection of its
   own enters a non-local context while another thread completes a non-local set_backend between the
   entry's read and its write; a third thread then sees bka, and numpy after the exit - neither
   order of the whole operations gives these answers.  (Documented behaviour of the non-thread-safe
   flavour, not a violation of C17, which quantifies over interleavings of whole operations.) *)
Theorem C17_micro_enter_atomic_refuted :
  let r := orun fixed_rules cfg0 (quiet b00) sched_race in
  (forall t, m_pend (o_m (fst r)) t = []) /\
  snd r = [ASaveOp 1; AOp (Set_ 2 (SName 2) false); AEnterRest 1 (SName 1) false; AOp (Query 3);
           AOp (Exit_ 1 false); AOp (Query 3)] /\
  p_out (b_priv (m_b (o_m (fst r))) 3) = [OName 1; OName 0] /\
  own_trace fixed_rules cfg0 3 (to_st b00)
    [Enter 1 (SName 1) false; Set_ 2 (SName 2) false; Query 3; Exit_ 1 false; Query 3] = [OName 2; OName 0] /\
  own_trace fixed_rules cfg0 3 (to_st b00)
    [Set_ 2 (SName 2) false; Enter 1 (SName 1) false; Query 3; Exit_ 1 false; Query 3] = [OName 1; OName 2].
Proof. exact enter_not_atomic. Qed.
Print Assumptions C17_micro_enter_atomic_refuted.

(* the two rules of the pinned tree, kept as documentation: both are refuted *)
Theorem C17_old_exit_rule_refuted :
  exists h t', Forall (fun o => thr o = 1 /\ flag_local o = true) h /\ t' <> 1 /\
     cur (run old_exit_rules cfg0 s0 h) t' <> cur s0 t'.
Proof. exact old_exit_rule_refuted. Qed.
Print Assumptions C17_old_exit_rule_refuted.

Theorem C17_old_tenalg_rule_refuted :
  exists h, seg old_tenalg_rules cfg0 1 0 [] /\
     h = [Enter 1 (SName 1) false; Exit_ 1 false] /\
     trace old_tenalg_rules cfg0 s0 h = [ODone; OExitFailed] /\
     cur (run old_tenalg_rules cfg0 s0 h) 1 <> cur s0 1.
Proof. exact old_tenalg_rule_refuted. Qed.
Print Assumptions C17_old_tenalg_rule_refuted.

(* non-vacuity: the repaired rules meet every side condition, the start state is well formed, and
   a three-thread history with nested contexts, an exceptional exit, a rejected name inside a
   context and interfering global selections of another thread is a `seg` *)
Example C17_fixed_rules_ok :
  keep_flag fixed_rules = true /\ (forall n, isinst fixed_rules (Named n) = true) /\
  wf fixed_rules s0 /\ ctx_local_except 2 s0 /\ resolve fixed_rules cfg0 (SName 1) = Some (Named 1) /\
  resolve fixed_rules cfg0 (SName 9) = None /\ resolve fixed_rules cfg0 (SInst (Foreign 0)) = None.
Proof.
  repeat split; try reflexivity.
  - intros t b H; discriminate.
  - intros t old l [].
  - intros u old l _ [].
Qed.

Example C17_seg_nonvacuous :
  let h := [Set_ 1 (SInst (Obj 0)) true; Set_ 2 (SName 2) false; Enter 1 (SName 9) true;
            Enter 1 (SInst (Obj 1)) false; Query 1; Set_ 2 (SInst (Obj 3)) false; Exit_ 1 true; Dispatch 3] in
  seg fixed_rules cfg0 1 0 h /\
  trace fixed_rules cfg0 s0 (Query 1 :: Enter 1 (SName 1) true :: h ++ [Exit_ 1 false; Query 1; Query 3])
  = [OName 0; ODone; ODone; ODone; ORejected; ODone; OName 2; ODone; OReraised; OInst (Obj 0); ODone; OName 0; OName 1].
Proof.
  cbv zeta. split; [|vm_compute; reflexivity].
  apply seg_set. apply seg_other; [discriminate|]. apply seg_enter_rej; [reflexivity|].
  eapply seg_enter; [reflexivity|]. apply seg_query. apply seg_other; [discriminate|].
  apply seg_exit. apply seg_other; [discriminate|]. apply seg_nil.
Qed.

(* the two managers side by side: thread 1 selects through tensorly.tenalg inside a tensorly.backend
   context; each manager's trace is that of its own sub-history *)
Example C17_mixed_nonvacuous :
  let h := [(false, Enter 1 (SName 1) true); (true, Set_ 1 (SName 2) false); (false, Query 1); (true, Query 1);
            (true, Query 2); (false, Query 2); (false, Exit_ 1 false); (false, Query 1); (true, Query 1)] in
  trace2 fixed_rules cfg0 cfg0 (init2 (fun _ => None)) h
  = [(false, ODone); (true, ODone); (false, OName 1); (true, OName 2); (true, OName 2); (false, OName 0);
     (false, ODone); (false, OName 0); (true, OName 2)] /\
  proj true h = [Set_ 1 (SName 2) false; Query 1; Query 2; Query 1].
Proof. vm_compute. split; reflexivity. Qed.

(* non-vacuity of C17_micro_atomic_ops: the acts of a non-local set_backend of thread 1 and of a
   thread-local context entry of thread 2 interleaved act by act; quiescent at the end; linearised
   as the flat history *)
Example C17_micro_atomic_ops_nonvacuous :
  let r := orun fixed_rules cfg0 (quiet b00) sched_ok in
  (forall t, m_pend (o_m (fst r)) t = []) /\
  snd r = flat [Enter 2 (SInst (Obj 0)) true; Set_ 1 (SName 1) false; Query 2; Query 3] /\
  p_out (b_priv (m_b (o_m (fst r))) 2) = [ODone; OName 1] /\
  p_out (b_priv (m_b (o_m (fst r))) 3) = [OName 1].
Proof. exact micro_atomic_ops_nonvacuous. Qed.

(* non-vacuity of C17_micro_own_selection_atomic: thread 2 holds Obj 5, enters a NON-local context; thread
   1's non-local set_backend takes effect between the two halves of the entry (the linearisation is not
   flat), all hypotheses hold and the history read off is [Set 2; Set 1; Enter 2; Query 3; Exit 2; ...] *)
Example C17_micro_own_selection_nonvacuous :
  let r := orun fixed_rules cfg0 (quiet b00) sched_own in
  (forall t, m_pend (o_m (fst r)) t = []) /\
  saves_own fixed_rules cfg0 b00 (snd r) /\
  snd r = [AOp (Set_ 2 (SInst (Obj 5)) true); ASaveOp 2; AOp (Set_ 1 (SName 1) false);
           AEnterRest 2 (SInst (Obj 0)) false; AOp (Query 3); AOp (Exit_ 2 true); AOp (Query 3); AOp (Query 2)] /\
  option_map fst (normH (fun _ => false) (snd r))
  = Some [Set_ 2 (SInst (Obj 5)) true; Set_ 1 (SName 1) false; Enter 2 (SInst (Obj 0)) false; Query 3;
          Exit_ 2 true; Query 3; Query 2] /\
  p_out (b_priv (m_b (o_m (fst r))) 3) = [OName 1; OName 6] /\
  p_out (b_priv (m_b (o_m (fst r))) 2) = [ODone; ODone; OReraised; OName 6].
Proof. exact own_selection_nonvacuous. Qed.

(* non-vacuity of C17_micro_own_selection_atomic_programs: thread 2 starts with Obj 5 selected; its NON-local
   entry is split by thread 1's set_backend; it leaves by exception (OReraised) *)
Example C17_micro_own_selection_programs_nonvacuous :
  let r := orun fixed_rules cfg0 (quiet b01) sched_prog in
  (forall t, m_pend (o_m (fst r)) t = []) /\
  (forall t x lf, In (OBegin (Enter t x lf)) sched_prog -> p_tls (b_priv b01 t) <> None) /\
  snd r = [ASaveOp 2; AOp (Set_ 1 (SName 1) false); AEnterRest 2 (SInst (Obj 0)) false; AOp (Exit_ 2 true); AOp (Query 3)] /\
  p_out (b_priv (m_b (o_m (fst r))) 2) = [ODone; OReraised] /\
  p_out (b_priv (m_b (o_m (fst r))) 3) = [OName 6].
Proof. exact own_selection_programs_nonvacuous. Qed.

(* non-vacuity of the dispatch theorems: captures by thread 1 before thread 2's thread-local selection and thread 1's
   NON-local context; every route, a thread without selection "started" inside the context, class-level attribute
   access, use_static_dispatch, exit by exception, use_dynamic_dispatch - with the complete trace *)
Example C17_dispatch_nonvacuous :
  dyn_ok nc0 d0 /\ no_static (firstn 13 hist0) /\
  dtrace fixed_rules cfg0 tree_drules nc0 d0 hist0
  = [DNone; DNone; DSelObs ODone; DSelObs ODone;
     DRan (Obj 0); DRan (Named 1); DRan (Named 1); DRan (Obj 0); DRan (Named 0); DVal (Obj 0); DVal (Named 1);
     DVal (Named 0); DVal (Named 1);
     DNone; DSelObs OReraised;
     DRan (Obj 0); DRan (Obj 0); DRan (Named 0); DRan (Named 0); DVal (Obj 0); DVal (Named 0);
     DNone; DRan (Named 0)].
Proof. exact dispatch_nonvacuous. Qed.

(* non-vacuity of C17_restore_mixed: a tensorly.tenalg context opened inside a tensorly.backend context and still
   open after it, global selections of another thread on both managers in between *)
Example C17_restore_mixed_nonvacuous :
  let h := [(true, Enter 1 (SName 1) false); (false, Set_ 2 (SName 2) false); (true, Set_ 2 (SName 2) true);
            (false, Enter 1 (SInst (Obj 0)) true); (false, Exit_ 1 true)] in
  seg fixed_rules cfg0 1 0 (proj false h) /\
  trace2 fixed_rules cfg0 cfg0 (init2 (fun _ => None))
    ((false, Enter 1 (SName 1) true) :: h ++ [(false, Exit_ 1 false); (false, Query 1); (true, Query 1); (true, Query 3)])
  = [(false, ODone); (true, ODone); (false, ODone); (true, ODone); (false, ODone); (false, OReraised);
     (false, ODone); (false, OName 0); (true, OName 1); (true, OName 1)].
Proof. exact restore_mixed_nonvacuous. Qed.

(* non-vacuity of C17_dispatch_isolation / C17_dispatch_restore: the hypotheses hold for the import state d0, a history
   with a capture, a global selection of another thread, a nested thread-local context and an exit by exception *)
Example C17_dispatch_restore_nonvacuous :
  let h := [DCapture 2 RTop 0; DSel (Set_ 2 (SName 2) false); DSel (Enter 1 (SInst (Obj 0)) true); DCallCap 1 0;
            DDynamic 2; DSel (Exit_ 1 true)] in
  wf fixed_rules (d_sel d0) /\ ctx_local_except 1 (d_sel d0) /\ seg fixed_rules cfg0 1 0 (sel_ops h) /\ no_static h /\
  Forall (fun o => dthr o <> 1 /\ dflag_local o = true) [DCapture 2 RTop 0; DSel (Enter 2 (SName 1) true); DCall 3 RMgr 1] /\
  dout fixed_rules cfg0 tree_drules nc0 (drun fixed_rules cfg0 tree_drules nc0 d0 (DSel (Enter 1 (SName 1) false) :: h ++ [DSel (Exit_ 1 false)]))
       (DCall 1 RTop 1) = DRan (Named 0).
Proof.
  cbv zeta. split; [|split; [|split; [|split; [|split]]]].
  - apply C17_wf_at_start. intros t k. simpl. destruct (Nat.eqb t 0); discriminate.
  - intros u old l _ [].
  - simpl. apply seg_other; [discriminate|]. eapply seg_enter; [reflexivity|]. apply seg_exit. apply seg_nil.
  - intros t H. simpl in H. repeat (destruct H as [H|H]; [discriminate|]). exact H.
  - repeat constructor; discriminate.
  - vm_compute. reflexivity.
Qed.

(* non-vacuity of C17_initialize_*: names 0..2 loadable, 3 listed but not loadable, 9 not listed *)
Example C17_initialize_nonvacuous :
  let listed := fun n => Nat.leb n 3 in
  (exists s, initialize fixed_rules cfg0 listed (Some 1) 0 = IOk false s /\ cur s 5 = Named 1 /\ dname s = 1) /\
  (exists s, initialize fixed_rules cfg0 listed (Some 9) 0 = IOk true s /\ cur s 5 = Named 0) /\
  (exists s, initialize fixed_rules cfg0 listed None 0 = IOk false s /\ tls s 0 = Some (Named 0) /\ tls s 5 = None) /\
  initialize fixed_rules cfg0 listed (Some 3) 0 = IFail false.
Proof. cbv zeta. repeat split; try (eexists; repeat split; reflexivity). Qed.

(* the descriptor before /repo commit 0b04404 (documentation of the old code): the class-level access at position 12 of
   the same history raised AttributeError; every other observation is the same *)
Example C17_descriptor_before_0b04404 :
  nth 12 (dtrace fixed_rules cfg0 drules_before_0b04404 nc0 d0 hist0) DNone = DErr /\
  nth 12 (dtrace fixed_rules cfg0 tree_drules nc0 d0 hist0) DNone = DVal (Named 1) /\
  (forall k, k <> 12 -> nth k (dtrace fixed_rules cfg0 drules_before_0b04404 nc0 d0 hist0) DNone
                        = nth k (dtrace fixed_rules cfg0 tree_drules nc0 d0 hist0) DNone).
Proof. exact descriptor_before_0b04404. Qed.

(* non-vacuity of the C17_registered_... theorems: class 1 is a subclass of class 0 (cfg0: Obj 0 is of class 1), class 3
   provides nothing; thread 1 registers on the stock class, thread 2 (on Obj 0) inherits, registers its own, thread 3 on
   Obj 2 (class 3) raises *)
Example C17_registered_nonvacuous :
  let H := {| cparent := fun cl => if Nat.eqb cl 1 then Some 0 else if Nat.eqb cl 4 then Some 1 else None; cdepth := 2 |} in
  let mt := fun (cl : name) (_ : fname) => if Nat.eqb cl 1 then MInherit else if Nat.eqb cl 3 then MMissing else MHas 0 in
  rtrace fixed_rules H cfg0 {| r_sel := s0; r_mt := mt |}
    [RSel (Set_ 2 (SInst (Obj 0)) true); RCall 2 7; RReg 1 7 1; RCall 2 7; RCall 1 7; RReg 2 7 2; RCall 2 7; RCall 1 7;
     RCall 2 8; RSel (Set_ 3 (SInst (Obj 2)) true); RCall 3 7]
  = [RSelObs ODone; RRan (Some (Obj 0, 0)); RNone; RRan (Some (Obj 0, 1)); RRan (Some (Named 0, 1)); RNone;
     RRan (Some (Obj 0, 2)); RRan (Some (Named 0, 1)); RRan (Some (Obj 0, 0)); RSelObs ODone; RRan None].
Proof. vm_compute. reflexivity. Qed.

(* non-vacuity of C17_registered_inherited_deep / _elsewhere_unchanged: class 4 (Obj 3) is a subclass of class 1 (Obj 0), a
   subclass of the stock class 0; a registration on the stock class reaches Obj 3 through two levels, one on the middle
   class then takes over for Obj 3 and leaves the stock class alone *)
Example C17_registered_deep_nonvacuous :
  let H := {| cparent := fun cl => if Nat.eqb cl 1 then Some 0 else if Nat.eqb cl 4 then Some 1 else None; cdepth := 2 |} in
  let mt := fun (cl : name) (_ : fname) => if Nat.eqb cl 1 || Nat.eqb cl 4 then MInherit else MHas 0 in
  on_chain 2 H mt 4 7 0 /\ ~ on_chain 2 H mt 0 7 1 /\
  rtrace fixed_rules H cfg0 {| r_sel := s0; r_mt := mt |}
    [RSel (Set_ 2 (SInst (Obj 3)) true); RCall 2 7; RReg 1 7 1; RCall 2 7; RSel (Set_ 3 (SInst (Obj 0)) true); RReg 3 7 2;
     RCall 2 7; RCall 1 7]
  = [RSelObs ODone; RRan (Some (Obj 3, 0)); RNone; RRan (Some (Obj 3, 1)); RSelObs ODone; RNone; RRan (Some (Obj 3, 2));
     RRan (Some (Named 0, 1))].
Proof.
  cbv zeta. split; [|split].
  - right. split; [reflexivity|]. right. split; [reflexivity|]. now left.
  - intros [E|[E _]]; discriminate.
  - vm_compute. reflexivity.
Qed.

(* non-vacuity of the C17_closure_metadata_... theorems: the call follows thread 1's selection, __wrapped__ does not; after
   use_dynamic_dispatch by thread 1 the class closure is re-made with Obj 0, the import-time binding and the reference
   captured before are not *)
Example C17_closure_metadata_nonvacuous :
  wtrace fixed_rules cfg0 (winit (fun _ => None))
    [WCapture 2 false; WSel (Set_ 1 (SInst (Obj 0)) true); WCall 1 false; WUnwrap 1 false; WUnwrap 1 true; WDynamic 1;
     WUnwrap 2 false; WUnwrap 2 true; WUnwrapCap 2 0; WCall 2 true]
  = [WNone; WSelObs ODone; WRan (Obj 0); WRan (Named 0); WRan (Named 0); WNone; WRan (Obj 0); WRan (Named 0); WRan (Named 0);
     WRan (Named 0)].
Proof. vm_compute. reflexivity. Qed.

(* P8 reduction for ANY programs (not only the model's `compile`): every schedule of micro-steps of programs that pass the
   boolean side condition prog_ok (every act touching the shared default is an effect point, at least one effect point)
   run to quiescence ends in the state of the SEQUENTIAL execution of the emitted blocks.  Corr/C17.v evaluates prog_ok
   on the eight programs the harness regenerates from the CURRENT source of set_backend / backend_context /
   current_backend (ast) on every run: the reduction applies to the regenerated programs, not to a reading frozen in
   the model (a source shape the translator does not know is a broken tie). *)
Theorem C17_micro_atomic_generic : forall (c : cfg) (b0 : bst) (s : list ev),
  forallb ev_ok s = true ->
  (forall t, m_pend (fst (mrun c (mquiet b0) s)) t = []) ->
  b_shared (m_b (fst (mrun c (mquiet b0) s))) = b_shared (bblocks c b0 (snd (mrun c (mquiet b0) s))) /\
  forall t, b_priv (m_b (fst (mrun c (mquiet b0) s))) t = b_priv (bblocks c b0 (snd (mrun c (mquiet b0) s))) t.
Proof. exact micro_atomic_generic. Qed.
Print Assumptions C17_micro_atomic_generic.

Example C17_micro_atomic_generic_nonvacuous :
  forallb ev_ok sched_gen = true /\
  (forall t, m_pend (fst (mrun cfg0 (mquiet b00) sched_gen)) t = []) /\
  snd (mrun cfg0 (mquiet b00) sched_gen)
  = [(1, [ATls (Const (Obj 3)); ADname (Const (Obj 3)); AShared (Const (Obj 3)); AEmit ODone]);
     (2, [ATls (Const (Obj 4)); ADname (Const (Obj 4)); AShared (Const (Obj 4)); AEmit ODone])] /\
  b_shared (m_b (fst (mrun cfg0 (mquiet b00) sched_gen))) = Obj 4.
Proof. exact micro_atomic_generic_nonvacuous. Qed.

(* P9 calls that do NOT run to completion (Model/BackendAbort.v): an exception raised between two attribute-level steps
   of set_backend / backend_context entry / exit (asynchronous, e.g. KeyboardInterrupt; or raised by a step).  `abort
   R c b o k` = the state after the first k acts of o.  Outside the operation alphabet of C17 (which speaks of whole
   operations); stated to answer "is the machine atomic at those points?": NO (C17_abort_not_atomic_refuted), but what
   is left behind is confined as follows. *)
Theorem C17_abort_others_untouched : forall (R : rules) (c : cfg) (b : bst) (o : op) (k : nat) (u : tid),
  u <> thr o -> b_priv (abort R c b o k) u = b_priv b u.
Proof. exact abort_others. Qed.
Print Assumptions C17_abort_others_untouched.

Theorem C17_abort_other_view : forall (R : rules) (c : cfg) (b : bst) (o : op) (k : nat) (u : tid),
  u <> thr o -> p_tls (b_priv b u) <> None -> cur (to_st (abort R c b o k)) u = cur (to_st b) u.
Proof. exact abort_other_view. Qed.
Print Assumptions C17_abort_other_view.

Theorem C17_abort_shared_old_or_new : forall (R : rules) (c : cfg) (b : bst) (o : op) (k : nat),
  b_shared (abort R c b o k) = b_shared b \/ b_shared (abort R c b o k) = b_shared (astep R c b (AOp o)).
Proof. exact abort_shared_old_or_new. Qed.
Print Assumptions C17_abort_shared_old_or_new.

Theorem C17_abort_local_keeps_shared : forall (R : rules) (c : cfg) (b : bst) (o : op) (k : nat),
  keep_flag R = true -> is_local (to_st b) o = true -> b_shared (abort R c b o k) = b_shared b.
Proof. exact abort_local_keeps_shared. Qed.
Print Assumptions C17_abort_local_keeps_shared.

(* every thread's VIEW is atomic although the state is not: after an interruption anywhere, what ANY thread (the caller
   included) observes is what it observed before the call or what it would observe after the whole call *)
Theorem C17_abort_view_old_or_new : forall (R : rules) (c : cfg) (b : bst) (o : op) (k : nat) (u : tid),
  cur (to_st (abort R c b o k)) u = cur (to_st b) u \/
  cur (to_st (abort R c b o k)) u = cur (to_st (astep R c b (AOp o))) u.
Proof. exact abort_view_old_or_new. Qed.
Print Assumptions C17_abort_view_old_or_new.

(* `abort` is not an ad-hoc notion: in the micro-step machine of P5 (mrun), a thread that begins operation o, executes k of
   its acts and then never runs again leaves the machine in exactly the state abort R c b o k *)
Theorem C17_abort_is_stalled_program : forall (R : rules) (c : cfg) (b : bst) (o : op) (k : nat),
  m_b (fst (mrun c (mquiet b) (Begin (thr o) (compile R c (b_priv b (thr o)) o) :: ticks_of (thr o) k))) = abort R c b o k.
Proof. exact abort_is_stalled_program. Qed.
Print Assumptions C17_abort_is_stalled_program.

(* set_backend interrupted anywhere: nothing happened, or the THREAD-LOCAL flavour of the same selection, or the whole *)
Theorem C17_abort_set_characterised : forall (R : rules) (c : cfg) (b : bst) (t : tid) (x : sel) (l : bool) (k : nat),
  seqv (to_st (abort R c b (Set_ t x l) k)) (to_st b) \/
  seqv (to_st (abort R c b (Set_ t x l) k)) (nxt R c (to_st b) (Set_ t x true)) \/
  seqv (to_st (abort R c b (Set_ t x l) k)) (nxt R c (to_st b) (Set_ t x l)).
Proof. exact abort_set. Qed.
Print Assumptions C17_abort_set_characterised.

(* the entry of a context interrupted anywhere: nothing, the selection (thread-local or as requested) WITHOUT a frame -
   nothing will restore it -, or the whole entry *)
Theorem C17_abort_enter_characterised : forall (R : rules) (c : cfg) (b : bst) (t : tid) (x : sel) (l : bool) (k : nat),
  seqv (to_st (abort R c b (Enter t x l) k)) (to_st b) \/
  seqv (to_st (abort R c b (Enter t x l) k)) (nxt R c (to_st b) (Set_ t x true)) \/
  seqv (to_st (abort R c b (Enter t x l) k)) (nxt R c (to_st b) (Set_ t x l)) \/
  seqv (to_st (abort R c b (Enter t x l) k)) (nxt R c (to_st b) (Enter t x l)).
Proof. exact abort_enter. Qed.
Print Assumptions C17_abort_enter_characterised.

(* the exit of a context interrupted anywhere: nothing, the frame gone and nothing restored, the frame gone and the saved
   backend restored in the thread only (a non-local context then leaves its backend as everybody's default), or the whole *)
Theorem C17_abort_exit_characterised : forall (R : rules) (c : cfg) (b : bst) (t : tid) (e : bool) (k : nat),
  match p_ctx (b_priv b t) with
  | [] => seqv (to_st (abort R c b (Exit_ t e) k)) (to_st b)
  | (old, lf) :: rest =>
      let s1 := with_ctx (to_st b) t rest in
      seqv (to_st (abort R c b (Exit_ t e) k)) (to_st b) \/
      seqv (to_st (abort R c b (Exit_ t e) k)) s1 \/
      seqv (to_st (abort R c b (Exit_ t e) k)) (nxt R c s1 (Set_ t (SInst old) true)) \/
      seqv (to_st (abort R c b (Exit_ t e) k)) (nxt R c (to_st b) (Exit_ t e))
  end.
Proof. exact abort_exit. Qed.
Print Assumptions C17_abort_exit_characterised.

Theorem C17_abort_not_atomic_refuted :
  let o := Enter 1 (SName 1) false in
  let a := to_st (abort fixed_rules cfg0 b00 o 2) in
  cur a 1 = Named 1 /\ ctx a 1 = [] /\ shared a = Named 0 /\
  ~ seqv a (to_st b00) /\ ~ seqv a (nxt fixed_rules cfg0 (to_st b00) o).
Proof. exact abort_not_atomic. Qed.
Print Assumptions C17_abort_not_atomic_refuted.

(* BEFORE /repo commit e7c4942 (nf = false) there was ONE place where the code itself raised after a write:
   `cls._default_backend = backend.backend_name` came after `cls._THREAD_LOCAL_DATA.backend = backend`; an instance of the
   bare backend class (Backend(), TenalgBackend(): passes isinstance, has no backend_name) made it raise AttributeError.
   exec_nl nl = a call in a world where the instances in nl are nameless.  The statement below is about THAT order (it
   violated the rejection clause: the selection was rejected and yet the caller's backend had changed); e7c4942 reads the
   name before the first write (nf = true), for which C17_raising_selection_repaired gives the rejection clause in full. *)
Theorem C17_rejected_nameless_refuted :
  let o := Set_ 1 (SInst (Obj 20)) false in
  let r := exec_nl false nl20 fixed_rules cfg0 b00 o in
  snd r = true /\ cur (to_st b00) 1 = Named 0 /\ cur (to_st (fst r)) 1 = Obj 20 /\
  shared (to_st (fst r)) = Named 0 /\ cur (to_st (fst r)) 2 = Named 0.
Proof. exact nameless_rejected_changes_caller. Qed.
Print Assumptions C17_rejected_nameless_refuted.

(* what does hold for EVERY call that raises after it resolved its argument (any set of nameless instances, any rule
   set, any state): the shared default and every OTHER thread's selection, stack and backend are unchanged *)
Theorem C17_raising_selection_partial : forall (R : rules) (c : cfg) (nf : bool) (nl : inst -> bool) (b : bst) (o : op),
  snd (exec_nl nf nl R c b o) = true ->
  shared (to_st (fst (exec_nl nf nl R c b o))) = shared (to_st b) /\
  forall u, u <> thr o ->
    (tls (to_st (fst (exec_nl nf nl R c b o))) u = tls (to_st b) u) /\
    (ctx (to_st (fst (exec_nl nf nl R c b o))) u = ctx (to_st b) u) /\
    (cur (to_st (fst (exec_nl nf nl R c b o))) u = cur (to_st b) u).
Proof. exact raising_partial. Qed.
Print Assumptions C17_raising_selection_partial.

(* the repaired order (/repo commit e7c4942; nf = true: the name is read before the first write; the harness reads nf off
   the current source on every run): a set_backend / context entry that raises has changed nothing at all - the
   rejection clause in full *)
Theorem C17_raising_selection_repaired : forall (R : rules) (c : cfg) (nf : bool) (nl : inst -> bool) (b : bst) (o : op),
  nf = true -> (match o with Set_ _ _ _ | Enter _ _ _ => True | _ => False end) ->
  snd (exec_nl nf nl R c b o) = true -> seqv (to_st (fst (exec_nl nf nl R c b o))) (to_st b).
Proof. exact raising_repaired. Qed.
Print Assumptions C17_raising_selection_repaired.

Example C17_raising_selection_repaired_nonvacuous :
  let r := exec_nl true nl20 fixed_rules cfg0 b00 (Set_ 1 (SInst (Obj 20)) false) in
  let r' := exec_nl true nl20 fixed_rules cfg0 b00 (Enter 1 (SInst (Obj 20)) true) in
  snd r = true /\ cur (to_st (fst r)) 1 = Named 0 /\ snd r' = true /\ cur (to_st (fst r')) 1 = Named 0 /\ ctx (to_st (fst r')) 1 = [].
Proof. exact nameless_rejected_repaired. Qed.

Theorem C17_raising_call_is_abort : forall (R : rules) (c : cfg) (nf : bool) (nl : inst -> bool) (b : bst) (o : op),
  fst (exec_nl nf nl R c b o) = abort R c b o (fail_at nf nl c b (thr o) (acts_of R c b o)) /\
  (snd (exec_nl nf nl R c b o) = false -> fst (exec_nl nf nl R c b o) = astep R c b (AOp o)).
Proof. exact raising_call_is_abort. Qed.
Print Assumptions C17_raising_call_is_abort.

(* where no instance is nameless the machine with raising steps IS the machine of whole operations (all theorems above) *)
Theorem C17_no_nameless_whole_operations : forall (nf : bool) (R : rules) (c : cfg) (b : bst) (o : op),
  exec_nl nf (fun _ => false) R c b o = (astep R c b (AOp o), false).
Proof. exact exec_nl_none. Qed.
Print Assumptions C17_no_nameless_whole_operations.

(* before e7c4942 (nf = false) the thread-local flavour accepted the nameless instance silently; a later NON-local context of
   that thread then failed in its exit and left the context's backend as the shared default of everybody else *)
Example C17_nameless_local_accepted_then_exit_fails :
  (let r := exec_nl false nl20 fixed_rules cfg0 b00 (Set_ 1 (SInst (Obj 20)) true) in
   snd r = false /\ cur (to_st (fst r)) 1 = Obj 20) /\
  (let h := [Set_ 1 (SInst (Obj 20)) true; Enter 1 (SName 1) false] in
   let b := run_nl_hist false nl20 fixed_rules cfg0 b00 h in
   let r := exec_nl false nl20 fixed_rules cfg0 b (Exit_ 1 false) in
   snd r = true /\ cur (to_st (fst r)) 1 = Obj 20 /\ cur (to_st (fst r)) 2 = Named 1 /\ cur (to_st b00) 2 = Named 0).
Proof. split; [exact nameless_local_accepted | exact nameless_exit_fails]. Qed.

(* P10 cls._default_backend (read by initialize_backend only): after ANY history of whole operations it is the name of
   the shared default cls._backend - set_backend writes both or neither (from the import-time state on: C17_initialize_ok).
   Below operation level the two writes of two concurrent non-local calls can interleave (nothing reads the name then). *)
Theorem C17_default_name_tracks_shared : forall (R : rules) (c : cfg) (h : list op) (s : st),
  dname s = name_of c (shared s) -> dname (run R c s h) = name_of c (shared (run R c s h)).
Proof. exact dname_tracks_shared. Qed.
Print Assumptions C17_default_name_tracks_shared.

Example C17_default_name_tracks_shared_nonvacuous :
  dname (init (fun _ => None)) = name_of cfg0 (shared (init (fun _ => None))) /\
  dname (run fixed_rules cfg0 (init (fun _ => None)) [Enter 1 (SInst (Obj 0)) false; Set_ 2 (SName 2) true; Exit_ 1 true; Set_ 2 (SName 1) false]) = 1.
Proof. split; reflexivity. Qed.


(* P11 the tie of the micro-step programs to the CURRENT source.  On every run the harness translates set_backend /
   backend_context / current_backend (ast) into eight programs of acts (set, enter, exit, exit by exception x global /
   thread-local flavour) and Corr/C17.v evaluates src_ok on their digits: prog_ok (the side condition of
   C17_micro_atomic_generic), the number of effect points, and blk_eqb = equality of the SYMBOLIC end states (values as
   functions of the initial shared default / slot / register / context stack and of the call's argument) of the
   regenerated block and of the model's program.  The theorems below say what a positive answer means: equality of
   shared default, thread-local slot, context stack and answers on EVERY initial state, for EVERY resolved backend
   instance, under every rule set (exit: with keep_flag) - nothing is tested on a family of states. *)
Theorem C17_symbolic_blocks_sound : forall (l1 l2 : list sact), blk_eqb l1 l2 = true ->
  forall (c : cfg) (b sh : inst) (p : priv), blk_same c sh p (map (inst_act b) l1) (map (inst_act b) l2).
Proof. exact blk_eqb_sound. Qed.
Print Assumptions C17_symbolic_blocks_sound.

Theorem C17_source_blocks_set : forall (digits : list nat), src_ok digits = true ->
  forall l : bool, exists pr : sprog,
    (exists ps, dec_sprogs 8 digits = Some ps /\ nth_error ps (if l then 4 else 0) = Some pr) /\
    forall (R : rules) (c : cfg) (t : tid) (x : sel) (b sh : inst) (p : priv),
      resolve R c x = Some b ->
      prog_ok (inst_prog b pr) = true /\
      blk_same c sh p (map fst (inst_prog b pr)) (map fst (compile R c p (Set_ t x l))).
Proof. exact src_ok_set. Qed.
Print Assumptions C17_source_blocks_set.

Theorem C17_source_blocks_enter : forall (digits : list nat), src_ok digits = true ->
  forall l : bool, exists pr : sprog,
    (exists ps, dec_sprogs 8 digits = Some ps /\ nth_error ps (if l then 5 else 1) = Some pr) /\
    forall (R : rules) (c : cfg) (t : tid) (x : sel) (b sh : inst) (p : priv),
      resolve R c x = Some b ->
      prog_ok (inst_prog b pr) = true /\
      blk_same c sh p (map fst (inst_prog b pr)) (map fst (compile R c p (Enter t x l))).
Proof. exact src_ok_enter. Qed.
Print Assumptions C17_source_blocks_enter.

Theorem C17_source_blocks_exit : forall (digits : list nat), src_ok digits = true ->
  forall l e : bool, exists pr : sprog,
    (exists ps, dec_sprogs 8 digits = Some ps /\
                nth_error ps ((if l then 6 else 2) + (if e then 1 else 0)) = Some pr) /\
    forall (R : rules) (c : cfg) (t : tid) (sh old : inst) (p : priv) (cx : list (inst * bool)),
      keep_flag R = true -> p_ctx p = (old, l) :: cx -> isinst R old = true ->
      prog_ok (inst_prog old pr) = true /\
      blk_same c sh p (map fst (inst_prog old pr)) (map fst (compile R c p (Exit_ t e))).
Proof. exact src_ok_exit. Qed.
Print Assumptions C17_source_blocks_exit.

(* non-vacuity: the digits of the repaired tree pass, and so does the harmless reordering (shared default written before
   the thread-local slot); a read-back of the shared default, an exit that drops the flag, an except clause that
   swallows the body's exception, an entry that saves nothing are refused *)
Example C17_source_blocks_nonvacuous :
  let reordered := [4; 3; 20; 1; 10] ++ [6; 16; 3; 20; 1; 6; 10] ++ [5; 8; 3; 21; 2; 10] ++ [5; 8; 3; 21; 2; 11]
              ++ [2; 17; 10] ++ [4; 16; 17; 7; 10] ++ [3; 8; 18; 10] ++ [3; 8; 18; 11] in
  let readback := [5; 3; 20; 25; 2; 10] ++ skipn 5 src_good in
  let dropflag := firstn 32 src_good ++ [5; 8; 2; 3; 21; 10] ++ [5; 8; 2; 3; 21; 11] in
  let swallow := firstn 18 src_good ++ [5; 8; 2; 3; 21; 10] ++ skipn 24 src_good in
  let nosave := [4; 1; 3; 20; 10] ++ [5; 1; 3; 20; 6; 10] ++ skipn 12 src_good in
  src_ok src_good = true /\ src_ok reordered = true /\ src_ok readback = false /\ src_ok dropflag = false /\
  src_ok swallow = false /\ src_ok nosave = false.
Proof. exact src_ok_examples. Qed.
