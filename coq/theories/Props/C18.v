(* C18 -- property theorems only.  Statements are about Model/Dtype.v: the NEP-50 promotion table (re-measured from NumPy
   on every run), the dtype language, and the per-entry-point skeletons.
   No refutation stands against the current code: every *_before_<commit>_refuted statement is about code that has since been
   repaired (45ef7df masks of parafac / tucker / svd_interface, c906acd active_set fallback, ba7a532 the plain mask multipliers
   cp_to_tensor / khatri_rao / cp_lstsq_grad, whose statement for the code as it is now is C18_mask_multiplier_after_cast_any_mask).  Programs extracted from the Python source: C18_prog2_precision_preserved
   (precision class) and C18_all_exact2_sound (exactly the data's dtype: complex stays complex).  Call sequences (round 7, Model/DtypeHist.v):
   C18_history_independent - a call of a program that reads no persistent variable before overwriting it returns, after ANY history of calls,
   what it returns in a fresh process; vacuously every program without persistent variables (all skeletons, all extracted programs:
   C18_stateless_history_independent); refuted for a dtype-oblivious cache (C18_dtype_oblivious_cache_refuted - a model variant, NOT the code:
   that the code keeps no such state is checked per run by harness/props/C18_hist.py).  Estimator instances (round 8): the fitted attributes of one
   object as persistent variables - C18_refit_history_independent (store-then-read, the shape of every fit method of the library, checked per run by a
   must-define analysis), C18_refit_warm_start_refuted (a model variant, NOT the code), C18_refit_cast_warm_start_history_independent. *)
From Coq Require Import List Bool Arith String.
From TLV Require Import Model.Dtype Model.DtypeHist Proofs.DtypeProofs Proofs.DtypeHistProofs.
Import ListNotations.

Theorem C18_promote_comm : forall a b, promote a b = promote b a.
Proof. exact promote_comm. Qed.
Print Assumptions C18_promote_comm.

Theorem C18_promote_idem : forall a, promote a a = a.
Proof. exact promote_idem. Qed.
Print Assumptions C18_promote_idem.

(* "the result is the join of the leaves" is FALSE for NumPy promotion with weak scalars *)
Theorem C18_promote_not_assoc : promote (promote B WF) F32 <> promote B (promote WF F32).
Proof. exact promote_not_assoc. Qed.
Print Assumptions C18_promote_not_assoc.

Theorem C18_promote_assoc_strong : forall a b c, is_weak a = false -> is_weak b = false -> is_weak c = false ->
  promote (promote a b) c = promote a (promote b c).
Proof. exact promote_assoc_strong. Qed.
Print Assumptions C18_promote_assoc_strong.

Theorem C18_S_closed : forall t x y, In t ctxs -> inS t x = true -> inS t y = true ->
  inS t (promote x y) = true /\ (dt_eqb x t || dt_eqb y t = true -> promote x y = t).
Proof. exact S_closed. Qed.
Print Assumptions C18_S_closed.

(* S_tau cannot be enlarged in single precision: every dtype outside the precision class of float32 / complex64 can push a
   value out of the class with at most two promotions by members of S_tau (e.g. (bool * 1.0) * f32 = f64) - which is why
   boolean / integer leaves must be tracked *)
Theorem C18_S_maximal_single : forall t x, In t singles -> inP t x = false ->
  exists y z, inS t y = true /\ inS t z = true /\ inP t (promote (promote x y) z) = false.
Proof. exact S_maximal_single. Qed.
Print Assumptions C18_S_maximal_single.

(* every expression whose leaves are the context tau or weak int/float scalars evaluates inside that set, and to tau
   as soon as one leaf is strong *)
Theorem C18_ctx_preserved_expr : forall en st t e, In t ctxs -> leaves_in en st t e = true ->
  inS t (eval en st e) = true /\ (has_strong en st t e = true -> eval en st e = t).
Proof. exact ctx_preserved_expr. Qed.
Print Assumptions C18_ctx_preserved_expr.

(* every program passing the syntactic check keeps all outputs in the input's precision, for every number of sweeps *)
Theorem C18_prog_precision_preserved : forall en p, In (tau en) ctxs -> prog_ok en p = true ->
  forall n s e, In (s, e) (p_outs p) -> strongP (tau en) (eval en (run en p n) e) = true.
Proof. exact prog_precision_preserved. Qed.
Print Assumptions C18_prog_precision_preserved.

Theorem C18_prog_context_preserved : forall en p, is_real (tau en) = true -> prog_ok en p = true ->
  forall n s e, In (s, e) (p_outs p) -> eval en (run en p n) e = tau en.
Proof. exact prog_context_preserved. Qed.
Print Assumptions C18_prog_context_preserved.

(* a mask that only occurs on the value side of a cast into the data's context cannot influence ANY dtype of ANY program
   of the language (induction over expressions, statements and sweeps) *)
Theorem C18_guarded_mask_irrelevant : forall t m m' p n, prog_guarded p = true ->
  out_dtypes (mkenv t m) p n = out_dtypes (mkenv t m') p n.
Proof. exact guarded_mask_irrelevant. Qed.
Print Assumptions C18_guarded_mask_irrelevant.

(* the tolerant program check used for the programs that the harness extracts from the Python source on every run: whatever
   index / boolean / unknown values a program handles on the way, if the check passes then every output is in the precision
   class of the data, after ANY number of executions of the loop body; the two certification levels of Corr.C18.CExt *)
Theorem C18_prog2_precision_preserved : forall en p, In (tau en) ctxs -> prog_ok2 en p = true ->
  forall n s e, In (s, e) (p_outs p) -> strongP (tau en) (eval en (run en p n) e) = true.
Proof. exact prog2_precision_preserved. Qed.
Print Assumptions C18_prog2_precision_preserved.
Theorem C18_ext_ok_any_sound : forall p, ext_ok_any p = true -> forall t m, In t ctxs -> In m mask_dts ->
  forall n s e, In (s, e) (p_outs p) -> strongP t (eval (mkenv t m) (run (mkenv t m) p n) e) = true.
Proof. exact ext_ok_any_sound. Qed.
Print Assumptions C18_ext_ok_any_sound.
Theorem C18_ext_ok_same_sound : forall p, ext_ok_same p = true -> forall t, In t ctxs ->
  forall n s e, In (s, e) (p_outs p) -> strongP t (eval (mkenv t t) (run (mkenv t t) p n) e) = true.
Proof. exact ext_ok_same_sound. Qed.
Print Assumptions C18_ext_ok_same_sound.

(* 'complex stays complex' for the programs extracted from the Python source: the exact-context variant of the tolerant check.  If it
   passes for the output positions `want`, each of these outputs has EXACTLY the data's dtype (not merely its precision class) after ANY
   number of executions of the loop body; the two certification levels of Corr.C18.CExtX; level 2 implies level 1 *)
Theorem C18_all_exact2_sound : forall en p want, In (tau en) ctxs -> all_exact2 en p want = true ->
  forall k o, In k want -> nth_error (p_outs p) k = Some o -> forall n, eval en (run en p n) (snd o) = tau en.
Proof. exact all_exact2_sound. Qed.
Print Assumptions C18_all_exact2_sound.
Theorem C18_ext_exact_any_sound : forall p want, ext_exact_any p want = true -> forall t m, In t ctxs -> In m mask_dts ->
  forall k o, In k want -> nth_error (p_outs p) k = Some o -> forall n, eval (mkenv t m) (run (mkenv t m) p n) (snd o) = t.
Proof. exact ext_exact_any_sound. Qed.
Print Assumptions C18_ext_exact_any_sound.
Theorem C18_ext_exact_same_sound : forall p want, ext_exact_same p want = true -> forall t, In t ctxs ->
  forall k o, In k want -> nth_error (p_outs p) k = Some o -> forall n, eval (mkenv t t) (run (mkenv t t) p n) (snd o) = t.
Proof. exact ext_exact_same_sound. Qed.
Print Assumptions C18_ext_exact_same_sound.
Theorem C18_ext_levels_ordered : forall p want, (ext_ok_any p = true -> ext_ok_same p = true) /\
  (ext_exact_any p want = true -> ext_exact_same p want = true).
Proof. intros p want. split; [apply ext_ok_any_implies_same | apply ext_exact_any_implies_same]. Qed.
Print Assumptions C18_ext_levels_ordered.
(* the shallow skeleton families (output = promotion of the input with in-context allocations; internals not transcribed) state exactly what a
   source-certified program returns: for every extracted program passing the exact check, each certified output has the dtype the shallow
   skeleton computes, for every context, mask dtype and sweep count.  Which entry points of the shallow families have such a program is
   evaluated on every run (evidence field shallow_families_source_certification). *)
Theorem C18_shallow_skeleton_matches_certified_program : forall p want, ext_exact_any p want = true ->
  forall c t m n k o s e, In t ctxs -> In m mask_dts -> In k want -> nth_error (p_outs p) k = Some o -> In (s, e) (p_outs (pure_prog c)) ->
  eval (mkenv t m) (run (mkenv t m) p n) (snd o) = eval (mkenv t m) (run (mkenv t m) (pure_prog c) n) e.
Proof. exact shallow_matches_certified_program. Qed.
Print Assumptions C18_shallow_skeleton_matches_certified_program.
Example C18_exact2_nonvacuous :
  let p1 := mkprog [(0, In_); (1, Op (Var 0) (Into (Var 0) bare)); (2, RealOf (Var 1))] [(1, Op (Var 1) PyF)] [("*", Var 1); ("*", Var 2)] in
  ext_exact_any p1 [0] = true /\ ext_exact_any p1 [0; 1] = false /\ ext_ok_any p1 = true /\
  nth_error (p_outs p1) 0 = Some ("*", Var 1) /\ In C64 ctxs /\ In I64 mask_dts.
Proof. repeat split; try (vm_compute; reflexivity); simpl; tauto. Qed.

(* ---- HISTORY INDEPENDENCE (call sequences; Model/DtypeHist.v).  A process makes a sequence of calls; a set G of PERSISTENT variables (module-level
   dict / list, function attribute, functools cache, cell of a long-lived closure, mutable default argument, class-level container) carries its
   value from the end of one call to the start of the next, every other variable starts as in a fresh process.  call_outs G h c = the output
   dtypes of the call c made after the history h; isolated_outs c = what the same call returns as the first call of a fresh process.
   Whatever the earlier calls were - other programs, other dtypes, whatever they wrote into the persistent variables - a call of a program that
   reads no persistent variable before overwriting it (hist_free: the value side of a cast into a context does not count as a read) returns
   exactly its isolated dtypes: the dtype of the n-th call's outputs depends only on that call's inputs *)
Theorem C18_history_independent : forall G h c, hist_free G (k_prog c) = true -> call_outs G h c = isolated_outs c.
Proof. exact history_independent. Qed.
Print Assumptions C18_history_independent.
(* programs WITHOUT persistent state - every program of the dtype language as the skeletons and the source translator use it - pass the check
   vacuously: every skeleton, every extracted program is history independent *)
Theorem C18_stateless_history_independent : forall h c, call_outs [] h c = isolated_outs c.
Proof. exact stateless_history_independent. Qed.
Print Assumptions C18_stateless_history_independent.
Corollary C18_skeletons_history_independent : forall h cf t m n,
  call_outs [] h (mkcall (mkenv t m) (skeleton cf) n) = out_dtypes (mkenv t m) (skeleton cf) n.
Proof. intros. apply stateless_history_independent. Qed.
Print Assumptions C18_skeletons_history_independent.
(* ... so the per-call guarantees hold for every call of every session: precision class and exact dtype of the extracted programs *)
Theorem C18_session_precision_preserved : forall G h c, hist_free G (k_prog c) = true -> In (tau (k_env c)) ctxs ->
  prog_ok2 (k_env c) (k_prog c) = true -> forall s d, In (s, d) (call_outs G h c) -> strongP (tau (k_env c)) d = true.
Proof. exact session_precision_preserved. Qed.
Print Assumptions C18_session_precision_preserved.
Theorem C18_session_exact_preserved : forall G h c want, hist_free G (k_prog c) = true -> In (tau (k_env c)) ctxs ->
  all_exact2 (k_env c) (k_prog c) want = true -> forall k o, In k want -> nth_error (p_outs (k_prog c)) k = Some o ->
  nth_error (call_outs G h c) k = Some (fst o, tau (k_env c)).
Proof. exact session_exact_preserved. Qed.
Print Assumptions C18_session_exact_preserved.
(* REFUTED for a program WITH a dtype-oblivious cache (the class of a seeded defect: smoothness_prox keeping its tridiagonal system matrix in a
   module-level dict keyed by (backend, rows, regulariser) - NOT the code, which rebuilds the matrix in the context of the data on every call,
   smooth_prog).  ONE float64 call anywhere in the history of the process is enough: every later float32 call returns float64, although the same
   call in a fresh process returns float32; induction over the history *)
Theorem C18_dtype_oblivious_cache_refuted : forall ts, (forall t, In t ts -> t = F32 \/ t = F64) -> In F64 ts ->
  call_outs [vK] (map (smooth_call cached_smooth_prog) ts) (smooth_call cached_smooth_prog F32) = [("out0", F64)] /\
  isolated_outs (smooth_call cached_smooth_prog F32) = [("out0", F32)].
Proof. exact cached_smooth_widens. Qed.
Print Assumptions C18_dtype_oblivious_cache_refuted.
(* with the dtype in the key the cached value reaches the result only through a cast into the context of the current data: harmless in every session *)
Theorem C18_dtype_keyed_cache_history_independent : forall h t n, call_outs [vK] h (mkcall (mkenv t t) keyed_smooth_prog n) = [("out0", t)].
Proof. exact keyed_smooth_history_independent. Qed.
Print Assumptions C18_dtype_keyed_cache_history_independent.
Example C18_history_nonvacuous :
  call_outs [vK] [smooth_call cached_smooth_prog F64] (smooth_call cached_smooth_prog F32) = [("out0", F64)] /\
  isolated_outs (smooth_call cached_smooth_prog F32) = [("out0", F32)] /\
  call_outs [vK] [smooth_call cached_smooth_prog C128] (smooth_call cached_smooth_prog C64) = [("out0", C128)] /\
  call_outs [vK] [smooth_call cached_smooth_prog F32] (smooth_call cached_smooth_prog F64) = [("out0", F64)] /\
  hist_free [vK] cached_smooth_prog = false /\ hist_free [] cached_smooth_prog = true /\
  hist_free [vK] smooth_prog = true /\ hist_free [vK] keyed_smooth_prog = true.
Proof. exact cached_smooth_refuted. Qed.

(* the option space: a configuration is valid iff its family is neither the documented float64 one (leverage scores) nor FMaskMul,
   the plain mask multipliers as they were BEFORE the repair ba7a532 (kept as a model variant; the code now is FMaskMulCast, listed); the
   skeleton of a family does not look at the options the family does not have (proved family by family with symbolic option
   values), so the complete enumeration inside Coq runs over the normalised configurations only *)
Theorem C18_valid_cfg_iff : forall c, valid_cfg c <-> (c_fam c <> FLeverage /\ c_fam c <> FMaskMul).
Proof. exact valid_cfg_iff. Qed.
Print Assumptions C18_valid_cfg_iff.
Theorem C18_skeleton_norm : forall c, skeleton c = skeleton (norm_cfg c).
Proof. exact skeleton_norm. Qed.
Print Assumptions C18_skeleton_norm.

(* all modelled entry points, all option sets (incl. the exception fallback of active_set_nnls, repaired by c906acd),
   EVERY mask dtype m (the masked entry points cast the mask since the repair 45ef7df), every number of sweeps:
   every floating output stays in the precision class of the data's dtype t *)
Theorem C18_skeletons_any_mask : forall t m c n s e,
  In t ctxs -> valid_cfg c -> In (s, e) (p_outs (skeleton c)) -> float_out (s, e) = true ->
  strongP t (eval (mkenv t m) (run (mkenv t m) (skeleton c) n) e) = true.
Proof. exact skeletons_any_mask. Qed.
Print Assumptions C18_skeletons_any_mask.

(* ... and equals t itself for real t (for complex t the real-valued outputs - norms, errors, singular values - are in
   the real type of the same precision, which is what strongP allows) *)
Theorem C18_skeletons_preserve_context_partial : forall t m c n s e,
  is_real t = true -> valid_cfg c -> In (s, e) (p_outs (skeleton c)) -> float_out (s, e) = true ->
  eval (mkenv t m) (run (mkenv t m) (skeleton c) n) e = t.
Proof. exact skeletons_preserve_context. Qed.
Print Assumptions C18_skeletons_preserve_context_partial.

(* "complex stays complex" (and single stays single, double stays double) as an EQUALITY: every output that is not real-valued
   by design - errors, normalisation weights, singular values, |weights| of cp_flip_sign, everything of the non-negative
   families, abs-valued random tensors - has exactly the dtype t of the data, for all four contexts (complex64 / complex128
   included), every family and option set, every mask dtype and every number of sweeps.  The table real_by_design is read on the
   normalised configuration (options a family does not have do not count). *)
Theorem C18_outputs_exact_context : forall t m c n s e,
  In t ctxs -> valid_cfg c -> In (s, e) (p_outs (skeleton c)) -> float_out (s, e) = true ->
  real_by_design (norm_cfg c) s = false ->
  eval (mkenv t m) (run (mkenv t m) (skeleton c) n) e = t.
Proof. exact outputs_exact_context. Qed.
Print Assumptions C18_outputs_exact_context.
Example C18_complex_factors_nonvacuous :
  valid_cfg (with_mask (cfg0 FParafac)) /\ In C64 ctxs /\ In ("factors", F_) (p_outs (skeleton (with_mask (cfg0 FParafac)))) /\
  float_out ("factors", F_) = true /\ real_by_design (norm_cfg (with_mask (cfg0 FParafac))) "factors" = false /\
  real_by_design (norm_cfg (cfg0 FNNParafac)) "factors" = true /\ real_by_design (norm_cfg (cfg0 FTucker)) "errors" = true /\
  out_of (mkenv C64 B) (with_mask (cfg0 FParafac)) 5 "factors" = Some C64 /\ out_of (mkenv C128 C128) (cfg0 FSvd) 0 "out1" = Some F64.
Proof. unfold valid_cfg. repeat split; try (vm_compute; reflexivity); vm_compute; tauto. Qed.

(* ---- the plain mask multipliers cp_to_tensor(mask=) / khatri_rao(mask=) (alt = false) and cp_lstsq_grad(mask=) (alt = true).
   HEADLINE (the code since the repair ba7a532, which casts the mask into the context of the factors; family FMaskMulCast, an instance
   of C18_outputs_exact_context): every output - reconstruction / Khatri-Rao product / gradient factors, the weights CPTensor adds, the
   loss - has EXACTLY the data's dtype for EVERY mask dtype, in all four contexts *)
Theorem C18_mask_multiplier_after_cast_any_mask : forall alt t m n s e, In t ctxs ->
  In (s, e) (p_outs (skeleton (maskmul_cast_cfg alt))) ->
  eval (mkenv t m) (run (mkenv t m) (skeleton (maskmul_cast_cfg alt)) n) e = t.
Proof. exact mask_mul_cast_any_mask. Qed.
Print Assumptions C18_mask_multiplier_after_cast_any_mask.
Theorem C18_mask_multiplier_unmasked : forall cast alt t m n s e, In t ctxs -> In (s, e) (p_outs (mask_mul_prog cast false alt)) ->
  eval (mkenv t m) (run (mkenv t m) (mask_mul_prog cast false alt) n) e = t.
Proof. exact mask_mul_unmasked. Qed.
Print Assumptions C18_mask_multiplier_unmasked.
(* ABOUT THE CODE BEFORE ba7a532 (mask used as passed in; mask_mul_prog false, family FMaskMul - kept so that a regression is compared
   with the right skeleton and reported with a failing input): every output was EXACTLY the NumPy promotion of the data's dtype with the
   mask's dtype, for the four contexts and the six strong mask dtypes ... *)
Theorem C18_mask_multiplier_before_ba7a532_is_promotion : forall alt t m n s e, In t ctxs -> In m mask_dts ->
  In (s, e) (p_outs (mask_mul_prog false true alt)) ->
  eval (mkenv t m) (run (mkenv t m) (mask_mul_prog false true alt) n) e = promote t m.
Proof. exact mask_mul_is_promotion. Qed.
Print Assumptions C18_mask_multiplier_before_ba7a532_is_promotion.
(* ... so an int64 mask widened float32 results to float64 and a float64 mask complex64 to complex128 (found by this check, repaired) ... *)
Example C18_mask_multiplier_int_mask_before_ba7a532_refuted : exists alt n s e, In (s, e) (p_outs (mask_mul_prog false true alt)) /\
  eval (mkenv F32 I64) (run (mkenv F32 I64) (mask_mul_prog false true alt) n) e = F64.
Proof. exact mask_mul_int_mask_refuted. Qed.
Example C18_mask_multiplier_f64_mask_before_ba7a532_refuted : exists alt n s e, In (s, e) (p_outs (mask_mul_prog false true alt)) /\
  eval (mkenv C64 F64) (run (mkenv C64 F64) (mask_mul_prog false true alt) n) e = C128.
Proof. exact mask_mul_f64_mask_refuted. Qed.
(* ... while the context was kept exactly for every mask dtype the context absorbs - bool (the documented mask type) and the data's own
   precision class always; in double precision every real mask; in complex128 every mask *)
Theorem C18_mask_multiplier_before_ba7a532_partial : forall alt t m n s e, In t ctxs -> In m mask_dts -> mask_absorbed t m = true ->
  In (s, e) (p_outs (mask_mul_prog false true alt)) ->
  eval (mkenv t m) (run (mkenv t m) (mask_mul_prog false true alt) n) e = t.
Proof. exact mask_mul_partial. Qed.
Print Assumptions C18_mask_multiplier_before_ba7a532_partial.
Theorem C18_mask_absorbed_spec : forall t m, In t ctxs -> In m mask_dts ->
  mask_absorbed t m = (dt_eqb m B || dt_eqb m t || dt_eqb m (real_of t)
                       || (dt_eqb t F64 && negb (dt_eqb m C64) && negb (dt_eqb m C128)) || dt_eqb t C128).
Proof. exact mask_absorbed_spec. Qed.
Print Assumptions C18_mask_absorbed_spec.
Example C18_mask_multiplier_nonvacuous :
  In F32 ctxs /\ In B mask_dts /\ mask_absorbed F32 B = true /\ mask_absorbed F32 I64 = false /\ mask_absorbed F32 F64 = false /\
  mask_absorbed C64 F32 = true /\ mask_absorbed F64 I64 = true /\
  In ("out0", Op (Op (Op F_ W_) F_) M_) (p_outs (mask_mul_prog false true false)) /\
  In ("out0", Op (Op (Op F_ W_) F_) M_) (p_outs (skeleton (maskmul_cast_cfg false))) /\
  out_dtypes (mkenv F32 B) (mask_mul_prog false true true) 4 = [("factors", F32); ("weights", F32); ("out1", F32)] /\
  out_dtypes (mkenv F32 I64) (mask_mul_prog true true true) 4 = [("factors", F32); ("weights", F32); ("out1", F32)] /\
  out_dtypes (mkenv F32 I64) (mask_mul_prog false true true) 4 = [("factors", F64); ("weights", F64); ("out1", F64)].
Proof. repeat split; try (vm_compute; reflexivity); simpl; tauto. Qed.

(* tensor_ring_als_sampled (transcribed): the documented float64 leverage-score distributions (and the float64 scalar of the uniform-sampling
   branch) meet the data only through IN-PLACE updates of the rescaling vector, so the cores keep exactly the data's dtype, in all four
   contexts, both sampling modes, any number of sweeps ... *)
Theorem C18_tr_als_sampled_keeps_context : forall uniform t m n s e, In t ctxs ->
  In (s, e) (p_outs (skeleton (tr_sampled_cfg uniform))) ->
  eval (mkenv t m) (run (mkenv t m) (skeleton (tr_sampled_cfg uniform)) n) e = t.
Proof. exact tr_als_sampled_inplace. Qed.
Print Assumptions C18_tr_als_sampled_keeps_context.
(* ... and the in-place form is what does it (counterfactual, NOT the code): the same statements written as rebindings return float64 cores
   for float32 data after every positive number of sweeps *)
Theorem C18_tr_als_sampled_rebinding_would_widen : forall uniform n, 0 < n ->
  out_of_prog (mkenv F32 F32) (tr_als_sampled_prog_gen false (tr_sampled_cfg uniform)) n "*" = Some F64.
Proof. exact tr_als_sampled_rebinding_widens. Qed.
Print Assumptions C18_tr_als_sampled_rebinding_would_widen.

(* robust_pca casts the mask into the data's context: clean for every mask dtype (in both variants) *)
Theorem C18_robust_pca_any_mask : forall mc t m n s e, In t ctxs -> In (s, e) (p_outs (skeleton_v mc (with_mask (cfg0 FRobustPca)))) ->
  strongP t (eval (mkenv t m) (run (mkenv t m) (skeleton_v mc (with_mask (cfg0 FRobustPca))) n) e) = true.
Proof. exact robust_pca_any_mask. Qed.
Print Assumptions C18_robust_pca_any_mask.

(* refutations about OLD code: WITHOUT the cast (mc = false, the code before the repair 45ef7df) a boolean / integer mask turns float32
   data into float64 results - why the cast is necessary *)
Theorem C18_parafac_bool_mask_before_45ef7df_refuted : exists n, out_of_v false (mkenv F32 B) (with_mask (cfg0 FParafac)) n "factors" = Some F64.
Proof. exact parafac_bool_mask_before_45ef7df_refuted. Qed.
Print Assumptions C18_parafac_bool_mask_before_45ef7df_refuted.
Theorem C18_parafac_int_mask_before_45ef7df_refuted : exists n, out_of_v false (mkenv F32 I64) (with_mask (cfg0 FParafac)) n "factors" = Some F64.
Proof. exact parafac_int_mask_before_45ef7df_refuted. Qed.
Print Assumptions C18_parafac_int_mask_before_45ef7df_refuted.
Theorem C18_tucker_bool_mask_before_45ef7df_refuted : exists n, out_of_v false (mkenv F32 B) (with_mask (cfg0 FTucker)) n "core" = Some F64.
Proof. exact tucker_bool_mask_before_45ef7df_refuted. Qed.
Print Assumptions C18_tucker_bool_mask_before_45ef7df_refuted.
Theorem C18_nn_parafac_bool_mask_before_45ef7df_refuted : exists n, out_of_v false (mkenv F32 B) (with_mask (cfg0 FNNParafac)) n "factors" = Some F64.
Proof. exact nn_parafac_bool_mask_before_45ef7df_refuted. Qed.
Print Assumptions C18_nn_parafac_bool_mask_before_45ef7df_refuted.
Theorem C18_svd_bool_mask_before_45ef7df_refuted : exists n, out_of_v false (mkenv F32 B) (with_mask (cfg0 FSvd)) n "out0" = Some F64.
Proof. exact svd_bool_mask_before_45ef7df_refuted. Qed.
Print Assumptions C18_svd_bool_mask_before_45ef7df_refuted.
(* the exception fallback of active_set_nnls: float64 before the repair c906acd (context-less restart vector), float32 now *)
Theorem C18_active_set_fallback_before_fix_refuted :
  exists n, out_of_prog (mkenv F32 F32) (active_set_prog_before_c906acd active_fallback) n "out0" = Some F64.
Proof. exact active_set_fallback_before_fix_refuted. Qed.
Print Assumptions C18_active_set_fallback_before_fix_refuted.
Theorem C18_active_set_fallback_now : forall n, out_of (mkenv F32 F32) active_fallback n "out0" = Some F32.
Proof. exact active_set_fallback_now. Qed.
Print Assumptions C18_active_set_fallback_now.

(* non-vacuity: the hypotheses are satisfiable and the model computes *)
Example C18_nonvacuous_cfg : valid_cfg (with_mask (cfg0 FParafac)) /\ In F32 ctxs /\
  out_of (mkenv F32 F32) (with_mask (cfg0 FParafac)) 7 "factors" = Some F32 /\
  out_of (mkenv C128 C128) (cfg0 FParafac) 3 "weights" = Some C128 /\
  prog_guarded (skeleton_v true (with_mask (cfg0 FTucker))) = true /\ prog_guarded (skeleton_v false (with_mask (cfg0 FTucker))) = false /\
  out_of (mkenv F32 B) (with_mask (cfg0 FParafac)) 2 "factors" = Some F32 /\
  out_of (mkenv C64 I64) (with_mask (cfg0 FTucker)) 3 "core" = Some C64.
Proof. unfold valid_cfg. repeat split; try (vm_compute; reflexivity); simpl; tauto. Qed.
Example C18_nonvacuous_expr :
  leaves_in (mkenv F32 F32) st0 F32 (Op (Div In_ (Op PyI PyF)) (Into In_ bare)) = true /\
  has_strong (mkenv F32 F32) st0 F32 (Op (Div In_ (Op PyI PyF)) (Into In_ bare)) = true.
Proof. split; reflexivity. Qed.
Example C18_f64_leaf_breaks_f32 : eval (mkenv F32 F32) st0 (Op In_ bare) = F64. Proof. reflexivity. Qed.
Example C18_numpy_f64_scalar_breaks_f32 : eval (mkenv F32 F32) st0 (Op In_ (Op (Leaf (LConst F64)) PyF)) = F64. Proof. reflexivity. Qed.
Example C18_bool_leaf_breaks_f32 : eval (mkenv F32 B) st0 (Op In_ (Op PyF Mask)) = F64. Proof. reflexivity. Qed.
Example C18_int_leaf_breaks_f32 : eval (mkenv F32 I64) st0 (Op In_ Mask) = F64. Proof. reflexivity. Qed.

(* ---- estimator INSTANCES (round 8).  The fitted attributes of ONE estimator object are the persistent variables of the session "the same object fitted
   again and again" (fitted = [self.decomposition_; self.errors_]).  What every wrapper class of the library does - compute from the data of this call,
   store, read back (refit_prog) - passes hist_free, so C18_history_independent applies: after ANY history of calls on the same object the fit returns
   exactly the data's dtype.  harness/props/C18_hist.py checks on every run that every fit method of every estimator class of the library has this
   shape (must-define analysis: no fitted attribute is read before this call has overwritten it) and a refit row executes each class twice. *)
Theorem C18_refit_history_independent : forall h t n, In t ctxs -> call_outs fitted h (mkcall (mkenv t t) refit_prog n) = [("out0", t)].
Proof. exact refit_history_independent. Qed.
Print Assumptions C18_refit_history_independent.
(* REFUTED for a fit with a warm start from the previous decomposition (a model variant, NOT the code; the mutation class the static analysis and the
   refit rows are shown to catch): ONE double-precision fit anywhere in the life of the object and every later single-precision fit of the same object
   returns float64, although the same fit of a fresh object returns float32; induction over the history of fits *)
Theorem C18_refit_warm_start_refuted : forall ts, (forall t, In t ts -> t = F32 \/ t = F64) -> In F64 ts ->
  call_outs fitted (map (fit_call warm_refit_prog) ts) (fit_call warm_refit_prog F32) = [("out0", F64)] /\
  isolated_outs (fit_call warm_refit_prog F32) = [("out0", F32)].
Proof. exact warm_refit_widens. Qed.
Print Assumptions C18_refit_warm_start_refuted.
(* ... and harmless when the remembered value reaches the new fit only through a cast into the context of the current data *)
Theorem C18_refit_cast_warm_start_history_independent : forall h t n, In t ctxs ->
  call_outs fitted h (mkcall (mkenv t t) cast_warm_refit_prog n) = [("out0", t)].
Proof. exact cast_warm_refit_history_independent. Qed.
Print Assumptions C18_refit_cast_warm_start_history_independent.
Example C18_refit_nonvacuous :
  hist_free fitted refit_prog = true /\ hist_free fitted warm_refit_prog = false /\ hist_free fitted cast_warm_refit_prog = true /\
  call_outs fitted [fit_call warm_refit_prog F64] (fit_call warm_refit_prog F32) = [("out0", F64)] /\
  isolated_outs (fit_call warm_refit_prog F32) = [("out0", F32)] /\
  call_outs fitted [fit_call warm_refit_prog C128] (fit_call warm_refit_prog C64) = [("out0", C128)] /\
  call_outs fitted [fit_call refit_prog F64] (fit_call refit_prog F32) = [("out0", F32)].
Proof. exact refit_examples. Qed.
