(* C19 -- property theorems only.  Statements are about Model/Regress.v (predict, stored attributes, fit loops, CP_PLSR) and
   Model/RegressObj.v (n_iterations_ / norm_W_, the estimator objects under call sequences, CP_PLSR entry points).  The predict identities hold
   for every carrier F and every record of operations Op (they are pure index bookkeeping: no algebraic
   law is used, so they hold verbatim for Z, Q, R and for IEEE floats with a fixed summation order);
   the centring lemmas hold for every Op satisfying ring_theory. *)
From Coq Require Import List Arith ZArith Ring Permutation Reals Lia.
From TLV Require Import Base.Shape Base.PyList Base.Tensor Base.Ops Model.Base Model.Regress Proofs.RegressProofs Proofs.RegressProofsPlsr Proofs.RegressProofsR Proofs.RegressProofsLink Proofs.RegressProofsBlock Model.RegressObj Proofs.RegressProofsObj Proofs.RegressProofsObjR Model.RegressObj2 Proofs.RegressProofsR7 Proofs.RegressProofsScore Proofs.RegressProofsDegen.
From TLV Require Model.Factorized Proofs.FactorizedProofs5 Model.Metrics.
Import ListNotations.


(* CPRegressor.predict: every per-sample order (sx <> []), every output shape so (incl. scalar targets, so = []) *)
Theorem C19_predict_cp_contraction : forall (F : Type) (Op : fops F),
  forall (W X : tensor F) (n : nat) (sx so : list nat),
  wf X -> wf W -> shape X = n :: sx -> sx <> [] -> shape W = sx ++ so -> 0 < n -> 0 < prod so ->
  exists P, predict_cp Op W X = Ok P /\ shape P = n :: so /\ wf P /\
    forall i o, i < n -> inb so o ->
      tget Op P (i :: o) = fsum_idx Op sx (fun J => fmul Op (tget Op X (i :: J)) (tget Op W (J ++ o))).
Proof. exact @predict_cp_contraction. Qed.
Print Assumptions C19_predict_cp_contraction.

(* TuckerRegressor.predict with the stored vec_W_ = tensor_to_vec(weight_tensor_) *)
Theorem C19_predict_tucker_contraction : forall (F : Type) (Op : fops F),
  forall (W vecW X : tensor F) (n : nat) (sx : list nat),
  wf X -> wf W -> shape X = n :: sx -> sx <> [] -> shape W = sx -> 0 < n ->
  tensor_to_vec W = Ok vecW ->
  exists P, predict_tucker Op vecW X = Ok P /\ shape P = [n] /\ wf P /\
    forall i, i < n -> tget Op P [i] = fsum_idx Op sx (fun J => fmul Op (tget Op X (i :: J)) (tget Op W J)).
Proof. exact @predict_tucker_contraction. Qed.
Print Assumptions C19_predict_tucker_contraction.

(* vec_W_ is the vectorisation of weight_tensor_ -- DEFINITIONAL: cp_fit_tail / tucker_fit_tail are defined that way (the statements
   hold by reflexivity); their content is "the model stores it this way", the tie to cp_to_vec / tucker_to_vec of the source is the
   correspondence (KFitCP / KFitTK) *)
Theorem C19_cp_stored_vec_definitional : forall (F : Type) (Op : fops F) (w : tensor F) (fs : list (tensor F)),
  vec_W_ (cp_fit_tail Op w fs) = tensor_to_vec (weight_tensor_ (cp_fit_tail Op w fs)).
Proof. exact @cp_stored_vec. Qed.
Print Assumptions C19_cp_stored_vec_definitional.
Theorem C19_tucker_stored_vec_definitional : forall (F : Type) (Op : fops F) (G : tensor F) (fs : list (tensor F)),
  vec_W_ (tucker_fit_tail Op G fs) = tensor_to_vec (weight_tensor_ (tucker_fit_tail Op G fs)).
Proof. exact @tucker_stored_vec. Qed.
Print Assumptions C19_tucker_stored_vec_definitional.

(* fitted regressors predict with the reconstruction of the factors they expose *)
Theorem C19_cp_regressor_predict_factors : forall (F : Type) (Op : fops F),
  forall (w : tensor F) (fs : list (tensor F)) (X : tensor F) (n : nat) (sx so : list nat),
  wf X -> shape X = n :: sx -> sx <> [] -> factor_rows fs = sx ++ so -> 0 < n -> 0 < prod so ->
  exists P, cp_regressor_predict Op w fs X = Ok P /\ shape P = n :: so /\
    forall i o, i < n -> inb so o ->
      tget Op P (i :: o) = fsum_idx Op sx (fun J => fmul Op (tget Op X (i :: J))
                          (fsumn Op (nth 0 (shape w) 0) (fun r => fmul Op (tget Op w [r]) (cp_coeff Op fs (J ++ o) r)))).
Proof. exact @cp_regressor_predict_factors. Qed.
Print Assumptions C19_cp_regressor_predict_factors.

Theorem C19_tucker_regressor_predict_factors : forall (F : Type) (Op : fops F),
  forall (G : tensor F) (fs : list (tensor F)) (X : tensor F) (n : nat) (sx : list nat),
  wf X -> shape X = n :: sx -> sx <> [] -> factor_rows fs = sx -> 0 < n ->
  exists P, tucker_regressor_predict Op G fs X = Ok P /\ shape P = [n] /\
    forall i, i < n ->
      tget Op P [i] = fsum_idx Op sx (fun J => fmul Op (tget Op X (i :: J))
                          (fsum_idx Op (shape G) (fun K => fmul Op (tget Op G K) (tk_coeff Op fs J K)))).
Proof. exact @tucker_regressor_predict_factors. Qed.
Print Assumptions C19_tucker_regressor_predict_factors.

(* CP_PLSR: transforming the training data returns the fitted scores, whatever the inner power
   iteration and lstsq return *)
Theorem C19_plsr_fit_transform_train : forall (F : Type) (Op : fops F)
  (inner : tensor F -> tensor F -> list (tensor F) * tensor F) (lstsq : list (list F) -> list F -> list F)
  (ncomp : nat) (X Y : tensor F),
  fit_transform_X Op (fit Op inner lstsq ncomp X Y) X =
  cols_to_matrix Op (nsamp X) (fitted_scores (fit Op inner lstsq ncomp X Y)).
Proof. exact @fit_transform_train. Qed.
Print Assumptions C19_plsr_fit_transform_train.

(* ... and transform(X_train, Y_train) returns the fitted Y scores as its second component (commutative ring; the
   only contract on the least-squares solver: it returns at most one coefficient per column) *)
Theorem C19_plsr_fit_transform_Y_train : forall (F : Type) (Op : fops F), is_ring Op ->
  forall (inner : tensor F -> tensor F -> list (tensor F) * tensor F) (lstsq : list (list F) -> list F -> list F),
  (forall Tc u, length (lstsq Tc u) <= length Tc) ->
  forall (ncomp : nat) (X Y : tensor F),
  fit_transform_Y Op (fit Op inner lstsq ncomp X Y) X Y = map (c_yscore (F:=F)) (comps (fit Op inner lstsq ncomp X Y)).
Proof. exact @fit_transform_Y_train. Qed.
Print Assumptions C19_plsr_fit_transform_Y_train.

(* mean-centring lemma (ring part) and permutation equivariance of centring *)
Theorem C19_center_shift : forall (F : Type) (Op : fops F), is_ring Op ->
  forall (X m c : tensor F), shape m = sshape X ->
  center Op (shift Op X c) (tadd Op m c) = center Op X m.
Proof. exact @center_shift. Qed.
Print Assumptions C19_center_shift.

Theorem C19_center_perm : forall (F : Type) (Op : fops F), is_ring Op ->
  forall (p : list nat) (X : tensor F) (n : nat) (sx : list nat),
  shape X = n :: sx -> Permutation p (seq 0 n) ->
  center Op (perm_samples Op p X) (mean0 Op (perm_samples Op p X)) = perm_samples Op p (center Op X (mean0 Op X)).
Proof. exact @center_perm. Qed.
Print Assumptions C19_center_perm.

(* transform (hence predict) acts sample by sample: re-ordering / re-sampling the rows of X re-orders the scores *)
Theorem C19_plsr_transform_perm : forall (F : Type) (Op : fops F)
  (p : list nat) (xmean : tensor F) (loads : list (list (tensor F))) (X : tensor F) (n : nat) (sx : list nat) (i c : nat),
  shape X = n :: sx -> rows_ok n p -> i < n -> c < length loads ->
  tget Op (transform Op xmean loads (perm_samples Op p X)) [i; c] = tget Op (transform Op xmean loads X) [nth i p 0; c].
Proof. exact @transform_perm. Qed.
Print Assumptions C19_plsr_transform_perm.

(* the mean over the samples does not depend on their order *)
Theorem C19_mean_perm : forall (F : Type) (Op : fops F), is_ring Op ->
  forall (p : list nat) (X : tensor F) (n : nat) (sx : list nat),
  shape X = n :: sx -> Permutation p (seq 0 n) -> mean0 Op (perm_samples Op p X) = mean0 Op X.
Proof. exact @mean0_perm. Qed.
Print Assumptions C19_mean_perm.

(* predictions of shifted data with shifted means = predictions + offset (ring part) *)
Theorem C19_plsr_predict_shift : forall (F : Type) (Op : fops F), is_ring Op ->
  forall (xm ym : tensor F) (loads : list (list (tensor F))) (coef yl X c d : tensor F) (m i o : nat),
  shape xm = sshape X -> shape ym = [m] -> nth 0 (shape yl) 0 = m -> i < nsamp X -> o < m ->
  tget Op (plsr_predict Op (tadd Op xm c) (tadd Op ym d) loads coef yl (shift Op X c)) [i; o] =
  fadd Op (tget Op (plsr_predict Op xm ym loads coef yl X) [i; o]) (tget Op d [o]).
Proof. exact @plsr_predict_shift. Qed.
Print Assumptions C19_plsr_predict_shift.

(* over R: the mean of shifted data is the shifted mean, hence fit on shifted data is the same term *)
Theorem C19_mean_shift : forall (X c : tensor R) (n : nat) (sx : list nat), shape X = n :: sx -> 0 < n ->
  mean0 Rops (shift Rops X c) = tadd Rops (mean0 Rops X) c.
Proof. exact mean0_shift. Qed.
Print Assumptions C19_mean_shift.

Theorem C19_plsr_shift_invariance : forall
  (inner : tensor R -> tensor R -> list (tensor R) * tensor R) (lstsq : list (list R) -> list R -> list R)
  (ncomp : nat) (X Y c d : tensor R) (n : nat) (sx : list nat) (m : nat),
  shape X = n :: sx -> shape Y = [n; m] -> 0 < n ->
  let p := fit Rops inner lstsq ncomp X Y in
  let p' := fit Rops inner lstsq ncomp (shift Rops X c) (shift Rops Y d) in
  comps p' = comps p /\ loadings p' = loadings p /\ fitted_scores p' = fitted_scores p /\
  forall Xn i o, sshape Xn = sx -> i < nsamp Xn -> o < m ->
    tget Rops (fit_predict Rops p' (shift Rops Xn c)) [i; o] = (tget Rops (fit_predict Rops p Xn) [i; o] + tget Rops d [o])%R.
Proof. exact plsr_shift_invariance. Qed.
Print Assumptions C19_plsr_shift_invariance.

(* ---- CP_PLSR.fit with the inner power iteration modelled (cp_plsr_fit = fit_cp guarded by the budget test of the source): sqrt, the SVD initialisation (a function of Z),
   the least-squares solver (a function of the normal-equation data) and the tolerance are arbitrary ---- *)

(* fit raises exactly on the budget n_iter_max = 0 with at least one component (as the source: comp_Y_factors_1 unbound) *)
Theorem C19_cp_plsr_fit_defined : forall (F : Type) (Op : fops F) (sqrtF : F -> F)
  (init : tensor F -> list (tensor F)) (ne_solve : list (list F) -> list F -> list F) (tol : F) (n_iter ncomp : nat) (X Y : tensor F),
  cp_plsr_fit Op sqrtF init ne_solve tol n_iter ncomp X Y = Err <-> (n_iter = 0 /\ 0 < ncomp).
Proof. exact @cp_plsr_fit_defined. Qed.
Print Assumptions C19_cp_plsr_fit_defined.

(* every non-sample loading vector and every Y loading vector is the result of a normalisation v / norm(v) -- STRUCTURAL: immediate
   from the model writing normalize(..) into every slot (induction over the mode sweep, the passes and the components); its use is
   as the lemma behind C19_plsr_unit_norm *)
Theorem C19_plsr_loadings_normalized : forall (F : Type) (Op : fops F) (sqrtF : F -> F)
  (init : tensor F -> list (tensor F)) (ne_solve : list (list F) -> list F -> list F) (tol : F)
  (n_iter ncomp : nat) (X Y : tensor F) (r : plsr) (c : comp),
  cp_plsr_fit Op sqrtF init ne_solve tol n_iter ncomp X Y = Ok r -> In c (comps r) ->
  Forall (is_normalized Op sqrtF) (c_load c) /\ is_normalized Op sqrtF (c_yload c).
Proof. exact @plsr_fit_loadings_normalized. Qed.
Print Assumptions C19_plsr_loadings_normalized.

(* over R: a normalised non-zero vector has unit norm; hence, without any hypothesis on the output, every loading has squared norm 1
   or 0, the latter only as the (degenerate) normalisation of the zero vector, where the implementation produces NaN *)
Theorem C19_normalize_unit : forall v : tensor R, (0 < sumsq Rops v)%R -> sumsq Rops (normalize Rops sqrt v) = 1%R.
Proof. exact normalize_unit_pos. Qed.
Print Assumptions C19_normalize_unit.

Theorem C19_plsr_unit_norm : forall (init : tensor R -> list (tensor R)) (ne_solve : list (list R) -> list R -> list R)
  (tol : R) (n_iter ncomp : nat) (X Y : tensor R) (r : plsr) (c : comp),
  cp_plsr_fit Rops sqrt init ne_solve tol n_iter ncomp X Y = Ok r -> In c (comps r) ->
  (forall l : tensor R, In l (c_load c) -> sumsq Rops l = 1%R \/ sumsq Rops l = 0%R) /\
  (sumsq Rops (c_yload c) = 1%R \/ sumsq Rops (c_yload c) = 0%R).
Proof. exact plsr_fit_unit_norm. Qed.
Print Assumptions C19_plsr_unit_norm.

(* adding a constant tensor to every sample of X and a constant vector to every row of Y: same loadings, scores,
   coefficients; predictions of shifted new data = predictions + offset (instance of C19_plsr_shift_invariance) *)
Corollary C19_plsr_cp_shift_invariance : forall (init : tensor R -> list (tensor R)) (ne_solve : list (list R) -> list R -> list R)
  (tol : R) (n_iter ncomp : nat) (X Y c d : tensor R) (n : nat) (sx : list nat) (m : nat) (r : plsr),
  shape X = n :: sx -> shape Y = [n; m] -> 0 < n ->
  cp_plsr_fit Rops sqrt init ne_solve tol n_iter ncomp X Y = Ok r ->
  exists r', cp_plsr_fit Rops sqrt init ne_solve tol n_iter ncomp (shift Rops X c) (shift Rops Y d) = Ok r' /\
  comps r' = comps r /\ loadings r' = loadings r /\ fitted_scores r' = fitted_scores r /\
  forall Xn i o, sshape Xn = sx -> i < nsamp Xn -> o < m ->
    tget Rops (fit_predict Rops r' (shift Rops Xn c)) [i; o] = (tget Rops (fit_predict Rops r Xn) [i; o] + tget Rops d [o])%R.
Proof. exact plsr_fit_shift_invariance. Qed.
Print Assumptions C19_plsr_cp_shift_invariance.

(* re-ordering the samples of X and Y consistently: means, loadings (X and Y side), coefficients and predictions
   are unchanged, X and Y scores are re-ordered in the same way -- for the whole fit, every number of passes and
   components, every sample order *)
Theorem C19_plsr_perm_equivariance : forall (F : Type) (Op : fops F), is_ring Op ->
  forall (sqrtF : F -> F) (init : tensor F -> list (tensor F)) (ne_solve : list (list F) -> list F -> list F) (tol : F)
    (p : list nat) (n : nat), Permutation p (seq 0 n) ->
  forall (n_iter ncomp : nat) (X Y : tensor F) (sx : list nat) (m : nat) (r : plsr),
  shape X = n :: sx -> shape Y = [n; m] -> 0 < m ->
  cp_plsr_fit Op sqrtF init ne_solve tol n_iter ncomp X Y = Ok r ->
  exists r', cp_plsr_fit Op sqrtF init ne_solve tol n_iter ncomp (perm_samples Op p X) (perm_samples Op p Y) = Ok r' /\
  X_mean_ r' = X_mean_ r /\ Y_mean_ r' = Y_mean_ r /\
  loadings r' = loadings r /\
  map (c_yload (F:=F)) (comps r') = map (c_yload (F:=F)) (comps r) /\
  map (c_B (F:=F)) (comps r') = map (c_B (F:=F)) (comps r) /\
  fitted_scores r' = map (pick Op n p) (fitted_scores r) /\
  map (c_yscore (F:=F)) (comps r') = map (pick Op n p) (map (c_yscore (F:=F)) (comps r)) /\
  (forall Xn : tensor F, fit_predict Op r' Xn = fit_predict Op r Xn).
Proof. exact @plsr_fit_perm_equivariance. Qed.
Print Assumptions C19_plsr_perm_equivariance.

(* ---- the iteration of CPRegressor.fit / TuckerRegressor.fit around the block updates (arbitrary `sweep`, norm and
   stopping test): whatever the number of passes and wherever the loop stops, the stored weight_tensor_ is the
   reconstruction of the exposed blocks and vec_W_ its vectorisation; fit is defined iff n_iter_max > 0 ---- *)
Theorem C19_reg_fit_consistent : forall (F P : Type) (sweep : P -> P) (rebuild : P -> tensor F)
  (nrm : tensor F -> F) (small : F -> F -> bool) (n_iter : nat) (w0 : P) (st : reg_stored),
  reg_fit sweep rebuild nrm small n_iter w0 = Ok st ->
  r_weight_tensor st = rebuild (r_blocks st) /\ r_vec st = tensor_to_vec (r_weight_tensor st).
Proof. exact @reg_fit_consistent. Qed.
Print Assumptions C19_reg_fit_consistent.

Theorem C19_reg_fit_defined : forall (F P : Type) (sweep : P -> P) (rebuild : P -> tensor F)
  (nrm : tensor F -> F) (small : F -> F -> bool) (n_iter : nat) (w0 : P),
  0 < n_iter -> exists st : reg_stored, reg_fit sweep rebuild nrm small n_iter w0 = Ok st.
Proof. exact @reg_fit_defined. Qed.
Print Assumptions C19_reg_fit_defined.

(* fit (any number of passes) followed by predict = contraction with the reconstruction of the exposed factors *)
Theorem C19_cp_fit_predict : forall (F : Type) (Op : fops F)
  (sweep : tensor F * list (tensor F) -> tensor F * list (tensor F)) (nrm : tensor F -> F) (small : F -> F -> bool)
  (n_iter : nat) (w0 : tensor F * list (tensor F)) (st : reg_stored) (X : tensor F) (n : nat) (sx so : list nat),
  reg_fit sweep (cp_rebuild Op) nrm small n_iter w0 = Ok st ->
  wf X -> shape X = n :: sx -> sx <> [] -> factor_rows (snd (r_blocks st)) = sx ++ so -> 0 < n -> 0 < prod so ->
  exists P, predict_cp Op (r_weight_tensor st) X = Ok P /\ shape P = n :: so /\
    forall i o, i < n -> inb so o ->
      tget Op P (i :: o) = fsum_idx Op sx (fun J => fmul Op (tget Op X (i :: J))
        (fsumn Op (nth 0 (shape (fst (r_blocks st))) 0)
               (fun r => fmul Op (tget Op (fst (r_blocks st)) [r]) (cp_coeff Op (snd (r_blocks st)) (J ++ o) r)))).
Proof. exact @cp_fit_predict. Qed.
Print Assumptions C19_cp_fit_predict.

Theorem C19_tucker_fit_predict : forall (F : Type) (Op : fops F)
  (sweep : tensor F * list (tensor F) -> tensor F * list (tensor F)) (nrm : tensor F -> F) (small : F -> F -> bool)
  (n_iter : nat) (w0 : tensor F * list (tensor F)) (st : reg_stored) (X : tensor F) (n : nat) (sx : list nat),
  reg_fit sweep (tucker_rebuild Op) nrm small n_iter w0 = Ok st ->
  wf X -> shape X = n :: sx -> sx <> [] -> factor_rows (snd (r_blocks st)) = sx -> 0 < n ->
  exists P, rbind (r_vec st) (fun v => predict_tucker Op v X) = Ok P /\ shape P = [n] /\
    forall i, i < n ->
      tget Op P [i] = fsum_idx Op sx (fun J => fmul Op (tget Op X (i :: J))
        (fsum_idx Op (shape (fst (r_blocks st))) (fun K => fmul Op (tget Op (fst (r_blocks st)) K) (tk_coeff Op (snd (r_blocks st)) J K)))).
Proof. exact @tucker_fit_predict. Qed.
Print Assumptions C19_tucker_fit_predict.

(* the same with the ridge block updates of CPRegressor.fit modelled concretely (cp_sweep: design matrices phi, phi'phi + reg I,
   phi'y, T.solve a black box), instance of C19_cp_fit_predict *)
Corollary C19_cp_concrete_fit_predict : forall (F : Type) (Op : fops F)
  (solve : nat -> tensor F -> tensor F -> tensor F) (reg : F) (Xtr ytr : tensor F) (so : list nat) (R : nat)
  (nrm : tensor F -> F) (small : F -> F -> bool) (n_iter : nat) (w0 : tensor F * list (tensor F)) (st : reg_stored)
  (X : tensor F) (n : nat) (sx so' : list nat),
  reg_fit (cp_concrete_sweep Op solve reg Xtr ytr so R) (cp_rebuild Op) nrm small n_iter w0 = Ok st ->
  wf X -> shape X = n :: sx -> sx <> [] -> factor_rows (snd (r_blocks st)) = sx ++ so' -> 0 < n -> 0 < prod so' ->
  exists P, predict_cp Op (r_weight_tensor st) X = Ok P /\ shape P = n :: so' /\
    forall i o, i < n -> inb so' o ->
      tget Op P (i :: o) = fsum_idx Op sx (fun J => fmul Op (tget Op X (i :: J))
        (fsumn Op (nth 0 (shape (fst (r_blocks st))) 0)
               (fun r => fmul Op (tget Op (fst (r_blocks st)) [r]) (cp_coeff Op (snd (r_blocks st)) (J ++ o) r)))).
Proof. exact @cp_concrete_fit_predict. Qed.
Print Assumptions C19_cp_concrete_fit_predict.

Corollary C19_tucker_concrete_fit_predict : forall (F : Type) (Op : fops F)
  (solve : nat -> tensor F -> tensor F -> tensor F) (reg : F) (Xtr ytr : tensor F)
  (nrm : tensor F -> F) (small : F -> F -> bool) (n_iter : nat) (w0 : tensor F * list (tensor F)) (st : reg_stored)
  (X : tensor F) (n : nat) (sx : list nat),
  reg_fit (tk_concrete_sweep Op solve reg Xtr ytr) (tucker_rebuild Op) nrm small n_iter w0 = Ok st ->
  wf X -> shape X = n :: sx -> sx <> [] -> factor_rows (snd (r_blocks st)) = sx -> 0 < n ->
  exists P, rbind (r_vec st) (fun v => predict_tucker Op v X) = Ok P /\ shape P = [n] /\
    forall i, i < n ->
      tget Op P [i] = fsum_idx Op sx (fun J => fmul Op (tget Op X (i :: J))
        (fsum_idx Op (shape (fst (r_blocks st))) (fun K => fmul Op (tget Op (fst (r_blocks st)) K) (tk_coeff Op (snd (r_blocks st)) J K)))).
Proof. exact @tucker_concrete_fit_predict. Qed.
Print Assumptions C19_tucker_concrete_fit_predict.

(* the design matrices of the concrete ridge blocks are the matrices of  W_i |-> predictions : row (s, o) of phi applied to
   vec(W_i) is the contraction of sample s with the CP reconstruction (unit weights) of the current factors at output index o,
   i.e. what predict computes from weight_tensor_ -- each block regresses y on exactly the predictions (commutative ring;
   every per-sample order, every output shape, every rank) *)
Theorem C19_cp_phi_in_linear : forall (F : Type) (Op : fops F), is_ring Op ->
  forall (X : tensor F) (fs : list (tensor F)) (so : list nat) (R i n : nat) (sx : list nat) (s : nat) (o : list nat),
  shape X = n :: sx -> i < length sx -> length sx <= length fs -> 0 < R -> s < n -> inb so o ->
  fsumn Op (nth i sx 0 * R)
        (fun c => fmul Op (tget Op (cp_phi_in Op X fs so R i) [ravel (n :: so) (s :: o); c])
                          (tget Op (nth i fs (mk [] [])) [c / R; c mod R]))
  = fsum_idx Op sx (fun J => fmul Op (tget Op X (s :: J)) (fsumn Op R (fun r => cp_coeff Op fs (J ++ o) r))).
Proof. exact @cp_phi_in_linear. Qed.
Print Assumptions C19_cp_phi_in_linear.

Theorem C19_cp_phi_out_linear : forall (F : Type) (Op : fops F), is_ring Op ->
  forall (X : tensor F) (fs : list (tensor F)) (so : list nat) (R i n : nat) (sx : list nat) (s : nat) (o' : list nat) (c : nat),
  shape X = n :: sx -> length sx <= i -> i < length fs -> i - length sx < length so -> s < n ->
  inb (remove_nth (i - length sx) so) o' ->
  fsumn Op R (fun r => fmul Op (tget Op (cp_phi_out Op X fs so R i) [ravel (n :: remove_nth (i - length sx) so) (s :: o'); r])
                               (tget Op (nth i fs (mk [] [])) [c; r]))
  = fsum_idx Op sx (fun J => fmul Op (tget Op X (s :: J))
                                     (fsumn Op R (fun r => cp_coeff Op fs (J ++ insert_at (i - length sx) c o') r))).
Proof. exact @cp_phi_out_linear. Qed.
Print Assumptions C19_cp_phi_out_linear.

(* the same for TuckerRegressor: row s of the design matrix of factor block i applied to vec(W_i), and of the core block
   applied to vec(G), is the contraction of sample s with the Tucker reconstruction of the current (core, factors) *)
Theorem C19_tk_phi_mode_linear : forall (F : Type) (Op : fops F), is_ring Op ->
  forall (X G : tensor F) (fs : list (tensor F)) (i n : nat) (sx : list nat) (s : nat),
  shape X = n :: sx -> i < length sx -> length sx <= length fs -> length (shape G) = length sx ->
  0 < nth i (shape G) 0 -> s < n ->
  fsumn Op (nth i sx 0 * nth i (shape G) 0)
        (fun c => fmul Op (tget Op (tk_phi_mode Op X G fs i) [s; c])
                          (tget Op (nth i fs (mk [] [])) [c / nth i (shape G) 0; c mod nth i (shape G) 0]))
  = fsum_idx Op sx (fun J => fmul Op (tget Op X (s :: J))
                                     (fsum_idx Op (shape G) (fun K => fmul Op (tget Op G K) (tk_coeff Op fs J K)))).
Proof. exact @tk_phi_mode_linear. Qed.
Print Assumptions C19_tk_phi_mode_linear.

Theorem C19_tk_phi_core_linear : forall (F : Type) (Op : fops F), is_ring Op ->
  forall (X G : tensor F) (fs : list (tensor F)) (n : nat) (sx : list nat) (s : nat),
  shape X = n :: sx -> s < n ->
  fsumn Op (prod (shape G)) (fun c => fmul Op (tget Op (tk_phi_core Op X fs (shape G)) [s; c]) (tget Op G (unravel (shape G) c)))
  = fsum_idx Op sx (fun J => fmul Op (tget Op X (s :: J))
                                     (fsum_idx Op (shape G) (fun K => fmul Op (tget Op G K) (tk_coeff Op fs J K)))).
Proof. exact @tk_phi_core_linear. Qed.
Print Assumptions C19_tk_phi_core_linear.

(* ---- the entrywise reconstructions of this model ARE the code-level cp_to_tensor / tucker_to_tensor (the models of
   tensorly/cp_tensor.py and tensorly/tucker_tensor.py of property C03: validation, khatri_rao + dot + fold, resp. the chain of
   mode products), on every input those accept; commutative ring ---- *)
Theorem C19_cp_to_tensor_code_level : forall (F : Type) (Op : fops F), is_ring Op ->
  forall (w : tensor F) (fs : list (tensor F)) (shp : list nat) (R : nat),
  Factorized.validate_cp (Some w) fs = Ok (shp, R) -> Forall (fun f => ndim f = 2) fs ->
  exists t, Factorized.cp_to_tensor Op (Some w) fs None = Ok t /\
    shape t = shape (cp_to_tensor Op w fs) /\
    forall idx, inb (shape t) idx -> get (f0 Op) t idx = tget Op (cp_to_tensor Op w fs) idx.
Proof. exact @cp_to_tensor_link. Qed.
Print Assumptions C19_cp_to_tensor_code_level.

Theorem C19_tucker_to_tensor_code_level : forall (F : Type) (Op : fops F), is_ring Op ->
  forall (core : tensor F) (fs : list (tensor F)) (ns : list nat),
  FactorizedProofs5.tk_shapes F 0 None fs ns (shape core) -> wf core -> 0 < prod (shape core) -> 0 < prod ns ->
  exists t, Factorized.tucker_to_tensor Op core fs None false = Ok t /\
    shape t = shape (tucker_to_tensor Op core fs) /\
    forall idx, inb (shape t) idx -> get (f0 Op) t idx = tget Op (tucker_to_tensor Op core fs) idx.
Proof. exact @tucker_to_tensor_link. Qed.
Print Assumptions C19_tucker_to_tensor_code_level.

(* ---- which pass the regressors' fit stops in, n_iterations_ and norm_W_ (Model/RegressObj.v: reg_fit_full = reg_fit + the two
   extra attributes).  With k = n_iterations_: 1 <= k <= n_iter_max; the exposed blocks, weight_tensor_ and vec_W_ are those after
   exactly k passes; norm_W_ lists the norms after passes 1..k; no pass j in [3, k) met the stopping test; if k < n_iter_max then
   k >= 3 and pass k met it.  So k = min(n_iter_max, first pass >= 3 with |norm_k - norm_(k-1)| / norm_k <= tol): one statement
   for a fit ended by n_iter_max and one ended by the tolerance, for both regressors (any sweep / norm / test) ---- *)
Theorem C19_reg_fit_trace : forall (F P : Type) (sweep : P -> P) (rebuild : P -> tensor F) (nrm : tensor F -> F) (small : F -> F -> bool)
  (w0 : P) (n_iter : nat) (r : reg_full),
  reg_fit_full sweep rebuild nrm small n_iter w0 = Ok r ->
  let k := rf_n_iterations r in
  1 <= k <= n_iter /\
  r_blocks (rf_stored r) = passes sweep k w0 /\
  r_weight_tensor (rf_stored r) = rebuild (passes sweep k w0) /\
  r_vec (rf_stored r) = tensor_to_vec (rebuild (passes sweep k w0)) /\
  rf_norm_W r = map (norm_at sweep rebuild nrm w0) (seq 1 k) /\
  (forall j : nat, 3 <= j < k -> stop_test sweep rebuild nrm small w0 j = false) /\
  (k < n_iter -> 3 <= k /\ stop_test sweep rebuild nrm small w0 k = true).
Proof. exact @reg_fit_trace. Qed.
Print Assumptions C19_reg_fit_trace.

Corollary C19_reg_fit_last_norm : forall (F P : Type) (sweep : P -> P) (rebuild : P -> tensor F) (nrm : tensor F -> F)
  (small : F -> F -> bool) (w0 : P) (n_iter : nat) (r : reg_full) (d : F),
  reg_fit_full sweep rebuild nrm small n_iter w0 = Ok r ->
  last (rf_norm_W r) d = nrm (r_weight_tensor (rf_stored r)) /\ length (rf_norm_W r) = rf_n_iterations r.
Proof. exact @reg_fit_last_norm. Qed.
Print Assumptions C19_reg_fit_last_norm.

(* reg_fit_full stores exactly what reg_fit (the subject of the theorems above) stores *)
Theorem C19_reg_fit_full_stored : forall (F P : Type) (sweep : P -> P) (rebuild : P -> tensor F) (nrm : tensor F -> F)
  (small : F -> F -> bool) (w0 : P) (n_iter : nat),
  reg_fit sweep rebuild nrm small n_iter w0 =
  match reg_fit_full sweep rebuild nrm small n_iter w0 with Ok r => Ok (rf_stored r) | Err => Err end.
Proof. exact @reg_fit_full_stored. Qed.
Print Assumptions C19_reg_fit_full_stored.

Theorem C19_reg_fit_exhausts : forall (F P : Type) (sweep : P -> P) (rebuild : P -> tensor F) (nrm : tensor F -> F)
  (small : F -> F -> bool) (w0 : P) (n_iter : nat) (r : reg_full),
  reg_fit_full sweep rebuild nrm small n_iter w0 = Ok r ->
  (forall j : nat, 3 <= j <= n_iter -> stop_test sweep rebuild nrm small w0 j = false) -> rf_n_iterations r = n_iter.
Proof. exact @reg_fit_exhausts. Qed.
Print Assumptions C19_reg_fit_exhausts.

(* ---- one regressor OBJECT under an arbitrary sequence of calls (fit that succeeds or raises, predict, set_params, get_params):
   the attributes are absent until a fit succeeds, a raising fit and the other calls leave them alone, a successful fit re-binds
   them from the parameters in force (= the last set_params) and its own arguments only, every predict answers from the
   attributes bound at that moment, and whatever every successful fit establishes holds in every reachable state ---- *)
Theorem C19_robj_reachable_inv : forall (F Prm D St : Type) (fit_of : Prm -> D -> res St) (predict_of : St -> tensor F -> res (tensor F))
  (Inv : St -> Prop),
  (forall (p : Prm) (d : D) (st : St), fit_of p d = Ok st -> Inv st) ->
  forall (cs : list rcall) (o : robj),
  (forall st : St, o_attrs o = Some st -> Inv st) ->
  forall st : St, o_attrs (fst (rrun fit_of predict_of o cs)) = Some st -> Inv st.
Proof. exact @robj_reachable_inv. Qed.
Print Assumptions C19_robj_reachable_inv.

Theorem C19_robj_frame : forall (F Prm D St : Type) (fit_of : Prm -> D -> res St) (predict_of : St -> tensor F -> res (tensor F))
  (cs : list rcall) (o : robj), no_refit fit_of predict_of o cs -> o_attrs (fst (rrun fit_of predict_of o cs)) = o_attrs o.
Proof. exact @robj_frame. Qed.
Print Assumptions C19_robj_frame.

Theorem C19_robj_fit_overwrites : forall (F Prm D St : Type) (fit_of : Prm -> D -> res St) (predict_of : St -> tensor F -> res (tensor F))
  (o : robj) (cs : list rcall) (d : D) (st : St),
  fit_of (last_params (o_params o) cs) d = Ok st -> o_attrs (fst (rrun fit_of predict_of o (cs ++ [RFit d]))) = Some st.
Proof. exact @robj_fit_overwrites. Qed.
Print Assumptions C19_robj_fit_overwrites.

Theorem C19_robj_predict_uses_current : forall (F Prm D St : Type) (fit_of : Prm -> D -> res St)
  (predict_of : St -> tensor F -> res (tensor F)) (cs1 : list rcall) (X : tensor F) (cs2 : list rcall) (o : robj),
  nth (length cs1) (snd (rrun fit_of predict_of o (cs1 ++ RPredict X :: cs2))) ORaise =
  match o_attrs (fst (rrun fit_of predict_of o cs1)) with
  | Some st => match predict_of st X with Ok t => OTensor t | Err => ORaise end
  | None => ORaise
  end.
Proof. exact @robj_predict_uses_current. Qed.
Print Assumptions C19_robj_predict_uses_current.

(* the two regressors as such objects (fit = the modelled loop for parameters p and data d, any sweep / norm / test / budget /
   initial blocks as functions of p and d): after ANY history starting from a fresh object, if the object has attributes then
   weight_tensor_ is the reconstruction of the exposed blocks, vec_W_ its vectorisation, and the next predict returns the
   contraction of every sample with the reconstruction of the blocks exposed at that moment *)
Theorem C19_cp_obj_history_predict : forall (F : Type) (Op : fops F) (Prm D : Type)
  (sweep_of : Prm -> D -> tensor F * list (tensor F) -> tensor F * list (tensor F)) (nrm : tensor F -> F)
  (small_of : Prm -> F -> F -> bool) (niter_of : Prm -> nat) (w0_of : Prm -> D -> tensor F * list (tensor F))
  (cs : list rcall) (p0 : Prm) (st : reg_stored) (X : tensor F) (n : nat) (sx so : list nat),
  o_attrs (fst (rrun (cp_obj_fit Op sweep_of nrm small_of niter_of w0_of) (cp_obj_predict Op) (mkRobj p0 None) cs)) = Some st ->
  wf X -> shape X = n :: sx -> sx <> [] -> factor_rows (snd (r_blocks st)) = sx ++ so -> 0 < n -> 0 < prod so ->
  r_weight_tensor st = cp_rebuild Op (r_blocks st) /\
  r_vec st = tensor_to_vec (r_weight_tensor st) /\
  (exists Pr : tensor F,
     snd (rstep (cp_obj_fit Op sweep_of nrm small_of niter_of w0_of) (cp_obj_predict Op)
            (fst (rrun (cp_obj_fit Op sweep_of nrm small_of niter_of w0_of) (cp_obj_predict Op) (mkRobj p0 None) cs))
            (RPredict X)) = OTensor Pr /\
     shape Pr = n :: so /\
     (forall (i : nat) (o : list nat), i < n -> inb so o ->
        tget Op Pr (i :: o) = fsum_idx Op sx (fun J => fmul Op (tget Op X (i :: J))
          (fsumn Op (nth 0 (shape (fst (r_blocks st))) 0)
             (fun r => fmul Op (tget Op (fst (r_blocks st)) [r]) (cp_coeff Op (snd (r_blocks st)) (J ++ o) r)))))).
Proof. exact @cp_obj_history_predict. Qed.
Print Assumptions C19_cp_obj_history_predict.

Theorem C19_tucker_obj_history_predict : forall (F : Type) (Op : fops F) (Prm D : Type)
  (sweep_of : Prm -> D -> tensor F * list (tensor F) -> tensor F * list (tensor F)) (nrm : tensor F -> F)
  (small_of : Prm -> F -> F -> bool) (niter_of : Prm -> nat) (w0_of : Prm -> D -> tensor F * list (tensor F))
  (cs : list rcall) (p0 : Prm) (st : reg_stored) (X : tensor F) (n : nat) (sx : list nat),
  o_attrs (fst (rrun (tk_obj_fit Op sweep_of nrm small_of niter_of w0_of) (tk_obj_predict Op) (mkRobj p0 None) cs)) = Some st ->
  wf X -> shape X = n :: sx -> sx <> [] -> factor_rows (snd (r_blocks st)) = sx -> 0 < n ->
  r_weight_tensor st = tucker_rebuild Op (r_blocks st) /\
  r_vec st = tensor_to_vec (r_weight_tensor st) /\
  (exists Pr : tensor F,
     snd (rstep (tk_obj_fit Op sweep_of nrm small_of niter_of w0_of) (tk_obj_predict Op)
            (fst (rrun (tk_obj_fit Op sweep_of nrm small_of niter_of w0_of) (tk_obj_predict Op) (mkRobj p0 None) cs))
            (RPredict X)) = OTensor Pr /\
     shape Pr = [n] /\
     (forall i : nat, i < n ->
        tget Op Pr [i] = fsum_idx Op sx (fun J => fmul Op (tget Op X (i :: J))
          (fsum_idx Op (shape (fst (r_blocks st)))
             (fun K => fmul Op (tget Op (fst (r_blocks st)) K) (tk_coeff Op (snd (r_blocks st)) J K)))))).
Proof. exact @tk_obj_history_predict. Qed.
Print Assumptions C19_tucker_obj_history_predict.

(* ---- the CP_PLSR object at the level of its entry points (Model/RegressObj.v: validation of fit / predict / transform, vector Y,
   attributes assigned before the component loop, n_components read at call time, fit_transform) ---- *)
(* which fits the validation rejects (object untouched), which raise inside the component loop (budget 0 with a component to
   fit: shapes, means and ZERO factors are left behind), which succeed *)
Theorem C19_plsr_fit_entry_cases : forall (F : Type) (Op : fops F) (sqrtF : F -> F) (init : tensor F -> list (tensor F))
  (ne_solve : list (list F) -> list F -> list F) (p : pprm) (X Y : tensor F) (nx : nat) (sx : list nat) (ny : nat) (sy : list nat),
  shape X = nx :: sx -> shape Y = ny :: sy ->
  match plsr_fit_entry Op sqrtF init ne_solve p X Y with
  | FitRaiseClean => nx <> ny \/ sx = [] \/ 2 <= length sy
  | FitRaisePartial a =>
      nx = ny /\ sx <> [] /\ length sy <= 1 /\ pp_niter p = 0 /\ 0 < pp_ncomp p /\ a_xshape a = shape X /\
      a_fit a = zero_plsr Op (pp_ncomp p) X (as_matrix Y)
  | FitOk _ => nx = ny /\ sx <> [] /\ length sy <= 1 /\ (0 < pp_niter p \/ pp_ncomp p = 0)
  end.
Proof. exact @plsr_fit_entry_cases. Qed.
Print Assumptions C19_plsr_fit_entry_cases.

(* the entry points raise on shape grounds as the shape tests plsr_fit_rejects / plsr_new_x_rejects / plsr_new_y_rejects say;
   these tests (and the stopping test rel_small, the loop skeleton and the stored attributes of both regressors) are regenerated
   from the current Python source by an ast translator on every run and the equalities with the model are re-proved *)
Theorem C19_plsr_entry_shape_tests : forall (F : Type) (Op : fops F) (sqrtF : F -> F) (init : tensor F -> list (tensor F))
  (ne_solve : list (list F) -> list F -> list F) (p : pprm) (X Y : tensor F) (a : pattrs) (Xn Yn : tensor F),
  (plsr_fit_entry Op sqrtF init ne_solve p X Y = FitRaiseClean <-> plsr_fit_rejects (shape X) (shape Y) = true) /\
  shape (as_matrix Y) = y_matrix_shape (shape Y) /\
  (plsr_new_x_rejects (a_xshape a) (shape Xn) = true ->
     plsr_predict_entry Op p a Xn = Err /\ forall Yo, plsr_transform_entry Op p a Xn Yo = Err) /\
  (plsr_new_y_rejects (a_yshape a) (shape Yn) = true -> plsr_transform_entry Op p a Xn (Some Yn) = Err).
Proof. exact @plsr_entry_shape_tests. Qed.
Print Assumptions C19_plsr_entry_shape_tests.

(* histories of the CP_PLSR object: the attributes of every reachable state were bound by one fit call (successful, or raising
   inside its component loop), so what every such call establishes holds in every reachable state -- e.g. the recorded shapes;
   every predict answers from the attributes and the n_components in force at that moment *)
Theorem C19_pobj_reachable_inv : forall (F : Type) (Op : fops F) (sqrtF : F -> F) (init : tensor F -> list (tensor F))
  (ne_solve : list (list F) -> list F -> list F) (Inv : pattrs -> Prop),
  (forall (p : pprm) (X Y : tensor F) (a : pattrs),
     plsr_fit_entry Op sqrtF init ne_solve p X Y = FitOk a \/ plsr_fit_entry Op sqrtF init ne_solve p X Y = FitRaisePartial a -> Inv a) ->
  forall (cs : list pcall) (o : pobj), (forall a, po_attrs o = Some a -> Inv a) ->
  forall a, po_attrs (fst (prun Op sqrtF init ne_solve o cs)) = Some a -> Inv a.
Proof. exact @pobj_reachable_inv. Qed.
Print Assumptions C19_pobj_reachable_inv.

Theorem C19_pobj_reachable_shapes : forall (F : Type) (Op : fops F) (sqrtF : F -> F) (init : tensor F -> list (tensor F))
  (ne_solve : list (list F) -> list F -> list F) (cs : list pcall) (p0 : pprm) (a : pattrs),
  po_attrs (fst (prun Op sqrtF init ne_solve (mkPobj p0 None) cs)) = Some a -> attrs_shapes_ok a.
Proof. exact @pobj_reachable_shapes. Qed.
Print Assumptions C19_pobj_reachable_shapes.

Theorem C19_pobj_predict_uses_current : forall (F : Type) (Op : fops F) (sqrtF : F -> F) (init : tensor F -> list (tensor F))
  (ne_solve : list (list F) -> list F -> list F) (cs1 : list pcall) (X : tensor F) (cs2 : list pcall) (o : pobj),
  nth (length cs1) (snd (prun Op sqrtF init ne_solve o (cs1 ++ PPredict X :: cs2))) PRaise =
  match po_attrs (fst (prun Op sqrtF init ne_solve o cs1)) with
  | None => PRaise
  | Some a => match plsr_predict_entry Op (po_prm (fst (prun Op sqrtF init ne_solve o cs1))) a X with Ok t => PTensor t | Err => PRaise end
  end.
Proof. exact @pobj_predict_uses_current. Qed.
Print Assumptions C19_pobj_predict_uses_current.

(* over R, the unit-norm clause for EVERY state a CP_PLSR object can reach from a fresh one (fits, rejected fits, fits raising in
   their loop, refits, set_params, predict, transform in any order): every exposed loading vector has squared norm 1 -- or 0: the zero
   factors left by a fit that raised, or the normalisation of a zero vector (NaN in the implementation) *)
Theorem C19_pobj_reachable_unit_norm : forall (init : tensor R -> list (tensor R)) (ne_solve : list (list R) -> list R -> list R)
  (cs : list pcall) (p0 : pprm) (a : pattrs),
  po_attrs (fst (prun Rops sqrt init ne_solve (mkPobj p0 None) cs)) = Some a ->
  forall c : comp, In c (comps (a_fit a)) ->
    (forall l : tensor R, In l (c_load c) -> sumsq Rops l = 1%R \/ sumsq Rops l = 0%R) /\
    (sumsq Rops (c_yload c) = 1%R \/ sumsq Rops (c_yload c) = 0%R).
Proof. exact pobj_reachable_unit_norm. Qed.
Print Assumptions C19_pobj_reachable_unit_norm.

(* the two-fit clauses at the level of the ENTRY POINT (validation included; matrix and vector-valued Y): fit(X[p], Y[p]) is accepted
   iff fit(X, Y) is, records the same shapes, means, loadings, Y loadings, coefficients and predicts identically, with consistently
   re-ordered X and Y scores (commutative ring); fit(X + c, Y + d) likewise has the same components and predict(X_new + c) =
   predict(X_new) + d (over R) *)
Theorem C19_plsr_entry_perm : forall (F : Type) (Op : fops F), is_ring Op ->
  forall (sqrtF : F -> F) (init : tensor F -> list (tensor F)) (ne_solve : list (list F) -> list F -> list F) (p : list nat) (n : nat),
  Permutation p (seq 0 n) ->
  forall (prm : pprm) (X Y : tensor F) (sx : list nat) (a : pattrs),
  shape X = n :: sx -> (shape Y = [n] \/ exists m, shape Y = [n; m] /\ 0 < m) ->
  plsr_fit_entry Op sqrtF init ne_solve prm X Y = FitOk a ->
  exists a', plsr_fit_entry Op sqrtF init ne_solve prm (perm_samples Op p X) (perm_samples Op p Y) = FitOk a' /\
    a_xshape a' = a_xshape a /\ a_yshape a' = a_yshape a /\
    X_mean_ (a_fit a') = X_mean_ (a_fit a) /\ Y_mean_ (a_fit a') = Y_mean_ (a_fit a) /\
    loadings (a_fit a') = loadings (a_fit a) /\
    map (c_yload (F:=F)) (comps (a_fit a')) = map (c_yload (F:=F)) (comps (a_fit a)) /\
    map (c_B (F:=F)) (comps (a_fit a')) = map (c_B (F:=F)) (comps (a_fit a)) /\
    fitted_scores (a_fit a') = map (pick Op n p) (fitted_scores (a_fit a)) /\
    map (c_yscore (F:=F)) (comps (a_fit a')) = map (pick Op n p) (map (c_yscore (F:=F)) (comps (a_fit a))) /\
    forall q Xn, plsr_predict_entry Op q a' Xn = plsr_predict_entry Op q a Xn.
Proof. exact @plsr_entry_perm. Qed.
Print Assumptions C19_plsr_entry_perm.

Theorem C19_plsr_entry_shift : forall (init : tensor R -> list (tensor R)) (ne_solve : list (list R) -> list R -> list R)
  (prm : pprm) (X Y c d : tensor R) (n : nat) (sx : list nat) (a : pattrs),
  shape X = n :: sx -> (shape Y = [n] \/ exists m, shape Y = [n; m]) -> 0 < n ->
  plsr_fit_entry Rops sqrt init ne_solve prm X Y = FitOk a ->
  exists a', plsr_fit_entry Rops sqrt init ne_solve prm (shift Rops X c) (shift Rops Y d) = FitOk a' /\
    a_xshape a' = a_xshape a /\ a_yshape a' = a_yshape a /\
    comps (a_fit a') = comps (a_fit a) /\ loadings (a_fit a') = loadings (a_fit a) /\
    fitted_scores (a_fit a') = fitted_scores (a_fit a) /\
    forall Xn i o, sshape Xn = sx -> i < nsamp Xn -> o < nth 1 (a_yshape a) 0 ->
      tget Rops (fit_predict Rops (a_fit a') (shift Rops Xn c)) [i; o] =
      (tget Rops (fit_predict Rops (a_fit a) Xn) [i; o] + tget Rops (y_offset Y d) [o])%R.
Proof. exact plsr_entry_shift. Qed.
Print Assumptions C19_plsr_entry_shift.

(* ... in particular over R (an instance of the ring statement): together with C19_plsr_entry_shift both two-fit clauses hold over R for
   every number of components (the deflation sequence is inside fit_loop, by induction), every pass budget and tolerance, matrix and
   vector-valued Y *)
Corollary C19_plsr_entry_perm_R : forall (init : tensor R -> list (tensor R)) (ne_solve : list (list R) -> list R -> list R)
  (p : list nat) (n : nat), Permutation p (seq 0 n) ->
  forall (prm : pprm) (X Y : tensor R) (sx : list nat) (a : pattrs),
  shape X = n :: sx -> (shape Y = [n] \/ exists m, shape Y = [n; m] /\ 0 < m) ->
  plsr_fit_entry Rops sqrt init ne_solve prm X Y = FitOk a ->
  exists a', plsr_fit_entry Rops sqrt init ne_solve prm (perm_samples Rops p X) (perm_samples Rops p Y) = FitOk a' /\
    a_xshape a' = a_xshape a /\ a_yshape a' = a_yshape a /\
    X_mean_ (a_fit a') = X_mean_ (a_fit a) /\ Y_mean_ (a_fit a') = Y_mean_ (a_fit a) /\
    loadings (a_fit a') = loadings (a_fit a) /\
    map (c_yload (F:=R)) (comps (a_fit a')) = map (c_yload (F:=R)) (comps (a_fit a)) /\
    map (c_B (F:=R)) (comps (a_fit a')) = map (c_B (F:=R)) (comps (a_fit a)) /\
    fitted_scores (a_fit a') = map (pick Rops n p) (fitted_scores (a_fit a)) /\
    map (c_yscore (F:=R)) (comps (a_fit a')) = map (pick Rops n p) (map (c_yscore (F:=R)) (comps (a_fit a))) /\
    forall q Xn, plsr_predict_entry Rops q a' Xn = plsr_predict_entry Rops q a Xn.
Proof. exact (plsr_entry_perm Rops RTheory sqrt). Qed.
Print Assumptions C19_plsr_entry_perm_R.

(* a fit interrupted by lstsq raising at component c (LinAlgError inside the component loop): the object is left with the complete
   columns of the components before c, component c without its coef_ column, zero columns after, and the means / shapes of this fit *)
Theorem C19_plsr_fit_raising_spec : forall (F : Type) (Op : fops F) (sqrtF : F -> F) (init : tensor F -> list (tensor F))
  (ne_solve : list (list F) -> list F -> list F) (c : nat) (p : pprm) (X Y : tensor F) (a : pattrs),
  plsr_fit_entry Op sqrtF init ne_solve p X Y = FitOk a -> c < pp_ncomp p ->
  exists a', plsr_fit_entry_raising Op sqrtF init ne_solve c p X Y = FitRaisePartial a' /\
    a_xshape a' = a_xshape a /\ a_yshape a' = a_yshape a /\
    X_mean_ (a_fit a') = X_mean_ (a_fit a) /\ Y_mean_ (a_fit a') = Y_mean_ (a_fit a) /\
    comps (a_fit a') = firstn c (comps (a_fit a)) ++ strip_B (nth c (comps (a_fit a)) (zero_comp Op X (as_matrix Y)))
                       :: repeat (zero_comp Op X (as_matrix Y)) (pp_ncomp p - S c).
Proof. exact @plsr_fit_raising_spec. Qed.
Print Assumptions C19_plsr_fit_raising_spec.

(* fit(X, Y) then transform(X) on the object returns the fitted X scores (whatever the object went through before) *)
Theorem C19_plsr_obj_fit_then_transform : forall (F : Type) (Op : fops F) (sqrtF : F -> F) (init : tensor F -> list (tensor F))
  (ne_solve : list (list F) -> list F -> list F) (o : pobj) (X Y : tensor F) (a : pattrs),
  plsr_fit_entry Op sqrtF init ne_solve (po_prm o) X Y = FitOk a ->
  pstep Op sqrtF init ne_solve o (PFit X Y) = (mkPobj (po_prm o) (Some a), PSelf) /\
  snd (pstep Op sqrtF init ne_solve (mkPobj (po_prm o) (Some a)) (PTransform X None)) =
  PTensor (cols_to_matrix Op (nsamp X) (fitted_scores (a_fit a))).
Proof. exact @plsr_obj_fit_then_transform. Qed.
Print Assumptions C19_plsr_obj_fit_then_transform.

(* the components are nested: scores over the first j loadings = the first j score columns; hence after
   set_params(n_components = j) transform(X_train) returns the first j fitted score columns if j <= fitted width, else raises *)
Theorem C19_plsr_transform_prefix : forall (F : Type) (Op : fops F) (j : nat) (loads : list (list (tensor F))) (X : tensor F),
  transform_cols Op X (firstn j loads) = firstn j (transform_cols Op X loads).
Proof. exact @transform_cols_firstn. Qed.
Print Assumptions C19_plsr_transform_prefix.

Theorem C19_plsr_obj_transform_fewer : forall (F : Type) (Op : fops F) (sqrtF : F -> F) (init : tensor F -> list (tensor F))
  (ne_solve : list (list F) -> list F -> list F) (o : pobj) (X Y : tensor F) (a : pattrs) (j : nat) (tolv : F) (nit : nat),
  plsr_fit_entry Op sqrtF init ne_solve (po_prm o) X Y = FitOk a ->
  snd (pstep Op sqrtF init ne_solve (mkPobj (mkPprm j nit tolv) (Some a)) (PTransform X None)) =
  (if j <=? pp_ncomp (po_prm o) then PTensor (cols_to_matrix Op (nsamp X) (firstn j (fitted_scores (a_fit a)))) else PRaise).
Proof. exact @plsr_obj_transform_fewer. Qed.
Print Assumptions C19_plsr_obj_transform_fewer.

(* fit_transform(X, Y) = (fitted X scores, fitted Y scores) (commutative ring; solver contract: one coefficient per column) *)
Theorem C19_plsr_obj_fit_transform : forall (F : Type) (Op : fops F), is_ring Op ->
  forall (sqrtF : F -> F) (init : tensor F -> list (tensor F)) (ne_solve : list (list F) -> list F -> list F),
  (forall (G : list (list F)) (b : list F), length (ne_solve G b) <= length G) ->
  forall (o : pobj) (X Y : tensor F) (a : pattrs),
  plsr_fit_entry Op sqrtF init ne_solve (po_prm o) X Y = FitOk a ->
  pstep Op sqrtF init ne_solve o (PFitTransform X Y) =
  (mkPobj (po_prm o) (Some a),
   PPair (cols_to_matrix Op (nsamp X) (fitted_scores (a_fit a)))
         (cols_to_matrix Op (nsamp (as_matrix Y)) (map (c_yscore (F:=F)) (comps (a_fit a))))).
Proof. exact @plsr_obj_fit_transform. Qed.
Print Assumptions C19_plsr_obj_fit_transform.

(* the state left by a fit that raised inside the component loop: predict answers the mean of the NEW targets for every sample
   (zero scores times a zero coef_), i.e. it still predicts with exactly the (zero) weights the object exposes *)
Theorem C19_plsr_obj_zero_state_predict : forall (F : Type) (Op : fops F), is_ring Op ->
  forall (sqrtF : F -> F) (init : tensor F -> list (tensor F)) (ne_solve : list (list F) -> list F -> list F)
  (o : pobj) (X Y : tensor F) (a : pattrs) (Xn : tensor F) (ny m : nat),
  plsr_fit_entry Op sqrtF init ne_solve (po_prm o) X Y = FitRaisePartial a ->
  shape (as_matrix Y) = [ny; m] -> tl (shape Xn) = tl (shape X) ->
  exists Pr : tensor F,
    snd (pstep Op sqrtF init ne_solve (mkPobj (po_prm o) (Some a)) (PPredict Xn)) = PTensor Pr /\
    shape Pr = [nsamp Xn; m] /\
    (forall i j : nat, i < nsamp Xn -> j < m -> tget Op Pr [i; j] = tget Op (mean0 Op (as_matrix Y)) [j]).
Proof. exact @plsr_obj_zero_state_predict. Qed.
Print Assumptions C19_plsr_obj_zero_state_predict.


(* ---- round 7 ---- *)
(* a fit interrupted by initialize_cp raising in component c (LinAlgError of its SVD, e.g. non-finite data; the call precedes every
   write of that component): the object is left with the complete columns of the components before c and zero columns from c on,
   and the means / shapes of this fit; for c = 0 that is exactly the state a fit without pass budget leaves *)
Theorem C19_plsr_fit_init_raising_spec : forall (F : Type) (Op : fops F) (sqrtF : F -> F) (init : tensor F -> list (tensor F))
  (ne_solve : list (list F) -> list F -> list F) (c : nat) (p : pprm) (X Y : tensor F) (a : pattrs),
  plsr_fit_entry Op sqrtF init ne_solve p X Y = FitOk a -> c < pp_ncomp p ->
  exists a', plsr_fit_entry_init_raising Op sqrtF init ne_solve c p X Y = FitRaisePartial a' /\
    a_xshape a' = a_xshape a /\ a_yshape a' = a_yshape a /\
    X_mean_ (a_fit a') = X_mean_ (a_fit a) /\ Y_mean_ (a_fit a') = Y_mean_ (a_fit a) /\
    comps (a_fit a') = firstn c (comps (a_fit a)) ++ repeat (zero_comp Op X (as_matrix Y)) (pp_ncomp p - c).
Proof. exact @plsr_fit_init_raising_spec. Qed.
Print Assumptions C19_plsr_fit_init_raising_spec.

Corollary C19_plsr_fit_init_raising_first : forall (F : Type) (Op : fops F) (sqrtF : F -> F) (init : tensor F -> list (tensor F))
  (ne_solve : list (list F) -> list F -> list F) (p : pprm) (X Y : tensor F) (a : pattrs),
  plsr_fit_entry Op sqrtF init ne_solve p X Y = FitOk a -> 0 < pp_ncomp p ->
  plsr_fit_entry_init_raising Op sqrtF init ne_solve 0 p X Y =
  FitRaisePartial (mkPattrs (shape X) (shape (as_matrix Y)) (zero_plsr Op (pp_ncomp p) X (as_matrix Y))).
Proof. exact @plsr_fit_init_raising_first. Qed.
Print Assumptions C19_plsr_fit_init_raising_first.

(* the unit-norm clause, exactly: over R a normalised vector has unit norm IF AND ONLY IF the vector it was obtained from is not
   the zero vector; and squared norm 0 means every entry is 0 -- so the second alternative of C19_plsr_unit_norm /
   C19_pobj_reachable_unit_norm is "the loading is the zero vector", which arises only from normalising a zero vector (the
   implementation computes 0/0 = NaN there, the scores become NaN and lstsq raises: no successful fit exposes such a loading) *)
Theorem C19_normalize_unit_iff : forall v : tensor R, sumsq Rops (normalize Rops sqrt v) = 1%R <-> sumsq Rops v <> 0%R.
Proof. exact normalize_unit_iff. Qed.
Print Assumptions C19_normalize_unit_iff.

Theorem C19_sumsq_zero_entries : forall v : tensor R, sumsq Rops v = 0%R -> forall J, inb (shape v) J -> tget Rops v J = 0%R.
Proof. exact sumsq_zero_entries. Qed.
Print Assumptions C19_sumsq_zero_entries.

(* degenerate training data, where that second alternative IS realised: if every sample of X is the same tensor then the centred
   X is zero and EVERY X loading of EVERY component is the zero vector and every X score is 0 -- whatever the SVD initialisation,
   the solver, the pass budget, the tolerance and Y (induction over the passes, the mode sweep and the deflations).  The
   implementation computes 0/0 = NaN there, the scores are NaN and lstsq raises (LinAlgError): the fit does not succeed, which is
   why the unit-norm clause is conditional on a successful fit (harness: degenerate_probe) *)
Theorem C19_plsr_constant_X_degenerate : forall (init : tensor R -> list (tensor R)) (ne_solve : list (list R) -> list R -> list R)
  (tol : R) (n_iter ncomp : nat) (X Y : tensor R) (n : nat) (sx : list nat) (r : plsr) (c : comp),
  shape X = n :: sx -> 0 < n -> constant_samples Rops X ->
  cp_plsr_fit Rops sqrt init ne_solve tol n_iter ncomp X Y = Ok r -> In c (comps r) ->
  (forall l, In l (c_load c) -> sumsq Rops l = 0%R /\ forall J, tget Rops l J = 0%R) /\ (forall t, In t (c_score c) -> t = 0%R).
Proof. exact plsr_constant_X_degenerate. Qed.
Print Assumptions C19_plsr_constant_X_degenerate.

(* ... and likewise constant targets: every Y loading of every component is the zero vector and every Y score is 0 *)
Theorem C19_plsr_constant_Y_degenerate : forall (init : tensor R -> list (tensor R)) (ne_solve : list (list R) -> list R -> list R)
  (tol : R) (n_iter ncomp : nat) (X Y : tensor R) (n : nat) (sy : list nat) (r : plsr) (c : comp),
  shape Y = n :: sy -> 0 < n -> constant_samples Rops Y ->
  cp_plsr_fit Rops sqrt init ne_solve tol n_iter ncomp X Y = Ok r -> In c (comps r) ->
  (sumsq Rops (c_yload c) = 0%R /\ forall J, tget Rops (c_yload c) J = 0%R) /\ (forall t, In t (c_yscore c) -> t = 0%R).
Proof. exact plsr_constant_Y_degenerate. Qed.
Print Assumptions C19_plsr_constant_Y_degenerate.

(* ---- CP_PLSR.score(X, Y) (matrix Y) ---- *)
(* it is the R2_score of tensorly/metrics/regression.py (the model of property C20, Model/Metrics.v, read only) applied to
   (Y - Y_mean_, predict(X) - Y_mean_): commutative ring *)
Theorem C19_plsr_score_is_R2 : forall (F : Type) (Op : fops F), is_ring Op ->
  forall (a : pattrs (F:=F)) (X Y : tensor F),
  plsr_score Op a X Y =
  Metrics.R2_score Op (center Op Y (Y_mean_ (a_fit a)))
    (tabulate (shape Y) (fun J => fsub Op (tget Op (fit_predict Op (a_fit a) X) J) (tget Op (Y_mean_ (a_fit a)) (tl J)))).
Proof. exact @plsr_score_is_R2. Qed.
Print Assumptions C19_plsr_score_is_R2.

(* over R: the score is at most 1, with equality exactly when every prediction equals its target *)
Theorem C19_plsr_score_le_1 : forall (a : pattrs (F:=R)) (X Y : tensor R), (plsr_score Rops a X Y <= 1)%R.
Proof. exact plsr_score_le_1. Qed.
Print Assumptions C19_plsr_score_le_1.

Theorem C19_plsr_score_one_iff : forall (a : pattrs (F:=R)) (X Y : tensor R), (0 < score_den a Y)%R ->
  (plsr_score Rops a X Y = 1%R <-> forall J, inb (shape Y) J -> tget Rops (fit_predict Rops (a_fit a) X) J = tget Rops Y J).
Proof. exact plsr_score_one_iff. Qed.
Print Assumptions C19_plsr_score_one_iff.

(* the score is invariant under the constant shifts of the property, at the level of the entry points (validation, vector- or
   matrix-valued training targets, the tests of predict): fit(X + c, Y + d).score(Xn + c, Yn + d) = fit(X, Y).score(Xn, Yn) *)
Theorem C19_plsr_entry_score_shift : forall (init : tensor R -> list (tensor R)) (ne_solve : list (list R) -> list R -> list R)
  (prm : pprm) (X Y c d : tensor R) (n : nat) (sx : list nat) (a : pattrs),
  shape X = n :: sx -> (shape Y = [n] \/ exists m, shape Y = [n; m]) -> 0 < n ->
  plsr_fit_entry Rops sqrt init ne_solve prm X Y = FitOk a ->
  exists a', plsr_fit_entry Rops sqrt init ne_solve prm (shift Rops X c) (shift Rops Y d) = FitOk a' /\
    forall q Xn Yn k, shape Xn = k :: sx -> shape Yn = [k; nth 1 (a_yshape a) 0] ->
      plsr_score_entry Rops q a' (shift Rops Xn c) (shift Rops Yn (y_offset Y d)) = plsr_score_entry Rops q a Xn Yn.
Proof. exact plsr_entry_score_shift. Qed.
Print Assumptions C19_plsr_entry_score_shift.

(* non-vacuity: Z is an instance; a 2-sample 2x2 problem with a vector-valued target *)
Example C19_Z_is_ring : is_ring Zops.
Proof. exact Zth. Qed.
Example C19_nonvacuous :
  let X := mk [2; 2; 2] [1; 2; 3; 4; 5; 6; 7; 8]%Z in
  let W := mk [2; 2; 3] [1; 0; 2; 0; 1; 0; 3; 0; 0; 1; 1; 1]%Z in
  wf X /\ wf W /\ shape W = [2; 2] ++ [3] /\
  predict_cp Zops W X = Ok (mk [2; 3] [14; 6; 6; 34; 14; 18]%Z).
Proof. cbv zeta. repeat split; vm_compute; reflexivity. Qed.

Example C19_R_is_ring : is_ring Rops.
Proof. exact RTheory. Qed.
(* the model of transform / predict of CP_PLSR computes (Z instance): 3 samples of shape 2, one component *)
Example C19_plsr_nonvacuous :
  let X := mk [3; 2] [1; 2; 3; 5; 8; 2]%Z in
  let xm := mk [2] [4; 3]%Z in
  let loads := [[mk [2] [1; -1]%Z]] in
  shape xm = sshape X /\ rows_ok 3 [2; 0; 1] /\
  transform Zops xm loads X = mk [3; 1] [-2; -3; 5]%Z /\
  transform Zops xm loads (perm_samples Zops [2; 0; 1] X) = mk [3; 1] [5; -2; -3]%Z.
Proof.
  cbv zeta. split; [reflexivity|]. split.
  - intros i Hi. destruct i as [|[|[|i]]]; simpl; lia.
  - split; vm_compute; reflexivity.
Qed.

(* non-vacuity of the fit_cp theorems: the hypotheses are satisfiable and the model computes.
   Z instance (integer square root, a constant initialisation, a trivial solver): 3 samples of shape 2x2, 2 targets,
   2 passes, 1 component; the permuted run has the same loadings and the re-ordered scores *)
Example C19_perm_is_permutation : Permutation [2; 0; 1] (seq 0 3).
Proof. simpl. apply Permutation_sym. apply (Permutation_cons_app [2] [1] 0). apply (Permutation_cons_app [2] [] 1). apply Permutation_refl. Qed.
Example C19_fit_cp_nonvacuous :
  let X := mk [3; 2; 2] [4; -1; 0; 2; -3; 5; 1; 1; 2; 0; -2; -6]%Z in
  let Y := mk [3; 2] [1; 0; -2; 3; 4; -1]%Z in
  let init := fun _ : tensor Z => [mk [2] [1; 0]%Z; mk [2] [0; 1]%Z] in
  let fitZ := fit_cp Zops Z.sqrt init (fun _ b => b) 0%Z 2 1 in
  let p := [2; 0; 1] in
  shape X = 3 :: [2; 2] /\ shape Y = [3; 2] /\
  length (comps (fitZ X Y)) = 1 /\
  loadings (fitZ (perm_samples Zops p X) (perm_samples Zops p Y)) = loadings (fitZ X Y) /\
  fitted_scores (fitZ (perm_samples Zops p X) (perm_samples Zops p Y)) = map (pick Zops 3 p) (fitted_scores (fitZ X Y)) /\
  fitted_scores (fitZ X Y) <> [[0; 0; 0]%Z].
Proof. cbv zeta. repeat split; try (vm_compute; reflexivity). vm_compute. discriminate. Qed.
Example C19_unit_norm_nonvacuous : (0 < sumsq Rops (mk [2%nat] [3; 4]))%R.
Proof. unfold sumsq, fsum_idx, BigSum.sum_idx. cbn. Lra.lra. Qed.
(* the regressors' loop: one pass is enough for fit to be defined; zero passes is an error (the source raises) *)
Example C19_reg_fit_nonvacuous :
  (exists st, reg_fit (F:=Z) (fun w : nat => S w) (fun w => mk [1] [Z.of_nat w]) (fun _ => 0%Z) (fun _ _ => true) 5 0 = Ok st /\ r_blocks st = 3) /\
  reg_fit (F:=Z) (fun w : nat => S w) (fun w => mk [1] [Z.of_nat w]) (fun _ => 0%Z) (fun _ _ => true) 0 0 = Err.
Proof. split; [eexists; split; vm_compute; reflexivity | reflexivity]. Qed.

(* the code-level models accept the regressors' blocks: a rank-2 CP weight with ones as weights, a Tucker weight *)
Example C19_code_level_nonvacuous :
  let w := mk [2] [1; 1]%Z in
  let fs := [mk [2; 2] [1; 2; 3; 4]%Z; mk [3; 2] [1; 0; -1; 2; 0; 5]%Z] in
  Factorized.validate_cp (Some w) fs = Ok ([2; 3], 2) /\ Forall (fun f => ndim f = 2) fs /\
  Factorized.cp_to_tensor Zops (Some w) fs None = Ok (cp_to_tensor Zops w fs) /\
  Factorized.tucker_to_tensor Zops (mk [2; 2] [1; 0; 2; -1]%Z) fs None false = Ok (tucker_to_tensor Zops (mk [2; 2] [1; 0; 2; -1]%Z) fs).
Proof. cbv zeta. split; [vm_compute; reflexivity|]. split; [repeat constructor|]. split; vm_compute; reflexivity. Qed.

(* the block design matrices compute (Z instance): 2 samples of shape 2x2, one output mode of size 2, rank 2;
   block 1 (input mode) and block 2 (the output mode) *)
Example C19_cp_phi_nonvacuous :
  let X := mk [2; 2; 2] [1; 2; 3; 4; -1; 0; 2; 5]%Z in
  let fs := [mk [2; 2] [1; 2; 3; 4]%Z; mk [2; 2] [0; 1; -1; 2]%Z; mk [2; 2] [1; 1; 2; -1]%Z] in
  let lhs := fsumn Zops 4 (fun c => fmul Zops (tget Zops (cp_phi_in Zops X fs [2] 2 1) [ravel [2; 2] [1; 0]; c])
                                              (tget Zops (nth 1 fs (mk [] [])) [c / 2; c mod 2])) in
  shape (cp_phi_in Zops X fs [2] 2 1) = [4; 4] /\ shape (cp_phi_out Zops X fs [2] 2 2) = [2; 2] /\
  lhs = fsum_idx Zops [2; 2] (fun J => fmul Zops (tget Zops X (1 :: J)) (fsumn Zops 2 (fun r => cp_coeff Zops fs (J ++ [0]) r))) /\
  lhs <> 0%Z.
Proof. cbv zeta. repeat split; try (vm_compute; reflexivity). vm_compute. discriminate. Qed.

Example C19_tk_phi_nonvacuous :
  let X := mk [2; 2; 2] [1; 2; 3; 4; -1; 0; 2; 5]%Z in
  let G := mk [2; 1] [2; -1]%Z in
  let fs := [mk [2; 2] [1; 2; 3; 4]%Z; mk [2; 1] [1; -2]%Z] in
  let lhs := fsumn Zops 4 (fun c => fmul Zops (tget Zops (tk_phi_mode Zops X G fs 0) [1; c]) (tget Zops (nth 0 fs (mk [] [])) [c / 2; c mod 2])) in
  shape (tk_phi_mode Zops X G fs 0) = [2; 4] /\ shape (tk_phi_core Zops X fs [2; 1]) = [2; 2] /\
  lhs = fsum_idx Zops [2; 2] (fun J => fmul Zops (tget Zops X (1 :: J)) (fsum_idx Zops [2; 1] (fun K => fmul Zops (tget Zops G K) (tk_coeff Zops fs J K)))) /\
  lhs <> 0%Z.
Proof. cbv zeta. repeat split; try (vm_compute; reflexivity). vm_compute. discriminate. Qed.

(* cp_plsr_fit: the budget 0 is rejected, a positive budget yields the fit of the Example above *)
Example C19_cp_plsr_fit_nonvacuous :
  let X := mk [3; 2; 2] [4; -1; 0; 2; -3; 5; 1; 1; 2; 0; -2; -6]%Z in
  let Y := mk [3; 2] [1; 0; -2; 3; 4; -1]%Z in
  let init := fun _ : tensor Z => [mk [2] [1; 0]%Z; mk [2] [0; 1]%Z] in
  cp_plsr_fit Zops Z.sqrt init (fun _ b => b) 0%Z 0 1 X Y = Err /\
  cp_plsr_fit Zops Z.sqrt init (fun _ b => b) 0%Z 0 0 X Y <> Err /\
  exists r, cp_plsr_fit Zops Z.sqrt init (fun _ b => b) 0%Z 2 1 X Y = Ok r /\ length (comps r) = 1.
Proof. cbv zeta. split; [reflexivity|]. split; [vm_compute; discriminate|]. eexists. split; [reflexivity | vm_compute; reflexivity]. Qed.

(* the trace of the regressors' loop (Z instance: blocks = pass counter, norm = its value): a test that always holds stops the
   loop in pass 3, a test that never holds exhausts the budget *)
Example C19_reg_fit_trace_nonvacuous :
  (exists r, reg_fit_full (F:=Z) (fun w : nat => S w) (fun w => mk [1] [Z.of_nat w]) (fun t => nth 0 (data t) 0%Z) (fun _ _ => true) 5 0 = Ok r /\
             rf_n_iterations r = 3 /\ rf_norm_W r = [1; 2; 3]%Z) /\
  (exists r, reg_fit_full (F:=Z) (fun w : nat => S w) (fun w => mk [1] [Z.of_nat w]) (fun t => nth 0 (data t) 0%Z) (fun _ _ => false) 5 0 = Ok r /\
             rf_n_iterations r = 5 /\ r_blocks (rf_stored r) = 5).
Proof. split; eexists; (split; [vm_compute; reflexivity|split; reflexivity]). Qed.

(* an object history (attributes = a number): predict before fit raises, a raising fit keeps the attributes of the earlier one,
   a later fit overwrites them *)
Example C19_robj_nonvacuous :
  let fit_of := fun (p d : nat) => if p =? 0 then Err else Ok (p + d) in
  let predict_of := fun (st : nat) (X : tensor Z) => Ok (mk [1] [Z.of_nat st]) in
  snd (rrun fit_of predict_of (mkRobj 2 None)
         [RPredict (mk [] []); RFit 5; RSetParams 0; RFit 9; RPredict (mk [] []); RSetParams 1; RFit 9; RPredict (mk [] [])]) =
  [ORaise; OSelf; OSelf; ORaise; OTensor (mk [1] [7%Z]); OSelf; OSelf; OTensor (mk [1] [10%Z])].
Proof. reflexivity. Qed.

(* the CP_PLSR entry points compute (Z instance of the Example above): a matrix target and a vector target are accepted, a 3-mode
   target and uncoupled first modes are rejected, the budget 0 leaves the zero state *)
Example C19_plsr_obj_nonvacuous :
  let X := mk [3; 2; 2] [4; -1; 0; 2; -3; 5; 1; 1; 2; 0; -2; -6]%Z in
  let Y := mk [3; 2] [1; 0; -2; 3; 4; -1]%Z in
  let init := fun _ : tensor Z => [mk [2] [1; 0]%Z; mk [2] [0; 1]%Z] in
  let entry := plsr_fit_entry Zops Z.sqrt init (fun _ b => b) in
  (exists a, entry (mkPprm 1 2 0%Z) X Y = FitOk a /\ fitted_width a = 1) /\
  (exists a, entry (mkPprm 1 2 0%Z) X (mk [3] [1; -2; 4]%Z) = FitOk a /\ a_yshape a = [3; 1]) /\
  (exists a, entry (mkPprm 1 0 0%Z) X Y = FitRaisePartial a) /\
  entry (mkPprm 1 2 0%Z) X (mk [3; 1; 2] [1; 0; -2; 3; 4; -1]%Z) = FitRaiseClean /\
  entry (mkPprm 1 2 0%Z) X (mk [2; 2] [1; 0; -2; 3]%Z) = FitRaiseClean.
Proof.
  cbv zeta. split; [eexists; split; [reflexivity|vm_compute; reflexivity]|].
  split; [eexists; split; [reflexivity|vm_compute; reflexivity]|].
  split; [eexists; reflexivity|]. split; vm_compute; reflexivity.
Qed.

(* entry-level permutation with a VECTOR target (Z instance): the permuted fit is accepted and has the same loadings *)
Example C19_plsr_entry_perm_nonvacuous :
  let X := mk [3; 2; 2] [4; -1; 0; 2; -3; 5; 1; 1; 2; 0; -2; -6]%Z in
  let Y := mk [3] [1; -2; 4]%Z in
  let init := fun _ : tensor Z => [mk [2] [1; 0]%Z; mk [2] [0; 1]%Z] in
  let entry := plsr_fit_entry Zops Z.sqrt init (fun _ b => b) (mkPprm 1 2 0%Z) in
  exists a a', entry X Y = FitOk a /\ entry (perm_samples Zops [2; 0; 1] X) (perm_samples Zops [2; 0; 1] Y) = FitOk a' /\
    loadings (a_fit a') = loadings (a_fit a) /\ fitted_scores (a_fit a) <> [[0; 0; 0]%Z].
Proof. cbv zeta. do 2 eexists. split; [reflexivity|]. split; [reflexivity|]. split; [vm_compute; reflexivity|vm_compute; discriminate]. Qed.

(* two components with deflation and a VECTOR target (Z instance): the second component is not trivial, the permuted fit has the same
   loadings and re-ordered scores; a fit interrupted at component 1 keeps component 0 and the loadings of component 1 *)
Example C19_plsr_two_components_nonvacuous :
  let X := mk [4; 2; 2] [4; -1; 0; 2; -3; 5; 1; 1; 2; 0; -2; -6; 1; 3; -4; 2]%Z in
  let Y := mk [4] [1; -2; 4; 3]%Z in
  let init := fun _ : tensor Z => [mk [2] [1; 0]%Z; mk [2] [0; 1]%Z] in
  let prm := mkPprm 2 2 0%Z in
  let p := [2; 0; 3; 1] in
  exists a a' a'', plsr_fit_entry Zops Z.sqrt init (fun _ b => b) prm X Y = FitOk a /\
    plsr_fit_entry Zops Z.sqrt init (fun _ b => b) prm (perm_samples Zops p X) (perm_samples Zops p Y) = FitOk a' /\
    plsr_fit_entry_raising Zops Z.sqrt init (fun _ b => b) 1 prm X Y = FitRaisePartial a'' /\
    fitted_width a = 2 /\ loadings (a_fit a') = loadings (a_fit a) /\
    fitted_scores (a_fit a') = map (pick Zops 4 p) (fitted_scores (a_fit a)) /\
    nth 1 (fitted_scores (a_fit a)) [] <> [0; 0; 0; 0]%Z /\
    loadings (a_fit a'') = loadings (a_fit a) /\ map (c_B (F:=Z)) (comps (a_fit a'')) = [nth 0 (map (c_B (F:=Z)) (comps (a_fit a))) []; []].
Proof.
  cbv zeta. do 3 eexists. split; [reflexivity|]. split; [reflexivity|]. split; [reflexivity|].
  repeat split; try (vm_compute; reflexivity). vm_compute. discriminate.
Qed.

(* round 7: initialize_cp raising at component 1 of 2 keeps component 0 and leaves zero columns; at component 0 it leaves the zero state *)
Example C19_plsr_init_raising_nonvacuous :
  let X := mk [4; 2; 2] [4; -1; 0; 2; -3; 5; 1; 1; 2; 0; -2; -6; 1; 3; -4; 2]%Z in
  let Y := mk [4] [1; -2; 4; 3]%Z in
  let init := fun _ : tensor Z => [mk [2] [1; 0]%Z; mk [2] [0; 1]%Z] in
  let prm := mkPprm 2 2 0%Z in
  exists a a1 a0, plsr_fit_entry Zops Z.sqrt init (fun _ b => b) prm X Y = FitOk a /\
    plsr_fit_entry_init_raising Zops Z.sqrt init (fun _ b => b) 1 prm X Y = FitRaisePartial a1 /\
    plsr_fit_entry_init_raising Zops Z.sqrt init (fun _ b => b) 0 prm X Y = FitRaisePartial a0 /\
    firstn 1 (comps (a_fit a1)) = firstn 1 (comps (a_fit a)) /\ nth 1 (fitted_scores (a_fit a1)) [] = [0; 0; 0; 0]%Z /\
    nth 1 (fitted_scores (a_fit a)) [] <> [0; 0; 0; 0]%Z /\
    a_fit a0 = zero_plsr Zops 2 X (as_matrix Y).
Proof.
  cbv zeta. do 3 eexists. split; [reflexivity|]. split; [reflexivity|]. split; [reflexivity|].
  split; [vm_compute; reflexivity|]. split; [vm_compute; reflexivity|]. split; [vm_compute; discriminate|vm_compute; reflexivity].
Qed.
Example C19_unit_iff_nonvacuous : (sumsq Rops (mk [2%nat] [3; 4]) <> 0)%R /\ sumsq Rops (mk [2%nat] [0; 0]%R) = 0%R.
Proof. unfold sumsq, fsum_idx, BigSum.sum_idx. cbn. split; Lra.lra. Qed.
(* the score over R: one sample, one target, the zero state (predictions = Y_mean_ = 3): score(X, [[5]]) = 1 - 4/4 = 0 <= 1, and the
   denominator hypothesis of C19_plsr_score_one_iff is satisfiable *)
Example C19_score_nonvacuous :
  let a := mkPattrs [1; 1] [1; 1] (mkPlsr (mk [1] [0%R]) (mk [1] [3%R]) []) in
  (0 < score_den a (mk [1%nat; 1%nat] [5%R]))%R /\ plsr_score Rops a (mk [1%nat; 1%nat] [0%R]) (mk [1%nat; 1%nat] [5%R]) = 0%R.
Proof.
  cbv zeta. unfold plsr_score, score_den, fsum_idx, BigSum.sum_idx. cbn. split; [Lra.lra|]. unfold Rdiv. field.
Qed.
(* constant samples: the hypothesis of C19_plsr_constant_X_degenerate is satisfiable (two equal samples of shape 2) and the fit is defined *)
Example C19_constant_samples_nonvacuous :
  let X := mk [2%nat; 2%nat] [1; 2; 1; 2]%R in
  constant_samples Rops X /\
  exists r, cp_plsr_fit Rops sqrt (fun _ => [mk [2%nat] [1; 0]%R]) (fun _ b => b) 0%R 1 1 X (mk [2%nat; 1%nat] [1; 3]%R) = Ok r /\ length (comps r) = 1.
Proof.
  cbv zeta. split.
  - intros i J Hi HJ. cbn in Hi. destruct J as [|j [|j' J']]; cbn in HJ; try tauto. destruct HJ as [Hj _].
    destruct i as [|[|i]]; destruct j as [|[|j]]; try lia; reflexivity.
  - eexists. split; [reflexivity|]. reflexivity.
Qed.
