(* C19 -- property theorems only.  Statements are about Model/Regress.v.  The predict identities hold
   for every carrier F and every record of operations Op (they are pure index bookkeeping: no algebraic
   law is used, so they hold verbatim for Z, Q, R and for IEEE floats with a fixed summation order);
   the centring lemmas hold for every Op satisfying ring_theory. *)
From Coq Require Import List Arith ZArith Ring Permutation Reals Lia.
From TLV Require Import Base.Shape Base.PyList Base.Tensor Base.Ops Model.Base Model.Regress Proofs.RegressProofs Proofs.RegressProofsR.
Import ListNotations.


(* CPRegressor.predict: every per-sample order (sx <> []), every output shape so (incl. scalar targets, so = []) *)
Theorem C19_predict_cp_contraction : forall (F : Type) (Op : fops F),
  forall (W X : tensor F) (n : nat) (sx so : list nat),
  wf X -> wf W -> shape X = n :: sx -> sx <> [] -> shape W = sx ++ so -> 0 < n -> 0 < prod so ->
  exists P, predict_cp Op W X = Ok P /\ shape P = n :: so /\ wf P /\
    forall i o, i < n -> inb so o ->
      tget Op P (i :: o) = fsum_idx Op sx (fun J => fmul Op (tget Op X (i :: J)) (tget Op W (J ++ o))).
Proof. exact @predict_cp_contraction. Qed.
Print Assumptions C19_predict_cp_contraction.

(* TuckerRegressor.predict with the stored vec_W_ = tensor_to_vec(weight_tensor_) *)
Theorem C19_predict_tucker_contraction : forall (F : Type) (Op : fops F),
  forall (W vecW X : tensor F) (n : nat) (sx : list nat),
  wf X -> wf W -> shape X = n :: sx -> sx <> [] -> shape W = sx -> 0 < n ->
  tensor_to_vec W = Ok vecW ->
  exists P, predict_tucker Op vecW X = Ok P /\ shape P = [n] /\ wf P /\
    forall i, i < n -> tget Op P [i] = fsum_idx Op sx (fun J => fmul Op (tget Op X (i :: J)) (tget Op W J)).
Proof. exact @predict_tucker_contraction. Qed.
Print Assumptions C19_predict_tucker_contraction.

(* vec_W_ is the vectorisation of weight_tensor_ *)
Theorem C19_cp_stored_vec : forall (F : Type) (Op : fops F) (w : tensor F) (fs : list (tensor F)),
  vec_W_ (cp_fit_tail Op w fs) = tensor_to_vec (weight_tensor_ (cp_fit_tail Op w fs)).
Proof. exact @cp_stored_vec. Qed.
Print Assumptions C19_cp_stored_vec.
Theorem C19_tucker_stored_vec : forall (F : Type) (Op : fops F) (G : tensor F) (fs : list (tensor F)),
  vec_W_ (tucker_fit_tail Op G fs) = tensor_to_vec (weight_tensor_ (tucker_fit_tail Op G fs)).
Proof. exact @tucker_stored_vec. Qed.
Print Assumptions C19_tucker_stored_vec.

(* fitted regressors predict with the reconstruction of the factors they expose *)
Theorem C19_cp_regressor_predict_factors : forall (F : Type) (Op : fops F),
  forall (w : tensor F) (fs : list (tensor F)) (X : tensor F) (n : nat) (sx so : list nat),
  wf X -> shape X = n :: sx -> sx <> [] -> factor_rows fs = sx ++ so -> 0 < n -> 0 < prod so ->
  exists P, cp_regressor_predict Op w fs X = Ok P /\ shape P = n :: so /\
    forall i o, i < n -> inb so o ->
      tget Op P (i :: o) = fsum_idx Op sx (fun J => fmul Op (tget Op X (i :: J))
                          (fsumn Op (nth 0 (shape w) 0) (fun r => fmul Op (tget Op w [r]) (cp_coeff Op fs (J ++ o) r)))).
Proof. exact @cp_regressor_predict_factors. Qed.
Print Assumptions C19_cp_regressor_predict_factors.

Theorem C19_tucker_regressor_predict_factors : forall (F : Type) (Op : fops F),
  forall (G : tensor F) (fs : list (tensor F)) (X : tensor F) (n : nat) (sx : list nat),
  wf X -> shape X = n :: sx -> sx <> [] -> factor_rows fs = sx -> 0 < n ->
  exists P, tucker_regressor_predict Op G fs X = Ok P /\ shape P = [n] /\
    forall i, i < n ->
      tget Op P [i] = fsum_idx Op sx (fun J => fmul Op (tget Op X (i :: J))
                          (fsum_idx Op (shape G) (fun K => fmul Op (tget Op G K) (tk_coeff Op fs J K)))).
Proof. exact @tucker_regressor_predict_factors. Qed.
Print Assumptions C19_tucker_regressor_predict_factors.

(* CP_PLSR: transforming the training data returns the fitted scores, whatever the inner power
   iteration and lstsq return *)
Theorem C19_plsr_fit_transform_train : forall (F : Type) (Op : fops F)
  (inner : tensor F -> tensor F -> list (tensor F) * tensor F) (lstsq : list (list F) -> list F -> list F)
  (ncomp : nat) (X Y : tensor F),
  fit_transform_X Op (fit Op inner lstsq ncomp X Y) X =
  cols_to_matrix Op (nsamp X) (fitted_scores (fit Op inner lstsq ncomp X Y)).
Proof. exact @fit_transform_train. Qed.
Print Assumptions C19_plsr_fit_transform_train.

(* mean-centring lemma (ring part) and permutation equivariance of centring *)
Theorem C19_center_shift : forall (F : Type) (Op : fops F), is_ring Op ->
  forall (X m c : tensor F), shape m = sshape X ->
  center Op (shift Op X c) (tadd Op m c) = center Op X m.
Proof. exact @center_shift. Qed.
Print Assumptions C19_center_shift.

Theorem C19_center_perm : forall (F : Type) (Op : fops F), is_ring Op ->
  forall (p : list nat) (X : tensor F) (n : nat) (sx : list nat),
  shape X = n :: sx -> Permutation p (seq 0 n) ->
  center Op (perm_samples Op p X) (mean0 Op (perm_samples Op p X)) = perm_samples Op p (center Op X (mean0 Op X)).
Proof. exact @center_perm. Qed.
Print Assumptions C19_center_perm.

(* transform (hence predict) acts sample by sample: re-ordering / re-sampling the rows of X re-orders the scores *)
Theorem C19_plsr_transform_perm : forall (F : Type) (Op : fops F)
  (p : list nat) (xmean : tensor F) (loads : list (list (tensor F))) (X : tensor F) (n : nat) (sx : list nat) (i c : nat),
  shape X = n :: sx -> rows_ok n p -> i < n -> c < length loads ->
  tget Op (transform Op xmean loads (perm_samples Op p X)) [i; c] = tget Op (transform Op xmean loads X) [nth i p 0; c].
Proof. exact @transform_perm. Qed.
Print Assumptions C19_plsr_transform_perm.

(* the mean over the samples does not depend on their order *)
Theorem C19_mean_perm : forall (F : Type) (Op : fops F), is_ring Op ->
  forall (p : list nat) (X : tensor F) (n : nat) (sx : list nat),
  shape X = n :: sx -> Permutation p (seq 0 n) -> mean0 Op (perm_samples Op p X) = mean0 Op X.
Proof. exact @mean0_perm. Qed.
Print Assumptions C19_mean_perm.

(* predictions of shifted data with shifted means = predictions + offset (ring part) *)
Theorem C19_plsr_predict_shift : forall (F : Type) (Op : fops F), is_ring Op ->
  forall (xm ym : tensor F) (loads : list (list (tensor F))) (coef yl X c d : tensor F) (m i o : nat),
  shape xm = sshape X -> shape ym = [m] -> nth 0 (shape yl) 0 = m -> i < nsamp X -> o < m ->
  tget Op (plsr_predict Op (tadd Op xm c) (tadd Op ym d) loads coef yl (shift Op X c)) [i; o] =
  fadd Op (tget Op (plsr_predict Op xm ym loads coef yl X) [i; o]) (tget Op d [o]).
Proof. exact @plsr_predict_shift. Qed.
Print Assumptions C19_plsr_predict_shift.

(* over R: the mean of shifted data is the shifted mean, hence fit on shifted data is the same term *)
Theorem C19_mean_shift : forall (X c : tensor R) (n : nat) (sx : list nat), shape X = n :: sx -> 0 < n ->
  mean0 Rops (shift Rops X c) = tadd Rops (mean0 Rops X) c.
Proof. exact mean0_shift. Qed.
Print Assumptions C19_mean_shift.

Theorem C19_plsr_shift_invariance : forall
  (inner : tensor R -> tensor R -> list (tensor R) * tensor R) (lstsq : list (list R) -> list R -> list R)
  (ncomp : nat) (X Y c d : tensor R) (n : nat) (sx : list nat) (m : nat),
  shape X = n :: sx -> shape Y = [n; m] -> 0 < n ->
  let p := fit Rops inner lstsq ncomp X Y in
  let p' := fit Rops inner lstsq ncomp (shift Rops X c) (shift Rops Y d) in
  comps p' = comps p /\ loadings p' = loadings p /\ fitted_scores p' = fitted_scores p /\
  forall Xn i o, sshape Xn = sx -> i < nsamp Xn -> o < m ->
    tget Rops (fit_predict Rops p' (shift Rops Xn c)) [i; o] = (tget Rops (fit_predict Rops p Xn) [i; o] + tget Rops d [o])%R.
Proof. exact plsr_shift_invariance. Qed.
Print Assumptions C19_plsr_shift_invariance.

(* non-vacuity: Z is an instance; a 2-sample 2x2 problem with a vector-valued target *)
Example C19_Z_is_ring : is_ring Zops.
Proof. exact Zth. Qed.
Example C19_nonvacuous :
  let X := mk [2; 2; 2] [1; 2; 3; 4; 5; 6; 7; 8]%Z in
  let W := mk [2; 2; 3] [1; 0; 2; 0; 1; 0; 3; 0; 0; 1; 1; 1]%Z in
  wf X /\ wf W /\ shape W = [2; 2] ++ [3] /\
  predict_cp Zops W X = Ok (mk [2; 3] [14; 6; 6; 34; 14; 18]%Z).
Proof. cbv zeta. repeat split; vm_compute; reflexivity. Qed.

Example C19_R_is_ring : is_ring Rops.
Proof. exact RTheory. Qed.
(* the model of transform / predict of CP_PLSR computes (Z instance): 3 samples of shape 2, one component *)
Example C19_plsr_nonvacuous :
  let X := mk [3; 2] [1; 2; 3; 5; 8; 2]%Z in
  let xm := mk [2] [4; 3]%Z in
  let loads := [[mk [2] [1; -1]%Z]] in
  shape xm = sshape X /\ rows_ok 3 [2; 0; 1] /\
  transform Zops xm loads X = mk [3; 1] [-2; -3; 5]%Z /\
  transform Zops xm loads (perm_samples Zops [2; 0; 1] X) = mk [3; 1] [5; -2; -3]%Z.
Proof.
  cbv zeta. split; [reflexivity|]. split.
  - intros i Hi. destruct i as [|[|[|i]]]; simpl; lia.
  - split; vm_compute; reflexivity.
Qed.
