(* C20 -- property theorems only.  Statements are about the model of tensorly/metrics (Model/Metrics.v)
   instantiated at the real numbers (Rops); the executed instance is Qops.  Column norms enter as data with
   the contract norms_valid (n > 0, n^2 = sum of squares); linear_sum_assignment is the oracle `assign`
   with contract lsa_contract (a maximum-weight perfect matching). *)
From Coq Require Import List Arith Bool Reals QArith Lia Lra ZArith.
From TLV Require Import Base.Shape Base.PyList Base.Tensor Base.Ops Base.RSum Model.Metrics Proofs.MetricsProofs
  Proofs.MetricsProofs2 Proofs.MetricsProofs3 Proofs.MetricsProofs4 Proofs.MetricsProofs5 Proofs.MetricsProofs6
  Proofs.MetricsProofs7 Proofs.MetricsProofs8.
Import ListNotations.
Local Close Scope Q_scope.
Local Open Scope R_scope.

(* the brute-force search space contains every permutation of 0..n-1, and nothing else *)
Theorem C20_all_perms_complete : forall (n : nat) (p : list nat),
  length p = n -> NoDup p -> (forall k, In k p -> (k < n)%nat) -> In p (all_perms n).
Proof. intros n p H1 H2 H3. apply all_perms_complete. repeat split; assumption. Qed.
Print Assumptions C20_all_perms_complete.

Theorem C20_all_perms_sound : forall (n : nat) (p : list nat), In p (all_perms n) -> is_perm n p.
Proof. exact all_perms_sound. Qed.
Print Assumptions C20_all_perms_sound.

(* the brute force attains the maximum of the mean congruence over ALL matchings, for every matrix *)
Theorem C20_best_perm_max : forall (r : nat) (C : mat R) (p : list nat),
  is_perm r p -> score Rops r C p <= score Rops r C (best_perm Rops r C) /\ is_perm r (best_perm Rops r C).
Proof. intros r C p H. split; [now apply best_perm_max | apply best_perm_is_perm]. Qed.
Print Assumptions C20_best_perm_max.

(* OPTIMALITY OF THE RETURNED MATCHING.  scipy's linear_sum_assignment is an oracle, so the clause "returns the maximum over
   all column matchings" is NOT proved about the code path: in the theorems named ..._given_lsa it is the hypothesis
   lsa_contract itself.  What is proved without any assumption on the oracle: C20_best_perm_max (the brute force is optimal),
   C20_checked_assignment_optimal (the check executed in Coq on EVERY correspondence case -- score of the returned matching =
   score of the brute-force optimum -- implies that the returned matching dominates every matching) and
   C20_congruence_brute_force_is_max (the model with the brute force in place of the oracle returns the maximum). *)
Theorem C20_checked_assignment_optimal : forall (r : nat) (C : mat R) (p : list nat),
  score Rops r C p = score Rops r C (best_perm Rops r C) -> forall q, is_perm r q -> score Rops r C q <= score Rops r C p.
Proof. exact checked_assignment_optimal. Qed.
Print Assumptions C20_checked_assignment_optimal.

Theorem C20_congruence_brute_force_is_max : forall (absv : bool) (As Bs : list (mat R)) (nas nbs : list (list R)) (v : R) (p : list nat),
  congruence Rops absv As Bs nas nbs (fun C => best_perm Rops (nrows C) C) = Ok (v, p) ->
  let r := ncols (hd [] As) in let C := cong_all Rops absv r (zip_modes As Bs nas nbs) in
  is_perm r p /\ v = score Rops r C p /\ forall q, is_perm r q -> score Rops r C q <= v.
Proof. exact congruence_brute_force_is_max. Qed.
Print Assumptions C20_congruence_brute_force_is_max.

(* congruence_coefficient returns the maximum over all column matchings together with a permutation attaining
   it, PROVIDED the assignment oracle meets its contract (which every run re-checks against best_perm) *)
Theorem C20_congruence_is_max_given_lsa : forall (absv : bool) (As Bs : list (mat R)) (nas nbs : list (list R))
  (assign : mat R -> list nat) (v : R) (p : list nat),
  congruence Rops absv As Bs nas nbs assign = Ok (v, p) -> lsa_contract assign ->
  let r := ncols (hd [] As) in let C := cong_all Rops absv r (zip_modes As Bs nas nbs) in
  is_perm r p /\ v = score Rops r C p /\ v = score Rops r C (best_perm Rops r C) /\
  forall q, is_perm r q -> score Rops r C q <= v.
Proof. exact congruence_is_max. Qed.
Print Assumptions C20_congruence_is_max_given_lsa.

(* every cosine is bounded by 1 (Cauchy-Schwarz), hence the coefficient of ANY matching lies in [-1,1],
   and in [0,1] when absolute values are used *)
Theorem C20_cosine_bound : forall (r : nat) (m : cmode R) (i j : nat),
  mode_ok r m -> (i < r)%nat -> (j < r)%nat -> Rabs (cosine m i j) <= 1.
Proof. exact cosine_bound. Qed.
Print Assumptions C20_cosine_bound.

Theorem C20_congruence_range : forall (absv : bool) (As Bs : list (mat R)) (nas nbs : list (list R))
  (assign : mat R -> list nat) (v : R) (p : list nat),
  congruence Rops absv As Bs nas nbs assign = Ok (v, p) -> tape_valid (zip_modes As Bs nas nbs) ->
  is_perm (ncols (hd [] As)) p -> -1 <= v <= 1 /\ (absv = true -> 0 <= v).
Proof. exact congruence_range. Qed.
Print Assumptions C20_congruence_range.

(* ---------- column-permuted / column-rescaled (sign-flipped) copies ---------- *)
(* column j of B a non-zero multiple of column i of A  =>  their cosine is the sign of the multiplier *)
Theorem C20_cosine_of_multiple : forall (r : nat) (m : cmode R) (i j : nat) (d : R),
  mode_ok r m -> (i < r)%nat -> (j < r)%nat -> col_multiple m i j d -> cosine m i j = d / Rabs d.
Proof. exact cosine_of_multiple. Qed.
Print Assumptions C20_cosine_of_multiple.

(* equivalent_by absv r ms rec: rec is a permutation and, in every mode, column rec[i] of B is a non-zero multiple of
   column i of A (a positive multiple when absolute_value is off).  Then the coefficient is 1, the recovering
   permutation attains it, so does the returned one, and (absolute values) the returned matching pairs columns
   with |cosine| = 1 in every mode.  Conditional on the oracle contract like C20_congruence_is_max. *)
Theorem C20_congruence_equiv_one_given_lsa : forall (absv : bool) (As Bs : list (mat R)) (nas nbs : list (list R))
  (assign : mat R -> list nat) (v : R) (p rec : list nat),
  congruence Rops absv As Bs nas nbs assign = Ok (v, p) -> tape_valid (zip_modes As Bs nas nbs) -> lsa_contract assign ->
  let r := ncols (hd [] As) in let ms := zip_modes As Bs nas nbs in
  (0 < r)%nat -> equivalent_by absv r ms rec ->
  v = 1 /\ score Rops r (cong_all Rops absv r ms) rec = 1 /\ score Rops r (cong_all Rops absv r ms) p = 1 /\
  (absv = true -> forall i m, (i < r)%nat -> In m ms -> Rabs (cosine m i (nth i p 0%nat)) = 1).
Proof. exact congruence_equiv_one. Qed.
Print Assumptions C20_congruence_equiv_one_given_lsa.

(* no oracle involved: ANY matching of mean congruence 1 pairs collinear columns in every mode *)
Theorem C20_score_one_aligned : forall (r : nat) (ms : list (cmode R)) (p : list nat),
  (0 < r)%nat -> Forall (mode_ok r) ms -> is_perm r p -> score Rops r (cong_all Rops true r ms) p = 1 ->
  forall i m, (i < r)%nat -> In m ms -> Rabs (cosine m i (nth i p 0%nat)) = 1.
Proof. exact score_one_aligned. Qed.
Print Assumptions C20_score_one_aligned.

(* cp_permute_factors: weights and factor columns are permuted by the returned permutation, and for an equivalent
   tensor component i of the result (= column p[i] of the input) is collinear with component i of the reference *)
Theorem C20_cp_permute_aligned_given_lsa : forall (ref fs : list (mat R)) (w : list R) (nas nbs : list (list R))
  (assign : mat R -> list nat) (w' : list R) (fs' : list (mat R)) (p rec : list nat),
  cp_permute_factors Rops ref fs w nas nbs assign = Ok (w', fs', p) ->
  tape_valid (zip_modes ref fs nas nbs) -> lsa_contract assign ->
  let r := ncols (hd [] ref) in let ms := zip_modes ref fs nas nbs in
  (0 < r)%nat -> equivalent_by true r ms rec ->
  is_perm r p /\ w' = map (fun k => nth k w 0) p /\ fs' = map (permute_cols Rops p) fs /\
  (forall i m, (i < r)%nat -> In m ms -> Rabs (cosine m i (nth i p 0%nat)) = 1).
Proof. exact cp_permute_aligned. Qed.
Print Assumptions C20_cp_permute_aligned_given_lsa.

(* ---------- leverage scores ---------- *)
(* U: left factor of the thin SVD (oracle), unit-norm columns.  The returned vector has one entry per row, is
   non-negative and sums to one -- whatever numerical rank the cut selects *)
Theorem C20_leverage_simplex : forall (U : mat R) (sv : list R) (nr nc : nat) (eps : R) (l : list R),
  leverage_score_dist Rops U sv nr nc eps = Ok l ->
  (forall j, (j < length sv)%nat -> rsum nr (fun i => (mget Rops U i j) ^ 2) = 1) ->
  length l = nr /\ Forall (fun x => 0 <= x) l /\ fsum Rops l = 1.
Proof. exact leverage_score_dist_simplex. Qed.
Print Assumptions C20_leverage_simplex.

(* ---------- correlation index, all four methods ---------- *)
Theorem C20_corrindex_range : forall (meth : cmethod) (tol : R) (f1s f2s : list (mat R)) (n1s n2s : list (list R)) (v : R),
  correlation_index Rops (Some meth) tol f1s f2s n1s n2s = Ok v ->
  tape_valid (ci_modes meth f1s f2s n1s n2s) -> 0 <= v <= 1.
Proof. exact correlation_index_range. Qed.
Print Assumptions C20_corrindex_range.

(* cols_covered m r: every column of A has a partner of |cosine| 1 in B and vice versa.  ci_modes = the pairs the
   method compares (the stacked matrices for Stacked, the modes otherwise) *)
Theorem C20_corrindex_zero : forall (meth : cmethod) (tol : R) (f1s f2s : list (mat R)) (n1s n2s : list (list R)) (v : R),
  correlation_index Rops (Some meth) tol f1s f2s n1s n2s = Ok v ->
  tape_valid (ci_modes meth f1s f2s n1s n2s) ->
  (forall m, In m (ci_modes meth f1s f2s n1s n2s) -> cols_covered m (ncols (mA m))) -> v = 0.
Proof. exact correlation_index_zero. Qed.
Print Assumptions C20_corrindex_zero.

Theorem C20_equivalent_covered : forall (r : nat) (m : cmode R) (rec : list nat),
  mode_ok r m -> equivalent_by true r [m] rec -> cols_covered m r.
Proof. exact equivalent_covered. Qed.
Print Assumptions C20_equivalent_covered.

(* the converse ("0 exactly for equivalent sets") needs a non-positive threshold: with the default tol = 5e-16 > 0 the
   code maps every index below tol to 0 by design, so the converse is false there.  Hence the suffix _partial.
   stacked / max_score / avg_score: EVERY compared pair is covered; min_score: SOME compared pair is. *)
Theorem C20_corrindex_zero_only_if_covered_partial : forall (meth : cmethod) (tol : R) (f1s f2s : list (mat R))
  (n1s n2s : list (list R)) (v : R),
  meth <> MinScore ->
  correlation_index Rops (Some meth) tol f1s f2s n1s n2s = Ok v -> tol <= 0 ->
  tape_valid (ci_modes meth f1s f2s n1s n2s) -> v = 0 ->
  forall m, In m (ci_modes meth f1s f2s n1s n2s) -> (0 < ncols (mA m))%nat -> cols_covered m (ncols (mA m)).
Proof. exact correlation_index_zero_inv_all. Qed.
Print Assumptions C20_corrindex_zero_only_if_covered_partial.

Theorem C20_corrindex_zero_min_score_partial : forall (tol : R) (f1s f2s : list (mat R)) (n1s n2s : list (list R)) (v : R),
  correlation_index Rops (Some MinScore) tol f1s f2s n1s n2s = Ok v -> tol <= 0 ->
  tape_valid (ci_modes MinScore f1s f2s n1s n2s) -> v = 0 -> ci_modes MinScore f1s f2s n1s n2s <> [] ->
  exists m, In m (ci_modes MinScore f1s f2s n1s n2s) /\ ((0 < ncols (mA m))%nat -> cols_covered m (ncols (mA m))).
Proof. exact correlation_index_zero_inv_min. Qed.
Print Assumptions C20_corrindex_zero_min_score_partial.

(* ---------- equality case of Cauchy-Schwarz: aligned = collinear ---------- *)
Theorem C20_cosine_one_iff_collinear : forall (r : nat) (m : cmode R) (i j : nat),
  mode_ok r m -> (i < r)%nat -> (j < r)%nat ->
  (Rabs (cosine m i j) = 1 <-> exists d, col_multiple m i j d).
Proof. exact cosine_one_iff_collinear. Qed.
Print Assumptions C20_cosine_one_iff_collinear.

Theorem C20_score_one_collinear : forall (r : nat) (ms : list (cmode R)) (p : list nat),
  (0 < r)%nat -> Forall (mode_ok r) ms -> is_perm r p -> score Rops r (cong_all Rops true r ms) p = 1 ->
  forall i m, (i < r)%nat -> In m ms -> exists d, col_multiple m i (nth i p 0%nat) d.
Proof. exact score_one_collinear. Qed.
Print Assumptions C20_score_one_collinear.

(* component i of every permuted factor is a non-zero multiple of component i of the reference factor *)
Theorem C20_cp_permute_collinear_given_lsa : forall (ref fs : list (mat R)) (w : list R) (nas nbs : list (list R))
  (assign : mat R -> list nat) (w' : list R) (fs' : list (mat R)) (p rec : list nat),
  cp_permute_factors Rops ref fs w nas nbs assign = Ok (w', fs', p) ->
  tape_valid (zip_modes ref fs nas nbs) -> lsa_contract assign ->
  let r := ncols (hd [] ref) in let ms := zip_modes ref fs nas nbs in
  (0 < r)%nat -> equivalent_by true r ms rec ->
  is_perm r p /\ w' = map (fun k => nth k w 0) p /\ fs' = map (permute_cols Rops p) fs /\
  (forall i m, (i < r)%nat -> In m ms -> exists d, d <> 0 /\
     forall k, (k < nrows (mB m))%nat -> mget Rops (permute_cols Rops p (mB m)) k i = d * mget Rops (mA m) k i).
Proof. exact cp_permute_collinear. Qed.
Print Assumptions C20_cp_permute_collinear_given_lsa.

(* ---------- cp_permute_factors on a list of tensors: each one is treated exactly as if passed alone ---------- *)
Theorem C20_cp_permute_list_spec : forall (ref : list (mat R)) (nas : list (list R))
  (ts : list (list R * list (mat R) * list (list R))) (assign : mat R -> list nat)
  (outs : list (list R * list (mat R) * list nat)),
  cp_permute_factors_list Rops ref nas ts assign = Ok outs ->
  Forall2 (fun t out => cp_permute_factors Rops ref (snd (fst t)) (fst (fst t)) nas (snd t) assign = Ok out) ts outs.
Proof. exact cp_permute_list_spec. Qed.
Print Assumptions C20_cp_permute_list_spec.

Theorem C20_cp_permute_list_err : forall (ref : list (mat R)) (nas : list (list R))
  (ts : list (list R * list (mat R) * list (list R))) (assign : mat R -> list nat),
  cp_permute_factors_list Rops ref nas ts assign = Err <->
  exists t, In t ts /\ cp_permute_factors Rops ref (snd (fst t)) (fst (fst t)) nas (snd t) assign = Err.
Proof. exact cp_permute_list_err. Qed.
Print Assumptions C20_cp_permute_list_err.

(* ---------- regression metrics = their documented definitions (tensorly's forms; R2_score is the UNCENTRED
   1 - |Xp - Xo|^2 / |Xo|^2, not the textbook R^2), every shape, every axis ---------- *)
(* mean_of n f = (sum_{k<n} f k) / n.  axis=None: k runs over the flat (row-major) data *)
Theorem C20_MSE_none_def : forall (yt yp : tensor R), shape yp = shape yt ->
  tget Rops (MSE Rops None yt yp) [] =
  mean_of (prod (shape yt)) (fun k => (nth k (data yt) 0 - nth k (data yp) 0) ^ 2).
Proof. exact MSE_none_def. Qed.
Print Assumptions C20_MSE_none_def.

(* axis=a: the entry at idx (an index of the shape with axis a removed) is the mean over k of the entries at idx
   with k inserted at position a *)
Theorem C20_MSE_axis_def : forall (yt yp : tensor R) (a : nat), (a < ndim yt)%nat ->
  forall idx, inb (remove_nth a (shape yt)) idx ->
  tget Rops (MSE Rops (Some a) yt yp) idx =
  mean_of (nth a (shape yt) 0%nat) (fun k => (tget Rops yt (insert_at a k idx) - tget Rops yp (insert_at a k idx)) ^ 2).
Proof. exact MSE_axis_def. Qed.
Print Assumptions C20_MSE_axis_def.

Theorem C20_covariance_none_def : forall (yt yp : tensor R), wf yt -> wf yp -> shape yp = shape yt ->
  tget Rops (covariance Rops None yt yp) [] =
  mean_of (prod (shape yt)) (fun k =>
    (nth k (data yt) 0 - mean_of (prod (shape yt)) (fun k0 => nth k0 (data yt) 0)) *
    (nth k (data yp) 0 - mean_of (prod (shape yt)) (fun k0 => nth k0 (data yp) 0))).
Proof. exact covariance_none_def. Qed.
Print Assumptions C20_covariance_none_def.

Theorem C20_covariance_axis_def : forall (yt yp : tensor R), wf yt -> wf yp -> shape yp = shape yt ->
  forall a, (a < ndim yt)%nat -> forall idx, inb (remove_nth a (shape yt)) idx ->
  let n := nth a (shape yt) 0%nat in
  tget Rops (covariance Rops (Some a) yt yp) idx =
  mean_of n (fun k =>
    (tget Rops yt (insert_at a k idx) - mean_of n (fun k0 => tget Rops yt (insert_at a k0 idx))) *
    (tget Rops yp (insert_at a k idx) - mean_of n (fun k0 => tget Rops yp (insert_at a k0 idx)))).
Proof. exact covariance_axis_def. Qed.
Print Assumptions C20_covariance_axis_def.

(* variance(y) is covariance(y, y) -- in the code and in the model *)
Theorem C20_variance_is_covariance : forall (ax : option nat) (y : tensor R), variance Rops ax y = covariance Rops ax y y.
Proof. exact variance_is_covariance. Qed.
Print Assumptions C20_variance_is_covariance.

(* cov^2 <= var * var for the definitions (f, g = centred slices), hence |correlation| <= 1 wherever defined *)
Theorem C20_cov_sq_le_var_var : forall (n : nat) (f g : nat -> R),
  (mean_of n (fun k => f k * g k)) ^ 2 <= mean_of n (fun k => f k * f k) * mean_of n (fun k => g k * g k).
Proof. exact cov_sq_le_var_var. Qed.
Print Assumptions C20_cov_sq_le_var_var.

(* RMSE / standard_deviation / correlation / reflective correlation go through sqrt, which the executed model does not
   contain: the correspondence checks  v >= 0, v^2 = x  resp.  den > 0, c^2 den = num^2, c num >= 0 ; these relations
   determine the value *)
Theorem C20_root_characterised : forall v x : R, 0 <= v -> v ^ 2 = x -> v = sqrt x.
Proof. exact root_characterised. Qed.
Print Assumptions C20_root_characterised.

Theorem C20_ratio_characterised : forall c num den : R, 0 < den -> c ^ 2 * den = num ^ 2 -> 0 <= c * num -> c = num / sqrt den.
Proof. exact ratio_characterised. Qed.
Print Assumptions C20_ratio_characterised.

Theorem C20_correlation_bound : forall c num den : R, 0 < den -> c ^ 2 * den = num ^ 2 -> num ^ 2 <= den -> Rabs c <= 1.
Proof. exact correlation_bound. Qed.
Print Assumptions C20_correlation_bound.

Theorem C20_R2_def_and_bound : forall (xo xp : tensor R), wf xo -> wf xp -> shape xp = shape xo ->
  R2_score Rops xo xp =
    1 - rsum (prod (shape xo)) (fun k => (nth k (data xp) 0 - nth k (data xo) 0) ^ 2) /
        rsum (prod (shape xo)) (fun k => (nth k (data xo) 0) ^ 2) /\
  (0 < rsum (prod (shape xo)) (fun k => (nth k (data xo) 0) ^ 2) -> R2_score Rops xo xp <= 1).
Proof. exact R2_def_and_bound. Qed.
Print Assumptions C20_R2_def_and_bound.

(* the tensors the code combines in `correlation`: numerator = covariance, radicand = variance * variance.
   num^2 <= den entry by entry (and both variances >= 0), so with C20_correlation_bound |correlation| <= 1 *)
Theorem C20_corr_parts_axis_bound : forall (yt yp : tensor R), wf yt -> wf yp -> shape yp = shape yt ->
  forall a idx, (a < ndim yt)%nat -> inb (remove_nth a (shape yt)) idx ->
  let parts := corr_parts Rops (Some a) yt yp in
  (tget Rops (fst parts) idx) ^ 2 <= tget Rops (snd parts) idx /\
  0 <= tget Rops (variance Rops (Some a) yt) idx /\ 0 <= tget Rops (variance Rops (Some a) yp) idx.
Proof. exact corr_parts_axis_bound. Qed.
Print Assumptions C20_corr_parts_axis_bound.

Theorem C20_corr_parts_none_bound : forall (yt yp : tensor R), wf yt -> wf yp -> shape yp = shape yt ->
  let parts := corr_parts Rops None yt yp in
  (tget Rops (fst parts) []) ^ 2 <= tget Rops (snd parts) [] /\
  0 <= tget Rops (variance Rops None yt) [] /\ 0 <= tget Rops (variance Rops None yp) [].
Proof. exact corr_parts_none_bound. Qed.
Print Assumptions C20_corr_parts_none_bound.

(* leverage scores incl. the renormalisation branch taken for lower-precision input: with unit-norm columns the
   result is a probability vector and the renormalisation changes nothing; and renormalising ANY raw score vector
   with a positive sum (U need not be exactly orthonormal, as in float32) yields a probability vector *)
Theorem C20_leverage_any_simplex : forall (renorm : bool) (U : mat R) (sv : list R) (nr nc : nat) (eps : R) (l : list R),
  leverage_score_dist_any Rops renorm U sv nr nc eps = Ok l ->
  (forall j, (j < length sv)%nat -> rsum nr (fun i => (mget Rops U i j) ^ 2) = 1) ->
  length l = nr /\ Forall (fun x => 0 <= x) l /\ fsum Rops l = 1 /\ leverage_score_dist Rops U sv nr nc eps = Ok l.
Proof. exact leverage_any_simplex. Qed.
Print Assumptions C20_leverage_any_simplex.

Theorem C20_leverage_renorm_simplex : forall (U : mat R) (sv : list R) (nr nc : nat) (eps : R) (l0 l : list R),
  leverage_score_dist Rops U sv nr nc eps = Ok l0 -> leverage_score_dist_any Rops true U sv nr nc eps = Ok l ->
  0 < fsum Rops l0 -> Forall (fun x => 0 <= x) l /\ fsum Rops l = 1.
Proof. exact leverage_renorm_simplex. Qed.
Print Assumptions C20_leverage_renorm_simplex.

(* the axis argument as passed by the caller (an integer, possibly negative) is normalised NumPy-style before the
   metrics above are applied: accepted exactly for -ndim <= axis < ndim, negative values count from the end *)
Theorem C20_norm_axis_spec : forall (z : BinNums.Z) (nd : nat),
  match norm_axis z nd with
  | Ok a => (a < nd)%nat /\ ((0 <= z)%Z /\ Z.of_nat a = z \/ (z < 0)%Z /\ Z.of_nat a = (z + Z.of_nat nd)%Z)
  | Err => (z < - Z.of_nat nd)%Z \/ (Z.of_nat nd <= z)%Z
  end.
Proof. exact norm_axis_spec. Qed.
Print Assumptions C20_norm_axis_spec.

(* ---------- non-vacuity ---------- *)
(* the oracle contract is satisfiable: the brute force itself meets it *)
Example C20_ex_lsa_contract : lsa_contract (fun C => best_perm Rops (nrows C) C).
Proof. intros r C <-. split; [apply best_perm_is_perm | intros q Hq; now apply best_perm_max]. Qed.

Example C20_ex_all_perms : all_perms 3 = [[0; 1; 2]; [1; 0; 2]; [1; 2; 0]; [0; 2; 1]; [2; 0; 1]; [2; 1; 0]]%nat.
Proof. reflexivity. Qed.

(* a mode satisfying mode_ok whose B column is -2 times the A column; the recovering permutation is [0] *)
Definition C20_ex_mode : cmode R := mkMode [[3]; [4]] [[-6]; [-8]] [5] [10].
Example C20_ex_mode_ok : mode_ok 1 C20_ex_mode /\ col_multiple C20_ex_mode 0 0 (-2) /\ equivalent_by true 1 [C20_ex_mode] [0%nat].
Proof.
  assert (M : mode_ok 1 C20_ex_mode).
  { unfold mode_ok, norms_valid, C20_ex_mode. cbn [mA mB nA nB].
    split; [reflexivity|]. split; [reflexivity|]. split; [reflexivity|].
    split; intros j Hj; (assert (j = 0%nat) as -> by (cbn in Hj; lia)); cbn; lra. }
  assert (K : col_multiple C20_ex_mode 0 0 (-2)).
  { split; [lra|]. intros k Hk. cbn in Hk. destruct k as [|[|k]]; cbn; try lra. lia. }
  split; [exact M|]. split; [exact K|]. split; [apply is_perm_id|].
  intros i Hi m [<-|[]]. assert (i = 0%nat) as -> by lia. exists (-2). split; [exact K | discriminate].
Qed.

(* the executed instance accepts such an input and returns 1 with the recovering permutation *)
Local Open Scope Q_scope.
Example C20_ex_congruence_Q :
  congruence Qops true [[[3#1]; [4#1]]] [[[-6#1]; [-8#1]]] [[5#1]] [[10#1]] (fun _ => [0%nat]) = Ok (1%Q, [0%nat]).
Proof. vm_compute. reflexivity. Qed.

Example C20_ex_corrindex_Q :
  correlation_index Qops (Some AvgScore) (0#1) [[[3#1]; [4#1]]] [[[-6#1]; [-8#1]]] [[5#1]] [[10#1]] = Ok 0%Q.
Proof. vm_compute. reflexivity. Qed.

(* unit-norm columns: leverage scores of U = e_1 (2 x 1) *)
Example C20_ex_norm_axis : norm_axis (-1) 3 = Ok 2%nat /\ norm_axis (-3) 3 = Ok 0%nat /\ norm_axis (-4) 3 = Err /\ norm_axis 3 3 = Err.
Proof. vm_compute. repeat split. Qed.

Example C20_ex_leverage_Q : leverage_score_dist Qops [[1#1]; [0#1]] [2#1] 2 1 (1#1000) = Ok [1%Q; 0%Q].
Proof. vm_compute. reflexivity. Qed.

(* executed instances of the regression model and of the list loop *)
Example C20_ex_MSE_axis_Q : MSE Qops (Some 0%nat) (mk [2; 2]%nat [1; 2; 3; 4]) (mk [2; 2]%nat [0; 0; 0; 0]) = mk [2]%nat [5; 10].
Proof. vm_compute. reflexivity. Qed.
Example C20_ex_cov_axis_Q : covariance Qops (Some 1%nat) (mk [2; 2]%nat [1; 3; 2; 6]) (mk [2; 2]%nat [0; 2; 1; 1]) = mk [2]%nat [1; 0].
Proof. vm_compute. reflexivity. Qed.
Example C20_ex_permute_list_Q :
  cp_permute_factors_list Qops [[[3#1]; [4#1]]] [[5#1]] [([2#1], [[[-6#1]; [-8#1]]], [[10#1]]); ([7#1], [[[4#1]; [3#1]]], [[5#1]])]
    (fun _ => [0%nat]) = Ok [([2#1], [[[-6#1]; [-8#1]]], [0%nat]); ([7#1], [[[4#1]; [3#1]]], [0%nat])].
Proof. vm_compute. reflexivity. Qed.
