(* C20 -- property theorems only.  Statements are about the model of tensorly/metrics (Model/Metrics.v)
   instantiated at the real numbers (Rops); the executed instance is Qops.  Column norms enter as data with
   the contract norms_valid (n > 0, n^2 = sum of squares); linear_sum_assignment is the oracle `assign`
   with contract lsa_contract (a maximum-weight perfect matching) in the theorems named _given_lsa; the optimality of a
   concrete answer is decided WITHOUT that contract by the brute force (C20_checked_assignment_optimal) or by a dual
   certificate (C20_dual_certificate_optimal).  The square root of the sqrt-based regression metrics is an argument of their
   model functions (here: sqrt). *)
From Coq Require Import List Arith Bool Reals QArith Lia Lra ZArith.
From TLV Require Import Base.Shape Base.PyList Base.Tensor Base.Ops Base.RSum Model.Metrics Model.MetricsSrc Proofs.MetricsProofs
  Proofs.MetricsProofs2 Proofs.MetricsProofs3 Proofs.MetricsProofs4 Proofs.MetricsProofs5 Proofs.MetricsProofs6
  Proofs.MetricsProofs7 Proofs.MetricsProofs8 Proofs.MetricsProofs9 Proofs.MetricsProofs10 Proofs.MetricsProofs11 Proofs.MetricsProofs12 Proofs.MetricsProofs13 Proofs.MetricsProofs14 Proofs.MetricsProofs15 Proofs.MetricsProofs16 Proofs.MetricsProofs17 Proofs.MetricsProofs18 Proofs.MetricsProofs19 Proofs.MetricsProofs20 Proofs.MetricsProofs21 Proofs.MetricsProofs22 Proofs.MetricsProofs23 Proofs.MetricsProofs24 Proofs.MetricsSrcTie Model.MetricsPermute Model.MetricsAxis.
Import ListNotations.
Local Close Scope Q_scope.
Local Open Scope R_scope.

(* the brute-force search space contains every permutation of 0..n-1, and nothing else *)
Theorem C20_all_perms_complete : forall (n : nat) (p : list nat),
  length p = n -> NoDup p -> (forall k, In k p -> (k < n)%nat) -> In p (all_perms n).
Proof. intros n p H1 H2 H3. apply all_perms_complete. repeat split; assumption. Qed.
Print Assumptions C20_all_perms_complete.

Theorem C20_all_perms_sound : forall (n : nat) (p : list nat), In p (all_perms n) -> is_perm n p.
Proof. exact all_perms_sound. Qed.
Print Assumptions C20_all_perms_sound.

(* the brute force attains the maximum of the mean congruence over ALL matchings, for every matrix *)
Theorem C20_best_perm_max : forall (r : nat) (C : mat R) (p : list nat),
  is_perm r p -> score Rops r C p <= score Rops r C (best_perm Rops r C) /\ is_perm r (best_perm Rops r C).
Proof. intros r C p H. split; [now apply best_perm_max | apply best_perm_is_perm]. Qed.
Print Assumptions C20_best_perm_max.

(* OPTIMALITY OF THE RETURNED MATCHING.  scipy's linear_sum_assignment is an oracle, so the clause "returns the maximum over
   all column matchings" is NOT proved about the code path: in the theorems named ..._given_lsa it is the hypothesis
   lsa_contract itself.  What is proved without any assumption on the oracle: C20_best_perm_max (the brute force is optimal),
   C20_checked_assignment_optimal (the check executed in Coq on EVERY correspondence case -- score of the returned matching =
   score of the brute-force optimum -- implies that the returned matching dominates every matching) and
   C20_congruence_brute_force_is_max (the model with the brute force in place of the oracle returns the maximum). *)
Theorem C20_checked_assignment_optimal : forall (r : nat) (C : mat R) (p : list nat),
  score Rops r C p = score Rops r C (best_perm Rops r C) -> forall q, is_perm r q -> score Rops r C q <= score Rops r C p.
Proof. exact checked_assignment_optimal. Qed.
Print Assumptions C20_checked_assignment_optimal.

Theorem C20_congruence_brute_force_is_max : forall (absv : bool) (As Bs : list (mat R)) (nas nbs : list (list R)) (v : R) (p : list nat),
  congruence Rops absv As Bs nas nbs (fun C => best_perm Rops (nrows C) C) = Ok (v, p) ->
  let r := ncols (hd [] As) in let C := cong_all Rops absv r (zip_modes As Bs nas nbs) in
  is_perm r p /\ v = score Rops r C p /\ forall q, is_perm r q -> score Rops r C q <= v.
Proof. exact congruence_brute_force_is_max. Qed.
Print Assumptions C20_congruence_brute_force_is_max.

(* congruence_coefficient returns the maximum over all column matchings together with a permutation attaining
   it, PROVIDED the assignment oracle meets its contract (which every run re-checks against best_perm) *)
Theorem C20_congruence_is_max_given_lsa : forall (absv : bool) (As Bs : list (mat R)) (nas nbs : list (list R))
  (assign : mat R -> list nat) (v : R) (p : list nat),
  congruence Rops absv As Bs nas nbs assign = Ok (v, p) -> lsa_contract assign ->
  let r := ncols (hd [] As) in let C := cong_all Rops absv r (zip_modes As Bs nas nbs) in
  is_perm r p /\ v = score Rops r C p /\ v = score Rops r C (best_perm Rops r C) /\
  forall q, is_perm r q -> score Rops r C q <= v.
Proof. exact congruence_is_max. Qed.
Print Assumptions C20_congruence_is_max_given_lsa.

(* CERTIFIED OPTIMALITY, any rank, no assumption on the oracle.  vs = ANY list of column potentials (data); the row potentials
   are u_i = max_j (C_ij - v_j).  Weak LP duality: every perfect matching weighs at most dual_bound = sum u + sum v.  Hence a
   matching whose dual_gap (= dual_bound - its own weight) is at most eps is within eps / r of the maximal mean congruence.
   The correspondence evaluates exactly this gap in Coq on the implementation's returned matching (eps = 1e-9 * r), at ranks
   beyond the reach of the r! brute force as well. *)
Theorem C20_weak_duality : forall (r : nat) (C : mat R) (vs : list R) (q : list nat),
  is_perm r q -> match_weight Rops r C q <= dual_bound Rops r C vs.
Proof. exact weak_duality. Qed.
Print Assumptions C20_weak_duality.

Theorem C20_dual_certificate_optimal : forall (r : nat) (C : mat R) (vs : list R) (p : list nat) (eps : R),
  (0 < r)%nat -> dual_gap Rops r C vs p <= eps ->
  forall q, is_perm r q -> score Rops r C q <= score Rops r C p + eps / INR r.
Proof. exact dual_certificate_optimal. Qed.
Print Assumptions C20_dual_certificate_optimal.

Theorem C20_dual_gap_nonneg_and_zero_optimal : forall (r : nat) (C : mat R) (vs : list R) (p : list nat),
  (is_perm r p -> 0 <= dual_gap Rops r C vs p) /\
  ((0 < r)%nat -> dual_gap Rops r C vs p <= 0 -> forall q, is_perm r q -> score Rops r C q <= score Rops r C p).
Proof. intros r C vs p. split; [apply dual_gap_nonneg | apply dual_gap_zero_optimal]. Qed.
Print Assumptions C20_dual_gap_nonneg_and_zero_optimal.

(* the same through the model of congruence_coefficient with an ARBITRARY assignment oracle: a certified answer is within
   eps / r of the maximum over all column matchings *)
Theorem C20_congruence_certified : forall (absv : bool) (As Bs : list (mat R)) (nas nbs : list (list R))
  (assign : mat R -> list nat) (v : R) (p : list nat) (vs : list R) (eps : R),
  congruence Rops absv As Bs nas nbs assign = Ok (v, p) ->
  let r := ncols (hd [] As) in let C := cong_all Rops absv r (zip_modes As Bs nas nbs) in
  (0 < r)%nat -> dual_gap Rops r C vs p <= eps ->
  v = score Rops r C p /\ forall q, is_perm r q -> score Rops r C q <= v + eps / INR r.
Proof. exact congruence_certified. Qed.
Print Assumptions C20_congruence_certified.

(* every cosine is bounded by 1 (Cauchy-Schwarz), hence the coefficient of ANY matching lies in [-1,1],
   and in [0,1] when absolute values are used *)
Theorem C20_cosine_bound : forall (r : nat) (m : cmode R) (i j : nat),
  mode_ok r m -> (i < r)%nat -> (j < r)%nat -> Rabs (cosine m i j) <= 1.
Proof. exact cosine_bound. Qed.
Print Assumptions C20_cosine_bound.

Theorem C20_congruence_range : forall (absv : bool) (As Bs : list (mat R)) (nas nbs : list (list R))
  (assign : mat R -> list nat) (v : R) (p : list nat),
  congruence Rops absv As Bs nas nbs assign = Ok (v, p) -> tape_valid (zip_modes As Bs nas nbs) ->
  is_perm (ncols (hd [] As)) p -> -1 <= v <= 1 /\ (absv = true -> 0 <= v).
Proof. exact congruence_range. Qed.
Print Assumptions C20_congruence_range.

(* ---------- column-permuted / column-rescaled (sign-flipped) copies ---------- *)
(* column j of B a non-zero multiple of column i of A  =>  their cosine is the sign of the multiplier *)
Theorem C20_cosine_of_multiple : forall (r : nat) (m : cmode R) (i j : nat) (d : R),
  mode_ok r m -> (i < r)%nat -> (j < r)%nat -> col_multiple m i j d -> cosine m i j = d / Rabs d.
Proof. exact cosine_of_multiple. Qed.
Print Assumptions C20_cosine_of_multiple.

(* equivalent_by absv r ms rec: rec is a permutation and, in every mode, column rec[i] of B is a non-zero multiple of
   column i of A (a positive multiple when absolute_value is off).  Then the coefficient is 1, the recovering
   permutation attains it, so does the returned one, and (absolute values) the returned matching pairs columns
   with |cosine| = 1 in every mode.  Conditional on the oracle contract like C20_congruence_is_max. *)
Theorem C20_congruence_equiv_one_given_lsa : forall (absv : bool) (As Bs : list (mat R)) (nas nbs : list (list R))
  (assign : mat R -> list nat) (v : R) (p rec : list nat),
  congruence Rops absv As Bs nas nbs assign = Ok (v, p) -> tape_valid (zip_modes As Bs nas nbs) -> lsa_contract assign ->
  let r := ncols (hd [] As) in let ms := zip_modes As Bs nas nbs in
  (0 < r)%nat -> equivalent_by absv r ms rec ->
  v = 1 /\ score Rops r (cong_all Rops absv r ms) rec = 1 /\ score Rops r (cong_all Rops absv r ms) p = 1 /\
  (absv = true -> forall i m, (i < r)%nat -> In m ms -> Rabs (cosine m i (nth i p 0%nat)) = 1).
Proof. exact congruence_equiv_one. Qed.
Print Assumptions C20_congruence_equiv_one_given_lsa.

(* no oracle involved: ANY matching of mean congruence 1 pairs collinear columns in every mode *)
Theorem C20_score_one_aligned : forall (r : nat) (ms : list (cmode R)) (p : list nat),
  (0 < r)%nat -> Forall (mode_ok r) ms -> is_perm r p -> score Rops r (cong_all Rops true r ms) p = 1 ->
  forall i m, (i < r)%nat -> In m ms -> Rabs (cosine m i (nth i p 0%nat)) = 1.
Proof. exact score_one_aligned. Qed.
Print Assumptions C20_score_one_aligned.

(* cp_permute_factors: weights and factor columns are permuted by the returned permutation, and for an equivalent
   tensor component i of the result (= column p[i] of the input) is collinear with component i of the reference *)
Theorem C20_cp_permute_aligned_given_lsa : forall (ref fs : list (mat R)) (w : list R) (nas nbs : list (list R))
  (assign : mat R -> list nat) (w' : list R) (fs' : list (mat R)) (p rec : list nat),
  cp_permute_factors Rops ref fs w nas nbs assign = Ok (w', fs', p) ->
  tape_valid (zip_modes ref fs nas nbs) -> lsa_contract assign ->
  let r := ncols (hd [] ref) in let ms := zip_modes ref fs nas nbs in
  (0 < r)%nat -> equivalent_by true r ms rec ->
  is_perm r p /\ w' = map (fun k => nth k w 0) p /\ fs' = map (permute_cols Rops p) fs /\
  (forall i m, (i < r)%nat -> In m ms -> Rabs (cosine m i (nth i p 0%nat)) = 1).
Proof. exact cp_permute_aligned. Qed.
Print Assumptions C20_cp_permute_aligned_given_lsa.

(* ---------- invariance under column rescaling (the CP scaling indeterminacy; also what cp_normalize does to the reference
   and to listed tensors inside cp_permute_factors before the congruence is taken) ----------
   rescaled r m m' a b: column i of A is multiplied by a i, column j of B by b j.  The cosine changes by the two signs only;
   modes_rescaled absv r ms ms': mode by mode rescaled by non-zero scalars (positive ones when absolute_value is off).  Then
   the congruence matrix, the mean congruence of every matching and the set of optimal matchings are unchanged. *)
Theorem C20_cosine_rescaled : forall (r : nat) (m m' : cmode R) (a b : nat -> R) (i j : nat),
  mode_ok r m -> mode_ok r m' -> rescaled r m m' a b -> (i < r)%nat -> (j < r)%nat -> a i <> 0 -> b j <> 0 ->
  cosine m' i j = (a i / Rabs (a i)) * (b j / Rabs (b j)) * cosine m i j.
Proof. exact cosine_rescaled. Qed.
Print Assumptions C20_cosine_rescaled.

Theorem C20_congruence_matrix_rescale_invariant : forall (absv : bool) (r : nat) (ms ms' : list (cmode R)) (i j : nat),
  modes_rescaled absv r ms ms' -> (i < r)%nat -> (j < r)%nat ->
  mget Rops (cong_all Rops absv r ms') i j = mget Rops (cong_all Rops absv r ms) i j.
Proof. exact cong_all_rescaled. Qed.
Print Assumptions C20_congruence_matrix_rescale_invariant.

Theorem C20_optimal_matching_rescale_invariant : forall (absv : bool) (r : nat) (ms ms' : list (cmode R)) (p : list nat),
  modes_rescaled absv r ms ms' -> is_perm r p ->
  score Rops r (cong_all Rops absv r ms') p = score Rops r (cong_all Rops absv r ms) p /\
  ((forall q, is_perm r q -> score Rops r (cong_all Rops absv r ms) q <= score Rops r (cong_all Rops absv r ms) p) <->
   (forall q, is_perm r q -> score Rops r (cong_all Rops absv r ms') q <= score Rops r (cong_all Rops absv r ms') p)).
Proof. intros absv r ms ms' p H Hp. split; [now apply score_rescaled | now apply optimal_matching_rescaled]. Qed.
Print Assumptions C20_optimal_matching_rescale_invariant.

(* ---------- leverage scores ---------- *)
(* U: left factor of the thin SVD (oracle), unit-norm columns.  The returned vector has one entry per row, is
   non-negative and sums to one -- whatever numerical rank the cut selects *)
Theorem C20_leverage_simplex : forall (U : mat R) (sv : list R) (nr nc : nat) (eps : R) (l : list R),
  leverage_score_dist Rops U sv nr nc eps = Ok l ->
  (forall j, (j < length sv)%nat -> rsum nr (fun i => (mget Rops U i j) ^ 2) = 1) ->
  length l = nr /\ Forall (fun x => 0 <= x) l /\ fsum Rops l = 1.
Proof. exact leverage_score_dist_simplex. Qed.
Print Assumptions C20_leverage_simplex.

(* ---------- correlation index, all four methods ---------- *)
Theorem C20_corrindex_range : forall (meth : cmethod) (tol : R) (f1s f2s : list (mat R)) (n1s n2s : list (list R)) (v : R),
  correlation_index Rops (Some meth) tol f1s f2s n1s n2s = Ok v ->
  tape_valid (ci_modes meth f1s f2s n1s n2s) -> 0 <= v <= 1.
Proof. exact correlation_index_range. Qed.
Print Assumptions C20_corrindex_range.

(* cols_covered m r: every column of A has a partner of |cosine| 1 in B and vice versa.  ci_modes = the pairs the
   method compares (the stacked matrices for Stacked, the modes otherwise) *)
Theorem C20_corrindex_zero : forall (meth : cmethod) (tol : R) (f1s f2s : list (mat R)) (n1s n2s : list (list R)) (v : R),
  correlation_index Rops (Some meth) tol f1s f2s n1s n2s = Ok v ->
  tape_valid (ci_modes meth f1s f2s n1s n2s) ->
  (forall m, In m (ci_modes meth f1s f2s n1s n2s) -> cols_covered m (ncols (mA m))) -> v = 0.
Proof. exact correlation_index_zero. Qed.
Print Assumptions C20_corrindex_zero.

Theorem C20_equivalent_covered : forall (r : nat) (m : cmode R) (rec : list nat),
  mode_ok r m -> equivalent_by true r [m] rec -> cols_covered m r.
Proof. exact equivalent_covered. Qed.
Print Assumptions C20_equivalent_covered.

(* "0 EXACTLY for equivalent sets", for EVERY threshold.  The code maps a per-pair index below tol to 0 by design (default
   tol = 5e-16), so what it decides is: the pair is NEGLIGIBLE = its raw index (before the threshold, ci_raw) is below tol, or
   the pair is covered.  stacked / max_score / avg_score: the result is 0 iff EVERY compared pair is negligible;
   min_score: iff SOME compared pair is.  With tol <= 0 negligible = covered, i.e. the property's "exactly". *)
Theorem C20_corrindex_zero_iff_negligible : forall (meth : cmethod) (tol : R) (f1s f2s : list (mat R))
  (n1s n2s : list (list R)) (v : R),
  meth <> MinScore ->
  correlation_index Rops (Some meth) tol f1s f2s n1s n2s = Ok v -> tape_valid (ci_modes meth f1s f2s n1s n2s) ->
  (v = 0 <-> forall m, In m (ci_modes meth f1s f2s n1s n2s) ->
               corr_index_raw Rops (mA m) (mB m) (nA m) (nB m) < tol \/ cols_covered m (ncols (mA m))).
Proof. exact correlation_index_zero_iff_all. Qed.
Print Assumptions C20_corrindex_zero_iff_negligible.

Theorem C20_corrindex_zero_iff_negligible_min_score : forall (tol : R) (f1s f2s : list (mat R)) (n1s n2s : list (list R)) (v : R),
  correlation_index Rops (Some MinScore) tol f1s f2s n1s n2s = Ok v ->
  tape_valid (ci_modes MinScore f1s f2s n1s n2s) -> ci_modes MinScore f1s f2s n1s n2s <> [] ->
  (v = 0 <-> exists m, In m (ci_modes MinScore f1s f2s n1s n2s) /\
               (corr_index_raw Rops (mA m) (mB m) (nA m) (nB m) < tol \/ cols_covered m (ncols (mA m)))).
Proof. exact correlation_index_zero_iff_min. Qed.
Print Assumptions C20_corrindex_zero_iff_negligible_min_score.

(* the raw index is non-negative and vanishes exactly on covered pairs; the threshold is the only other way to 0 *)
Theorem C20_corrindex_raw_zero_iff_covered : forall (r : nat) (m : cmode R), mode_ok r m -> (0 < r)%nat ->
  0 <= corr_index_raw Rops (mA m) (mB m) (nA m) (nB m) /\
  (corr_index_raw Rops (mA m) (mB m) (nA m) (nB m) = 0 <-> cols_covered m r).
Proof. exact ci_raw_nonneg_zero. Qed.
Print Assumptions C20_corrindex_raw_zero_iff_covered.

Theorem C20_corrindex_zero_exact_tol0 : forall (meth : cmethod) (tol : R) (f1s f2s : list (mat R))
  (n1s n2s : list (list R)) (v : R),
  meth <> MinScore ->
  correlation_index Rops (Some meth) tol f1s f2s n1s n2s = Ok v -> tol <= 0 ->
  tape_valid (ci_modes meth f1s f2s n1s n2s) ->
  (v = 0 <-> forall m, In m (ci_modes meth f1s f2s n1s n2s) -> cols_covered m (ncols (mA m))).
Proof. exact correlation_index_zero_exact_all. Qed.
Print Assumptions C20_corrindex_zero_exact_tol0.

Theorem C20_corrindex_zero_exact_tol0_min_score : forall (tol : R) (f1s f2s : list (mat R)) (n1s n2s : list (list R)) (v : R),
  correlation_index Rops (Some MinScore) tol f1s f2s n1s n2s = Ok v -> tol <= 0 ->
  tape_valid (ci_modes MinScore f1s f2s n1s n2s) -> ci_modes MinScore f1s f2s n1s n2s <> [] ->
  (v = 0 <-> exists m, In m (ci_modes MinScore f1s f2s n1s n2s) /\ cols_covered m (ncols (mA m))).
Proof. exact correlation_index_zero_exact_min. Qed.
Print Assumptions C20_corrindex_zero_exact_tol0_min_score.

(* ---------- equality case of Cauchy-Schwarz: aligned = collinear ---------- *)
Theorem C20_cosine_one_iff_collinear : forall (r : nat) (m : cmode R) (i j : nat),
  mode_ok r m -> (i < r)%nat -> (j < r)%nat ->
  (Rabs (cosine m i j) = 1 <-> exists d, col_multiple m i j d).
Proof. exact cosine_one_iff_collinear. Qed.
Print Assumptions C20_cosine_one_iff_collinear.

Theorem C20_score_one_collinear : forall (r : nat) (ms : list (cmode R)) (p : list nat),
  (0 < r)%nat -> Forall (mode_ok r) ms -> is_perm r p -> score Rops r (cong_all Rops true r ms) p = 1 ->
  forall i m, (i < r)%nat -> In m ms -> exists d, col_multiple m i (nth i p 0%nat) d.
Proof. exact score_one_collinear. Qed.
Print Assumptions C20_score_one_collinear.

(* component i of every permuted factor is a non-zero multiple of component i of the reference factor *)
Theorem C20_cp_permute_collinear_given_lsa : forall (ref fs : list (mat R)) (w : list R) (nas nbs : list (list R))
  (assign : mat R -> list nat) (w' : list R) (fs' : list (mat R)) (p rec : list nat),
  cp_permute_factors Rops ref fs w nas nbs assign = Ok (w', fs', p) ->
  tape_valid (zip_modes ref fs nas nbs) -> lsa_contract assign ->
  let r := ncols (hd [] ref) in let ms := zip_modes ref fs nas nbs in
  (0 < r)%nat -> equivalent_by true r ms rec ->
  is_perm r p /\ w' = map (fun k => nth k w 0) p /\ fs' = map (permute_cols Rops p) fs /\
  (forall i m, (i < r)%nat -> In m ms -> exists d, d <> 0 /\
     forall k, (k < nrows (mB m))%nat -> mget Rops (permute_cols Rops p (mB m)) k i = d * mget Rops (mA m) k i).
Proof. exact cp_permute_collinear. Qed.
Print Assumptions C20_cp_permute_collinear_given_lsa.

(* ---------- cp_permute_factors on a list of tensors: each one is treated exactly as if passed alone ---------- *)
Theorem C20_cp_permute_list_spec : forall (ref : list (mat R)) (nas : list (list R))
  (ts : list (list R * list (mat R) * list (list R))) (assign : mat R -> list nat)
  (outs : list (list R * list (mat R) * list nat)),
  cp_permute_factors_list Rops ref nas ts assign = Ok outs ->
  Forall2 (fun t out => cp_permute_factors Rops ref (snd (fst t)) (fst (fst t)) nas (snd t) assign = Ok out) ts outs.
Proof. exact cp_permute_list_spec. Qed.
Print Assumptions C20_cp_permute_list_spec.

Theorem C20_cp_permute_list_err : forall (ref : list (mat R)) (nas : list (list R))
  (ts : list (list R * list (mat R) * list (list R))) (assign : mat R -> list nat),
  cp_permute_factors_list Rops ref nas ts assign = Err <->
  exists t, In t ts /\ cp_permute_factors Rops ref (snd (fst t)) (fst (fst t)) nas (snd t) assign = Err.
Proof. exact cp_permute_list_err. Qed.
Print Assumptions C20_cp_permute_list_err.

(* ---------- regression metrics = their documented definitions (tensorly's forms; R2_score is the UNCENTRED
   1 - |Xp - Xo|^2 / |Xo|^2, not the textbook R^2), every shape, every axis ---------- *)
(* mean_of n f = (sum_{k<n} f k) / n.  axis=None: k runs over the flat (row-major) data *)
Theorem C20_MSE_none_def : forall (yt yp : tensor R), shape yp = shape yt ->
  tget Rops (MSE Rops None yt yp) [] =
  mean_of (prod (shape yt)) (fun k => (nth k (data yt) 0 - nth k (data yp) 0) ^ 2).
Proof. exact MSE_none_def. Qed.
Print Assumptions C20_MSE_none_def.

(* axis=a: the entry at idx (an index of the shape with axis a removed) is the mean over k of the entries at idx
   with k inserted at position a *)
Theorem C20_MSE_axis_def : forall (yt yp : tensor R) (a : nat), (a < ndim yt)%nat ->
  forall idx, inb (remove_nth a (shape yt)) idx ->
  tget Rops (MSE Rops (Some a) yt yp) idx =
  mean_of (nth a (shape yt) 0%nat) (fun k => (tget Rops yt (insert_at a k idx) - tget Rops yp (insert_at a k idx)) ^ 2).
Proof. exact MSE_axis_def. Qed.
Print Assumptions C20_MSE_axis_def.

Theorem C20_covariance_none_def : forall (yt yp : tensor R), wf yt -> wf yp -> shape yp = shape yt ->
  tget Rops (covariance Rops None yt yp) [] =
  mean_of (prod (shape yt)) (fun k =>
    (nth k (data yt) 0 - mean_of (prod (shape yt)) (fun k0 => nth k0 (data yt) 0)) *
    (nth k (data yp) 0 - mean_of (prod (shape yt)) (fun k0 => nth k0 (data yp) 0))).
Proof. exact covariance_none_def. Qed.
Print Assumptions C20_covariance_none_def.

Theorem C20_covariance_axis_def : forall (yt yp : tensor R), wf yt -> wf yp -> shape yp = shape yt ->
  forall a, (a < ndim yt)%nat -> forall idx, inb (remove_nth a (shape yt)) idx ->
  let n := nth a (shape yt) 0%nat in
  tget Rops (covariance Rops (Some a) yt yp) idx =
  mean_of n (fun k =>
    (tget Rops yt (insert_at a k idx) - mean_of n (fun k0 => tget Rops yt (insert_at a k0 idx))) *
    (tget Rops yp (insert_at a k idx) - mean_of n (fun k0 => tget Rops yp (insert_at a k0 idx)))).
Proof. exact covariance_axis_def. Qed.
Print Assumptions C20_covariance_axis_def.

(* variance(y) is covariance(y, y) -- in the code and in the model *)
Theorem C20_variance_is_covariance : forall (ax : option nat) (y : tensor R), variance Rops ax y = covariance Rops ax y y.
Proof. exact variance_is_covariance. Qed.
Print Assumptions C20_variance_is_covariance.

(* cov^2 <= var * var for the definitions (f, g = centred slices), hence |correlation| <= 1 wherever defined *)
Theorem C20_cov_sq_le_var_var : forall (n : nat) (f g : nat -> R),
  (mean_of n (fun k => f k * g k)) ^ 2 <= mean_of n (fun k => f k * f k) * mean_of n (fun k => g k * g k).
Proof. exact cov_sq_le_var_var. Qed.
Print Assumptions C20_cov_sq_le_var_var.

(* RMSE / standard_deviation / correlation / reflective correlation: model functions with the square root as an argument sq
   (Model/Metrics.v); here sq := sqrt.  ax = None or Some a (already normalised, see C20_norm_axis_spec); idx ranges over the
   reduced shape rshape ax (shape yt) ([] for None).  Together with C20_MSE_*_def / C20_covariance_*_def these are the
   documented definitions entry by entry. *)
Theorem C20_RMSE_def : forall (ax : option nat) (yt yp : tensor R) (idx : list nat), inb (rshape ax (shape yt)) idx ->
  tget Rops (RMSE Rops sqrt ax yt yp) idx = sqrt (tget Rops (MSE Rops ax yt yp) idx).
Proof. exact RMSE_is_sqrt. Qed.
Print Assumptions C20_RMSE_def.

Theorem C20_standard_deviation_def : forall (ax : option nat) (y : tensor R) (idx : list nat), inb (rshape ax (shape y)) idx ->
  tget Rops (standard_deviation Rops sqrt ax y) idx = sqrt (tget Rops (variance Rops ax y) idx).
Proof. exact std_is_sqrt. Qed.
Print Assumptions C20_standard_deviation_def.

Theorem C20_correlation_def : forall (ax : option nat) (yt yp : tensor R) (idx : list nat), inb (rshape ax (shape yt)) idx ->
  tget Rops (correlation Rops sqrt ax yt yp) idx =
  tget Rops (covariance Rops ax yt yp) idx / sqrt (tget Rops (variance Rops ax yt) idx * tget Rops (variance Rops ax yp) idx).
Proof. exact correlation_is_ratio. Qed.
Print Assumptions C20_correlation_def.

(* |correlation| <= 1 wherever the code does not divide by zero *)
Theorem C20_correlation_abs_le_1 : forall (ax : option nat) (yt yp : tensor R) (idx : list nat),
  wf yt -> wf yp -> shape yp = shape yt -> axis_ok ax yt = true -> inb (rshape ax (shape yt)) idx ->
  0 < tget Rops (variance Rops ax yt) idx * tget Rops (variance Rops ax yp) idx ->
  Rabs (tget Rops (correlation Rops sqrt ax yt yp) idx) <= 1.
Proof. exact correlation_abs_le_1. Qed.
Print Assumptions C20_correlation_abs_le_1.

Theorem C20_reflective_correlation_def_bound : forall (yt yp : tensor R) (a : nat) (idx : list nat),
  wf yt -> wf yp -> shape yp = shape yt -> (a < ndim yt)%nat -> inb (remove_nth a (shape yt)) idx ->
  let n := nth a (shape yt) 0%nat in
  let f := fun k => tget Rops yt (insert_at a k idx) in let g := fun k => tget Rops yp (insert_at a k idx) in
  tget Rops (reflective_correlation Rops sqrt (Some a) yt yp) idx =
    rsum n (fun k => f k * g k) / sqrt (rsum n (fun k => f k ^ 2) * rsum n (fun k => g k ^ 2)) /\
  (0 < rsum n (fun k => f k ^ 2) * rsum n (fun k => g k ^ 2) ->
   Rabs (tget Rops (reflective_correlation Rops sqrt (Some a) yt yp) idx) <= 1).
Proof. exact reflective_axis_def_bound. Qed.
Print Assumptions C20_reflective_correlation_def_bound.

(* the sqrt-free relations the correspondence ALSO checks on the implementation's output (v >= 0, v^2 = x resp. den > 0,
   c^2 den = num^2, c num >= 0) determine the value: lemmas of real analysis *)
Theorem C20_root_characterised : forall v x : R, 0 <= v -> v ^ 2 = x -> v = sqrt x.
Proof. exact root_characterised. Qed.
Print Assumptions C20_root_characterised.

Theorem C20_ratio_characterised : forall c num den : R, 0 < den -> c ^ 2 * den = num ^ 2 -> 0 <= c * num -> c = num / sqrt den.
Proof. exact ratio_characterised. Qed.
Print Assumptions C20_ratio_characterised.

Theorem C20_correlation_bound : forall c num den : R, 0 < den -> c ^ 2 * den = num ^ 2 -> num ^ 2 <= den -> Rabs c <= 1.
Proof. exact correlation_bound. Qed.
Print Assumptions C20_correlation_bound.

Theorem C20_R2_def_and_bound : forall (xo xp : tensor R), wf xo -> wf xp -> shape xp = shape xo ->
  R2_score Rops xo xp =
    1 - rsum (prod (shape xo)) (fun k => (nth k (data xp) 0 - nth k (data xo) 0) ^ 2) /
        rsum (prod (shape xo)) (fun k => (nth k (data xo) 0) ^ 2) /\
  (0 < rsum (prod (shape xo)) (fun k => (nth k (data xo) 0) ^ 2) -> R2_score Rops xo xp <= 1).
Proof. exact R2_def_and_bound. Qed.
Print Assumptions C20_R2_def_and_bound.

(* the tensors the code combines in `correlation`: numerator = covariance, radicand = variance * variance.
   num^2 <= den entry by entry (and both variances >= 0), so with C20_correlation_bound |correlation| <= 1 *)
Theorem C20_corr_parts_axis_bound : forall (yt yp : tensor R), wf yt -> wf yp -> shape yp = shape yt ->
  forall a idx, (a < ndim yt)%nat -> inb (remove_nth a (shape yt)) idx ->
  let parts := corr_parts Rops (Some a) yt yp in
  (tget Rops (fst parts) idx) ^ 2 <= tget Rops (snd parts) idx /\
  0 <= tget Rops (variance Rops (Some a) yt) idx /\ 0 <= tget Rops (variance Rops (Some a) yp) idx.
Proof. exact corr_parts_axis_bound. Qed.
Print Assumptions C20_corr_parts_axis_bound.

Theorem C20_corr_parts_none_bound : forall (yt yp : tensor R), wf yt -> wf yp -> shape yp = shape yt ->
  let parts := corr_parts Rops None yt yp in
  (tget Rops (fst parts) []) ^ 2 <= tget Rops (snd parts) [] /\
  0 <= tget Rops (variance Rops None yt) [] /\ 0 <= tget Rops (variance Rops None yp) [].
Proof. exact corr_parts_none_bound. Qed.
Print Assumptions C20_corr_parts_none_bound.

(* leverage scores incl. the renormalisation branch taken for lower-precision input: with unit-norm columns the
   result is a probability vector and the renormalisation changes nothing; and renormalising ANY raw score vector
   with a positive sum (U need not be exactly orthonormal, as in float32) yields a probability vector *)
Theorem C20_leverage_any_simplex : forall (renorm : bool) (U : mat R) (sv : list R) (nr nc : nat) (eps : R) (l : list R),
  leverage_score_dist_any Rops renorm U sv nr nc eps = Ok l ->
  (forall j, (j < length sv)%nat -> rsum nr (fun i => (mget Rops U i j) ^ 2) = 1) ->
  length l = nr /\ Forall (fun x => 0 <= x) l /\ fsum Rops l = 1 /\ leverage_score_dist Rops U sv nr nc eps = Ok l.
Proof. exact leverage_any_simplex. Qed.
Print Assumptions C20_leverage_any_simplex.

Theorem C20_leverage_renorm_simplex : forall (U : mat R) (sv : list R) (nr nc : nat) (eps : R) (l0 l : list R),
  leverage_score_dist Rops U sv nr nc eps = Ok l0 -> leverage_score_dist_any Rops true U sv nr nc eps = Ok l ->
  0 < fsum Rops l0 -> Forall (fun x => 0 <= x) l /\ fsum Rops l = 1.
Proof. exact leverage_renorm_simplex. Qed.
Print Assumptions C20_leverage_renorm_simplex.

(* the axis argument as passed by the caller (an integer, possibly negative) is normalised NumPy-style before the
   metrics above are applied: accepted exactly for -ndim <= axis < ndim, negative values count from the end *)
Theorem C20_norm_axis_spec : forall (z : BinNums.Z) (nd : nat),
  match norm_axis z nd with
  | Ok a => (a < nd)%nat /\ ((0 <= z)%Z /\ Z.of_nat a = z \/ (z < 0)%Z /\ Z.of_nat a = (z + Z.of_nat nd)%Z)
  | Err => (z < - Z.of_nat nd)%Z \/ (Z.of_nat nd <= z)%Z
  end.
Proof. exact norm_axis_spec. Qed.
Print Assumptions C20_norm_axis_spec.

(* ---------- the permutation indeterminacy: the permuted CP tensor stands for the same full tensor ----------
   cp_entry r w fs idx = sum_k w_k prod_m F_m[i_m, k]: the entry at idx (one row index per mode) of the full tensor.
   cp_permute p = what cp_permute_factors does to weights and factors once the permutation p is known. *)
Theorem C20_cp_permute_same_tensor : forall (r : nat) (p : list nat) (w : list R) (fs : list (mat R)) (idx : list nat),
  is_perm r p -> Forall2 (fun F i => (i < nrows F)%nat) fs idx ->
  cp_entry r (fst (cp_permute Rops p w fs)) (snd (cp_permute Rops p w fs)) idx = cp_entry r w fs idx.
Proof. exact cp_permute_same_tensor. Qed.
Print Assumptions C20_cp_permute_same_tensor.

(* reflective correlation for axis=None: k runs over the flat data *)
Theorem C20_reflective_correlation_none_def_bound : forall (yt yp : tensor R), wf yt -> wf yp -> shape yp = shape yt ->
  let n := prod (shape yt) in
  let f := fun k => nth k (data yt) 0 in let g := fun k => nth k (data yp) 0 in
  tget Rops (reflective_correlation Rops sqrt None yt yp) [] =
    rsum n (fun k => f k * g k) / sqrt (rsum n (fun k => f k ^ 2) * rsum n (fun k => g k ^ 2)) /\
  (0 < rsum n (fun k => f k ^ 2) * rsum n (fun k => g k ^ 2) ->
   Rabs (tget Rops (reflective_correlation Rops sqrt None yt yp) []) <= 1).
Proof. exact reflective_none_def_bound. Qed.
Print Assumptions C20_reflective_correlation_none_def_bound.

(* leverage scores from the part of the SVD contract the correspondence re-checks on every run: U^T U = I on the first
   length(sv) columns.  Any numerical rank, with or without the renormalisation branch *)
Theorem C20_leverage_simplex_given_svd : forall (renorm : bool) (U : mat R) (sv : list R) (nr nc : nat) (eps : R) (l : list R),
  leverage_score_dist_any Rops renorm U sv nr nc eps = Ok l ->
  (forall a b, (a < length sv)%nat -> (b < length sv)%nat ->
     rsum nr (fun i => mget Rops U i a * mget Rops U i b) = if Nat.eqb a b then 1 else 0) ->
  length l = nr /\ Forall (fun x => 0 <= x) l /\ fsum Rops l = 1.
Proof. exact leverage_simplex_given_svd. Qed.
Print Assumptions C20_leverage_simplex_given_svd.

(* the float32 renormalisation branch as a statement about the model alone (no assumption on U beyond a non-zero entry in the
   selected block U[:, :num_rank]): the result has one entry per row, is non-negative and sums to one *)
Theorem C20_leverage_renorm_sum_one : forall (U : mat R) (sv : list R) (nr nc : nat) (eps : R) (l : list R),
  leverage_score_dist_any Rops true U sv nr nc eps = Ok l ->
  (exists i j, (i < nr)%nat /\ (j < num_rank Rops sv nr nc eps)%nat /\ mget Rops U i j <> 0) ->
  length l = nr /\ Forall (fun x => 0 <= x) l /\ fsum Rops l = 1.
Proof. exact leverage_renorm_sum_one. Qed.
Print Assumptions C20_leverage_renorm_sum_one.

(* cp_permute_factors on a LIST of CP tensors, end to end (given the oracle contract): for every listed tensor equivalent to
   the reference the returned weights and factors are the input ones permuted by the returned permutation p, component i of
   every permuted factor is a non-zero multiple of component i of the reference, and the permuted CP tensor stands for the
   same full tensor *)
Theorem C20_cp_permute_list_aligned_given_lsa : forall (ref : list (mat R)) (nas : list (list R))
  (ts : list (list R * list (mat R) * list (list R))) (assign : mat R -> list nat) (outs : list (list R * list (mat R) * list nat)),
  cp_permute_factors_list Rops ref nas ts assign = Ok outs -> lsa_contract assign ->
  let r := ncols (hd [] ref) in (0 < r)%nat ->
  (forall t, In t ts -> tape_valid (zip_modes ref (snd (fst t)) nas (snd t)) /\
                        exists rec, equivalent_by true r (zip_modes ref (snd (fst t)) nas (snd t)) rec) ->
  Forall2 (fun t out =>
    let w := fst (fst t) in let fs := snd (fst t) in let p := snd out in
    is_perm r p /\ fst (fst out) = map (fun k => nth k w 0) p /\ snd (fst out) = map (permute_cols Rops p) fs /\
    (forall i m, (i < r)%nat -> In m (zip_modes ref fs nas (snd t)) -> exists d, d <> 0 /\
       forall k, (k < nrows (mB m))%nat -> mget Rops (permute_cols Rops p (mB m)) k i = d * mget Rops (mA m) k i) /\
    (forall idx, Forall2 (fun F i => (i < nrows F)%nat) fs idx ->
       cp_entry r (fst (fst out)) (snd (fst out)) idx = cp_entry r w fs idx)) ts outs.
Proof. exact cp_permute_list_aligned. Qed.
Print Assumptions C20_cp_permute_list_aligned_given_lsa.

(* ---------- source tie (factors.py, similarity.py, leverage_scores.py) ----------
   On every run the harness extracts from the current Python source a closed record of the decisions the code makes
   (Model/MetricsSrc.v) and checks, by computation, that it IS the canonical record.  These theorems are the other half: for
   every carrier and all inputs the meaning of the canonical record is the hand-written model the theorems above are about. *)
Theorem C20_source_tie_congruence : forall (F : Type) (Op : fops F) (absv : bool) (As Bs : list (mat F)) (nas nbs : list (list F))
  (assign : mat F -> list nat),
  congruence_src Op canonical_cs absv As Bs nas nbs assign = congruence Op absv As Bs nas nbs assign.
Proof. exact @congruence_src_canonical. Qed.
Print Assumptions C20_source_tie_congruence.

Theorem C20_source_tie_correlation_index : forall (F : Type) (Op : fops F) (meth : option cmethod) (tol : F) (f1s f2s : list (mat F))
  (n1s n2s : list (list F)),
  correlation_index_src Op canonical_ci meth tol f1s f2s n1s n2s = correlation_index Op meth tol f1s f2s n1s n2s.
Proof. exact @correlation_index_src_canonical. Qed.
Print Assumptions C20_source_tie_correlation_index.

Theorem C20_source_tie_leverage : forall (F : Type) (Op : fops F) (low : bool) (U : mat F) (sv : list F) (nr nc : nat) (eps : F),
  leverage_src Op canonical_lv low U sv nr nc eps = leverage_score_dist_any Op low U sv nr nc eps.
Proof. exact @leverage_src_canonical. Qed.
Print Assumptions C20_source_tie_leverage.

Theorem C20_source_tie_cp_permute_factors : forall (F : Type) (Op : fops F) (ref : list (mat F)) (nas : list (list F))
  (ts : list (list F * list (mat F) * list (list F))) (assign : mat F -> list nat),
  cp_permute_factors_list_src Op canonical_pp ref nas ts assign = cp_permute_factors_list Op ref nas ts assign /\
  forall fs w nbs, cp_permute_factors_src Op canonical_pp ref fs w nas nbs assign = cp_permute_factors Op ref fs w nas nbs assign.
Proof. intros. split; [apply cp_permute_factors_list_src_canonical | intros; apply cp_permute_factors_src_canonical]. Qed.
Print Assumptions C20_source_tie_cp_permute_factors.

(* ---------- when the entry points fail ---------- *)
(* congruence_coefficient (its model) rejects EXACTLY: lists of different lengths, an empty list, a matrix whose number of
   columns differs from that of the first one, a pair with different numbers of rows, a matrix with an all-zero column *)
Theorem C20_congruence_rejects_iff : forall (absv : bool) (As Bs : list (mat R)) (nas nbs : list (list R)) (assign : mat R -> list nat),
  congruence Rops absv As Bs nas nbs assign = Err <->
  length As <> length Bs \/ As = [] \/
  (exists M, In M (As ++ Bs) /\ ncols M <> ncols (hd [] As)) \/
  (exists A B, In (A, B) (combine As Bs) /\ nrows A <> nrows B) \/
  (exists M j, In M (As ++ Bs) /\ (j < ncols M)%nat /\ forall i, (i < nrows M)%nat -> mget Rops M i j = 0).
Proof. intros. rewrite congruence_err_iff. apply cong_matrix_err_iff. Qed.
Print Assumptions C20_congruence_rejects_iff.

(* correlation_index (its model) rejects EXACTLY: a factor list that is empty or of mixed rank, an unknown method, a compared
   pair of different shapes, a compared matrix with an all-zero column (ci_sides: the stacked matrix for Stacked) *)
Theorem C20_correlation_index_rejects_iff : forall (meth : option cmethod) (tol : R) (f1s f2s : list (mat R)) (n1s n2s : list (list R)),
  correlation_index Rops meth tol f1s f2s n1s n2s = Err <->
  one_rank f1s = false \/ one_rank f2s = false \/ meth = None \/
  exists me, meth = Some me /\
    ((exists A B, In (A, B) (combine (ci_sides me f1s) (ci_sides me f2s)) /\ (nrows A <> nrows B \/ ncols A <> ncols B)) \/
     (exists M j, In M (ci_sides me f1s ++ ci_sides me f2s) /\ (j < ncols M)%nat /\
                  forall i, (i < nrows M)%nat -> mget Rops M i j = 0)).
Proof. exact correlation_index_err_iff. Qed.
Print Assumptions C20_correlation_index_rejects_iff.

Theorem C20_one_rank_false_iff : forall (fs : list (mat R)),
  one_rank fs = false <-> fs = [] \/ exists M, In M (tl fs) /\ ncols M <> ncols (hd [] fs).
Proof. exact one_rank_false_iff. Qed.
Print Assumptions C20_one_rank_false_iff.

(* the numerical rank used by leverage_score_dist: 0 iff no singular value exceeds the cut-off max(S) * max(shape) * eps,
   otherwise (index of the LAST singular value above the cut-off) + 1 -- whatever the order of the singular values *)
Theorem C20_num_rank_spec : forall (sv : list R) (nr nc : nat) (eps : R),
  let k := num_rank Rops sv nr nc eps in let c := list_max Rops sv * INR (Nat.max nr nc) * eps in
  (k = 0%nat /\ forall i, (i < length sv)%nat -> nth i sv 0 <= c) \/
  ((0 < k <= length sv)%nat /\ c < nth (k - 1) sv 0 /\ forall i, (k <= i < length sv)%nat -> nth i sv 0 <= c).
Proof. exact num_rank_spec. Qed.
Print Assumptions C20_num_rank_spec.

Theorem C20_leverage_fails_iff : forall (U : mat R) (sv : list R) (nr nc : nat) (eps : R),
  leverage_score_dist Rops U sv nr nc eps = Err <->
  forall i, (i < length sv)%nat -> nth i sv 0 <= list_max Rops sv * INR (Nat.max nr nc) * eps.
Proof. exact leverage_err_iff. Qed.
Print Assumptions C20_leverage_fails_iff.

(* ---------- the axis argument given as a TUPLE (MSE, RMSE, reflective correlation) ---------- *)
(* accepted exactly when every entry is a legal axis and no axis occurs twice after normalisation *)
Theorem C20_norm_axes_spec : forall (zs : list BinNums.Z) (nd : nat),
  match norm_axes zs nd with
  | Ok l => Forall2 (fun z a => norm_axis z nd = Ok a) zs l /\ NoDup l
  | Err => (exists z, In z zs /\ norm_axis z nd = Err) \/
           (exists l, Forall2 (fun z a => norm_axis z nd = Ok a) zs l /\ ~ NoDup l)
  end.
Proof. exact norm_axes_spec. Qed.
Print Assumptions C20_norm_axes_spec.

(* a one-element tuple is the integer axis (so the definitions above apply) *)
Theorem C20_tuple_axis_singleton : forall (a : nat) (yt yp : tensor R),
  MSE_axes Rops [a] yt yp = MSE Rops (Some a) yt yp /\
  RMSE_axes Rops sqrt [a] yt yp = RMSE Rops sqrt (Some a) yt yp /\
  reflective_correlation_axes Rops sqrt [a] yt yp = reflective_correlation Rops sqrt (Some a) yt yp.
Proof. intros. apply axes_singleton. Qed.
Print Assumptions C20_tuple_axis_singleton.

(* several axes: reduce the highest axis, then the rest; the empty tuple reduces nothing *)
Theorem C20_tsum_axes_step : forall (a : nat) (l : list nat) (t : tensor R), (forall b, In b l -> (b <= a)%nat) ->
  tsum_axes Rops (a :: l) t = tsum_axes Rops l (tsum Rops (Some a) t) /\ tsum_axes Rops [] t = t.
Proof. intros a l t H. split; [now apply tsum_axes_step | reflexivity]. Qed.
Print Assumptions C20_tsum_axes_step.

(* the order in which a tuple lists its axes is irrelevant: (0, 2), (2, 0), (-1, 0) ... reduce to the same tensors *)
Theorem C20_tuple_axis_order_irrelevant : forall (axs axs' : list nat) (yt yp : tensor R), Permutation.Permutation axs axs' ->
  MSE_axes Rops axs yt yp = MSE_axes Rops axs' yt yp /\
  RMSE_axes Rops sqrt axs yt yp = RMSE_axes Rops sqrt axs' yt yp /\
  reflective_correlation_axes Rops sqrt axs yt yp = reflective_correlation_axes Rops sqrt axs' yt yp.
Proof. intros. now apply axes_order_irrelevant. Qed.
Print Assumptions C20_tuple_axis_order_irrelevant.

(* ---------- non-vacuity ---------- *)
(* the oracle contract is satisfiable: the brute force itself meets it *)
Example C20_ex_lsa_contract : lsa_contract (fun C => best_perm Rops (nrows C) C).
Proof. intros r C <-. split; [apply best_perm_is_perm | intros q Hq; now apply best_perm_max]. Qed.

Example C20_ex_all_perms : all_perms 3 = [[0; 1; 2]; [1; 0; 2]; [1; 2; 0]; [0; 2; 1]; [2; 0; 1]; [2; 1; 0]]%nat.
Proof. reflexivity. Qed.

(* a mode satisfying mode_ok whose B column is -2 times the A column; the recovering permutation is [0] *)
Definition C20_ex_mode : cmode R := mkMode [[3]; [4]] [[-6]; [-8]] [5] [10].
Example C20_ex_mode_ok : mode_ok 1 C20_ex_mode /\ col_multiple C20_ex_mode 0 0 (-2) /\ equivalent_by true 1 [C20_ex_mode] [0%nat].
Proof.
  assert (M : mode_ok 1 C20_ex_mode).
  { unfold mode_ok, norms_valid, C20_ex_mode. cbn [mA mB nA nB].
    split; [reflexivity|]. split; [reflexivity|]. split; [reflexivity|].
    split; intros j Hj; (assert (j = 0%nat) as -> by (cbn in Hj; lia)); cbn; lra. }
  assert (K : col_multiple C20_ex_mode 0 0 (-2)).
  { split; [lra|]. intros k Hk. cbn in Hk. destruct k as [|[|k]]; cbn; try lra. lia. }
  split; [exact M|]. split; [exact K|]. split; [apply is_perm_id|].
  intros i Hi m [<-|[]]. assert (i = 0%nat) as -> by lia. exists (-2). split; [exact K | discriminate].
Qed.

(* C20_ex_mode with A rescaled by 2 and B by -1/2: a rescaled pair in the sense of modes_rescaled (absolute values on) *)
Definition C20_ex_mode' : cmode R := mkMode [[6]; [8]] [[3]; [4]] [10] [5].
Example C20_ex_modes_rescaled : modes_rescaled true 1 [C20_ex_mode] [C20_ex_mode'].
Proof.
  assert (M' : mode_ok 1 C20_ex_mode').
  { unfold mode_ok, norms_valid, C20_ex_mode'. cbn [mA mB nA nB].
    split; [reflexivity|]. split; [reflexivity|]. split; [reflexivity|].
    split; intros j Hj; (assert (j = 0%nat) as -> by (cbn in Hj; lia)); cbn; lra. }
  constructor; [|constructor]. split; [exact (proj1 C20_ex_mode_ok)|]. split; [exact M'|].
  exists (fun _ => 2), (fun _ => - (1 / 2)). split.
  - split; [reflexivity|]. split; intros k i Hk Hi; assert (i = 0%nat) as -> by lia; cbn in Hk;
      destruct k as [|[|k]]; cbn; try lra; lia.
  - intros i Hi. split; [lra|]. split; [lra | discriminate].
Qed.

(* permuting the components of a rank-2 CP tensor: same entry (w = [2; 3], one mode, row 0: 2*1 + 3*5 = 17) *)
Example C20_ex_same_tensor : cp_entry 2 [3; 2] [[[5; 1]]] [0%nat] = 17 /\ cp_entry 2 [2; 3] [[[1; 5]]] [0%nat] = 17 /\
  cp_permute Rops [1; 0]%nat [2; 3] [[[1; 5]]] = ([3; 2], [[[5; 1]]]).
Proof. unfold cp_entry. cbn. repeat split; lra. Qed.

(* the executed instance accepts such an input and returns 1 with the recovering permutation *)
Local Open Scope Q_scope.
Example C20_ex_congruence_Q :
  congruence Qops true [[[3#1]; [4#1]]] [[[-6#1]; [-8#1]]] [[5#1]] [[10#1]] (fun _ => [0%nat]) = Ok (1%Q, [0%nat]).
Proof. vm_compute. reflexivity. Qed.

Example C20_ex_corrindex_Q :
  correlation_index Qops (Some AvgScore) (0#1) [[[3#1]; [4#1]]] [[[-6#1]; [-8#1]]] [[5#1]] [[10#1]] = Ok 0%Q.
Proof. vm_compute. reflexivity. Qed.

(* unit-norm columns: leverage scores of U = e_1 (2 x 1) *)
Example C20_ex_norm_axis : norm_axis (-1) 3 = Ok 2%nat /\ norm_axis (-3) 3 = Ok 0%nat /\ norm_axis (-4) 3 = Err /\ norm_axis 3 3 = Err.
Proof. vm_compute. repeat split. Qed.

Example C20_ex_leverage_Q : leverage_score_dist Qops [[1#1]; [0#1]] [2#1] 2 1 (1#1000) = Ok [1%Q; 0%Q].
Proof. vm_compute. reflexivity. Qed.

(* executed instances of the regression model and of the list loop *)
Example C20_ex_MSE_axis_Q : MSE Qops (Some 0%nat) (mk [2; 2]%nat [1; 2; 3; 4]) (mk [2; 2]%nat [0; 0; 0; 0]) = mk [2]%nat [5; 10].
Proof. vm_compute. reflexivity. Qed.
Example C20_ex_cov_axis_Q : covariance Qops (Some 1%nat) (mk [2; 2]%nat [1; 3; 2; 6]) (mk [2; 2]%nat [0; 2; 1; 1]) = mk [2]%nat [1; 0].
Proof. vm_compute. reflexivity. Qed.
Example C20_ex_permute_list_Q :
  cp_permute_factors_list Qops [[[3#1]; [4#1]]] [[5#1]] [([2#1], [[[-6#1]; [-8#1]]], [[10#1]]); ([7#1], [[[4#1]; [3#1]]], [[5#1]])]
    (fun _ => [0%nat]) = Ok [([2#1], [[[-6#1]; [-8#1]]], [0%nat]); ([7#1], [[[4#1]; [3#1]]], [0%nat])].
Proof. vm_compute. reflexivity. Qed.

(* a dual certificate with gap 0: potentials [0; 0] certify the identity matching of [[1, 1/2], [1/2, 1]] *)
Example C20_ex_dual_gap_Q : dual_gap Qops 2 [[1; 1#2]; [1#2; 1]] [0; 0] [0; 1]%nat = 0 /\
                            dual_gap Qops 2 [[1; 1#2]; [1#2; 1]] [0; 0] [1; 0]%nat = 1.
Proof. vm_compute. split; reflexivity. Qed.

(* a positive threshold maps a non-equivalent pair (raw index 1/25) to 0; without threshold the raw index is returned *)
Example C20_ex_corrindex_threshold_Q :
  correlation_index Qops (Some Stacked) (1#2) [[[3#1]; [4#1]]] [[[4#1]; [3#1]]] [[5#1]] [[5#1]] = Ok 0 /\
  correlation_index Qops (Some Stacked) 0 [[[3#1]; [4#1]]] [[[4#1]; [3#1]]] [[5#1]] [[5#1]] = Ok (1#25).
Proof. vm_compute. split; reflexivity. Qed.

(* the sqrt-based model functions, executed with a square root that is exact on the value met *)
Example C20_ex_RMSE_Q :
  RMSE Qops (fun x => if Qeq_bool x 9 then 3 else 0) None (mk [2]%nat [3; 3]) (mk [2]%nat [0; 0]) = mk [] [3] /\
  correlation Qops (fun x => if Qeq_bool x 1 then 1 else 0) None (mk [2]%nat [1; 3]) (mk [2]%nat [3; 1]) = mk [] [-1].
Proof. vm_compute. split; reflexivity. Qed.

(* rejected requests in the executed instance: a zero column; the all-zero matrix has no numerical rank *)
Example C20_ex_rejects_Q :
  congruence Qops true [[[3#1; 0]; [4#1; 0]]] [[[1; 1]; [1; 2]]] [[5#1; 0]] [[1; 2]] (fun _ => [0; 1]%nat) = Err /\
  leverage_score_dist Qops [[1]; [0]] [0] 2 1 (1#1000) = Err.
Proof. vm_compute. split; reflexivity. Qed.

(* tuple axes in the executed instance: (-1, 0) on a 2 x 2 tensor reduces everything; (0, 0) and (2,) are rejected *)
Example C20_ex_tuple_axes_Q :
  norm_axes [(-1)%Z; 0%Z] 2 = Ok [1; 0]%nat /\ norm_axes [0%Z; (-2)%Z] 2 = Err /\ norm_axes [2%Z] 2 = Err /\
  MSE_axes Qops [1; 0]%nat (mk [2; 2]%nat [1; 2; 3; 4]) (mk [2; 2]%nat [0; 0; 0; 0]) = mk [] [15 # 2].
Proof. vm_compute. repeat split. Qed.

Local Close Scope Q_scope.
Local Open Scope R_scope.
(* ---------- THE ROUNDING OF THE EXECUTED OPTIMALITY CHECKS, EXPLICIT ----------
   The correspondence decides optimality of the implementation's matching on the congruence matrix rounded DOWN to multiples
   of 2^-80 (Corr/C20.v: qdy, mdy).  (a) the rounding lemma over Q; (b) e-optimal on a matrix rounded down by at most delta
   => (e + delta)-optimal on the exact matrix, for the brute force and for the dual certificate; (c) through the Q -> R
   transfer: the BOOLEANS the correspondence evaluates imply optimality up to 1e-9 (..) + 2^-80 on the exact rational matrix of
   the case, stated about the real-number model. *)
Theorem C20_qdy_rounds_down : forall x : Q, (Corr.C20.qdy x <= x)%Q /\ (x < Corr.C20.qdy x + (1 # (2 ^ 80)))%Q.
Proof. exact qdy_spec. Qed.
Print Assumptions C20_qdy_rounds_down.

Theorem C20_mdy_rounded_down : forall (r : nat) (M : mat Q) (i j : nat), (i < r)%nat -> (j < r)%nat ->
  mget Rops (mapR (Corr.C20.mdy M)) i j <= mget Rops (mapR M) i j <= mget Rops (mapR (Corr.C20.mdy M)) i j + / 2 ^ 80.
Proof. exact mdy_rounded_down. Qed.
Print Assumptions C20_mdy_rounded_down.

Theorem C20_brute_force_rounded_optimal : forall (r : nat) (delta e : R) (C Cd : mat R) (p : list nat), (0 < r)%nat -> is_perm r p ->
  (forall i j, (i < r)%nat -> (j < r)%nat -> mget Rops Cd i j <= mget Rops C i j <= mget Rops Cd i j + delta) ->
  score Rops r Cd (best_perm Rops r Cd) <= score Rops r Cd p + e ->
  forall q, is_perm r q -> score Rops r C q <= score Rops r C p + e + delta.
Proof. exact brute_force_rounded_optimal. Qed.
Print Assumptions C20_brute_force_rounded_optimal.

Theorem C20_dual_certificate_rounded : forall (r : nat) (delta eps : R) (C Cd : mat R) (vs : list R) (p : list nat), (0 < r)%nat -> is_perm r p ->
  (forall i j, (i < r)%nat -> (j < r)%nat -> mget Rops Cd i j <= mget Rops C i j <= mget Rops Cd i j + delta) ->
  dual_gap Rops r Cd vs p <= eps ->
  forall q, is_perm r q -> score Rops r C q <= score Rops r C p + eps / INR r + delta.
Proof. exact dual_certificate_rounded. Qed.
Print Assumptions C20_dual_certificate_rounded.

(* the executed certificate check (ranks up to 14), rounding and tolerance included *)
Theorem C20_certified_on_sound : forall (r : nat) (C : mat Q) (p : list nat) (vs : list Q), (0 < r)%nat ->
  Corr.C20.certified_on r C p vs = true ->
  is_perm r p /\ forall q, is_perm r q -> score Rops r (mapR C) q <= score Rops r (mapR C) p + / 10 ^ 9 + / 2 ^ 80.
Proof. exact certified_on_sound. Qed.
Print Assumptions C20_certified_on_sound.

(* the executed brute-force check *)
Theorem C20_optimal_on_sound : forall (r : nat) (C : mat Q) (p : list nat), (0 < r)%nat ->
  Corr.C20.optimal_on r C p = true ->
  let Cd := mapR (Corr.C20.mdy C) in
  is_perm r p /\ forall q, is_perm r q ->
    score Rops r (mapR C) q <=
    score Rops r (mapR C) p + / 10 ^ 9 * (1 + Rabs (score Rops r Cd p) + Rabs (score Rops r Cd (best_perm Rops r Cd))) + / 2 ^ 80.
Proof. exact optimal_on_sound. Qed.
Print Assumptions C20_optimal_on_sound.

(* what a passing congruence_coefficient case means, about the real-number model on the rational inputs of the case *)
Theorem C20_agree_cong_sound : forall (absv : bool) (As Bs : list (mat Q)) (nas nbs : list (list Q)) (v : Q) (p : list nat),
  Corr.C20.agree_cong absv As Bs nas nbs (Ok (v, p)) = true ->
  exists (r : nat) (Cq : mat Q), let C := mapR Cq in let Cd := mapR (Corr.C20.mdy Cq) in
    cong_matrix Rops absv (map mapR As) (map mapR Bs) (map (map Q2R) nas) (map (map Q2R) nbs) = Ok (r, C) /\
    Rabs (Q2R v - score Rops r C p) <= / 10 ^ 9 * (1 + Rabs (Q2R v) + Rabs (score Rops r C p)) /\
    ((0 < r)%nat -> is_perm r p /\ forall q, is_perm r q ->
       score Rops r C q <=
       score Rops r C p + / 10 ^ 9 * (1 + Rabs (score Rops r Cd p) + Rabs (score Rops r Cd (best_perm Rops r Cd))) + / 2 ^ 80).
Proof. exact agree_cong_sound. Qed.
Print Assumptions C20_agree_cong_sound.

(* non-vacuity: an executed certificate and an executed brute-force check that succeed *)
Example C20_ex_certified_on : Corr.C20.certified_on 2 [[1; 1#2]; [1#3; 1]]%Q [0; 1]%nat [0; 0]%Q = true /\
                              Corr.C20.optimal_on 2 [[1; 1#2]; [1#3; 1]]%Q [0; 1]%nat = true.
Proof. vm_compute. split; reflexivity. Qed.

(* ---------- THE CLOSED ENTRY FORMULA OF THE TUPLE-AXIS REDUCTIONS ----------
   l = the (distinct, legal) axes in descending order, box = their lengths, scatter l ks idx = idx with the coordinates ks
   re-inserted at the axes l: the entry at idx of the multi-axis sum is ONE sum over the box. *)
Theorem C20_tsum_axes_closed : forall (axs : list nat) (t : tensor R), NoDup axs -> (forall a, In a axs -> (a < ndim t)%nat) ->
  let l := sort_desc axs in let bx := box (shape t) l in
  shape (tsum_axes Rops axs t) = rshape_axes l (shape t) /\ prod bx = red_len_axes axs t /\
  forall idx, inb (rshape_axes l (shape t)) idx ->
    tget Rops (tsum_axes Rops axs t) idx = rsum (prod bx) (fun K => tget Rops t (scatter l (unravel bx K) idx)) /\
    forall K, (K < prod bx)%nat -> inb (shape t) (scatter l (unravel bx K) idx).
Proof.
  intros axs t Hn Hl l bx. split; [apply shape_tsum_axes|]. split; [apply prod_bx_red_len|]. intros idx Hi. split.
  - now apply tsum_axes_closed.
  - intros K HK. now apply closed_index_inb.
Qed.
Print Assumptions C20_tsum_axes_closed.

Theorem C20_MSE_axes_def : forall (axs : list nat) (yt yp : tensor R),
  NoDup axs -> (forall a, In a axs -> (a < ndim yt)%nat) ->
  let l := sort_desc axs in let bx := box (shape yt) l in
  forall idx, inb (rshape_axes l (shape yt)) idx ->
  let J := fun K => scatter l (unravel bx K) idx in
  tget Rops (MSE_axes Rops axs yt yp) idx = mean_of (prod bx) (fun K => (tget Rops yt (J K) - tget Rops yp (J K)) ^ 2) /\
  tget Rops (RMSE_axes Rops sqrt axs yt yp) idx = sqrt (mean_of (prod bx) (fun K => (tget Rops yt (J K) - tget Rops yp (J K)) ^ 2)) /\
  prod bx = red_len_axes axs yt.
Proof.
  intros axs yt yp Hn Hl l bx idx Hi J.
  destruct (MSE_axes_def axs yt yp Hn Hl idx Hi) as (A & B). split; [exact A|]. split; [|exact B].
  exact (RMSE_axes_def axs yt yp Hn Hl idx Hi).
Qed.
Print Assumptions C20_MSE_axes_def.

Theorem C20_reflective_axes_def_bound : forall (axs : list nat) (yt yp : tensor R), wf yt -> wf yp -> shape yp = shape yt ->
  NoDup axs -> (forall a, In a axs -> (a < ndim yt)%nat) ->
  let l := sort_desc axs in let bx := box (shape yt) l in
  forall idx, inb (rshape_axes l (shape yt)) idx ->
  let n := prod bx in
  let f := fun K => tget Rops yt (scatter l (unravel bx K) idx) in let g := fun K => tget Rops yp (scatter l (unravel bx K) idx) in
  tget Rops (reflective_correlation_axes Rops sqrt axs yt yp) idx =
    rsum n (fun K => f K * g K) / sqrt (rsum n (fun K => f K ^ 2) * rsum n (fun K => g K ^ 2)) /\
  (0 < rsum n (fun K => f K ^ 2) * rsum n (fun K => g K ^ 2) ->
   Rabs (tget Rops (reflective_correlation_axes Rops sqrt axs yt yp) idx) <= 1).
Proof. intros axs yt yp Wt Wp Sh Hn Hl l bx idx Hi. exact (reflective_axes_def_bound axs yt yp Wt Wp Sh Hn Hl idx Hi). Qed.
Print Assumptions C20_reflective_axes_def_bound.

(* non-vacuity: axes (0, 2) of a 2 x 3 x 2 shape: descending order [2; 0], box [2; 2], reduced shape [3];
   K = 3 = (1, 1) in the box re-inserted into idx = [2] gives the full index [1; 2; 1] *)
Example C20_ex_scatter : sort_desc [0; 2]%nat = [2; 0]%nat /\ box [2; 3; 2]%nat [2; 0]%nat = [2; 2]%nat /\
  rshape_axes [2; 0]%nat [2; 3; 2]%nat = [3]%nat /\ scatter [2; 0]%nat (unravel [2; 2]%nat 3) [2]%nat = [1; 2; 1]%nat.
Proof. vm_compute. repeat split. Qed.

(* ---------- cp_permute_factors WITH ITS cp_copy / cp_normalize GLUE (Model/MetricsPermute.v; cp_normalize = C04's model) ----------
   The reference is always normalised, the tensors to permute only when they come in a list; the COPIES of the original tensors
   are permuted.  (a) what a successful / failing call returns; (b) every compared factor is the input factor with column i
   multiplied by c_i = w_i / s_i (factor 0) or 1 / s_i (s_i = recorded norm, or 1 when that is 0), non-zero exactly when the
   absorbed weight is: by C20_congruence_matrix_rescale_invariant the normalisation then changes no entry of the congruence
   matrix, while a ZERO weight produces a zero column, which congruence_coefficient rejects; (c) GENUINE DEFECT (known finding
   cp_permute_factors_zero_weight): the list form rejects a tensor that the single form accepts. *)
Theorem C20_cp_permute_full_spec : forall (ref : ptensor R) (arg : parg R) (assign : mat R -> list nat),
  let nrm := match arg with PSingle _ => false | PList _ => true end in
  let ts := match arg with PSingle t => [t] | PList ts => ts end in
  match cp_permute_factors_full Rops ref arg assign with
  | Ok outs => Forall2 (fun t out => exists v,
        congruence Rops true (compared Rops true ref) (compared Rops nrm t) (pcong ref) (pcong t) assign = Ok (v, snd out) /\
        fst out = cp_permute Rops (snd out) (pw t) (pfs t)) ts outs
  | Err => exists t, In t ts /\
        congruence Rops true (compared Rops true ref) (compared Rops nrm t) (pcong ref) (pcong t) assign = Err
  end.
Proof. intros ref arg assign. pose proof (cp_permute_full_spec Rops ref arg assign) as H. destruct arg; exact H. Qed.
Print Assumptions C20_cp_permute_full_spec.

Theorem C20_source_tie_cp_permute_full : forall (F : Type) (Op : fops F) (ref : ptensor F) (arg : parg F) (assign : mat F -> list nat),
  cp_permute_factors_full_src Op canonical_pp ref arg assign = cp_permute_factors_full Op ref arg assign.
Proof. exact @cp_permute_full_src_canonical. Qed.
Print Assumptions C20_source_tie_cp_permute_full.

Theorem C20_cp_permute_compared_factor : forall (t : ptensor R) (j k i : nat), (j < length (pfs t))%nat -> (j < length (pnorm t))%nat ->
  (i < length (nth j (pnorm t) []))%nat ->
  let s := Transforms.nz1 Rops (Transforms.vget Rops (nth j (pnorm t) []) i) in
  let c := (if Nat.eqb j 0 then Transforms.vget Rops (pw t) i else 1) / s in
  mget Rops (nth j (compared Rops true t) []) k i = c * mget Rops (nth j (pfs t) []) k i /\
  s <> 0 /\ (c <> 0 <-> (j = 0%nat -> Transforms.vget Rops (pw t) i <> 0)) /\
  compared Rops false t = pfs t.
Proof.
  intros t j k i Hf Ht Hi s c. destruct (compared_factor_entry t j k i Hf Ht Hi) as (A & B & D).
  split; [exact A|]. split; [exact B|]. split; [exact D | reflexivity].
Qed.
Print Assumptions C20_cp_permute_compared_factor.

(* per mode, for weights without a zero: the compared pair is a non-zero column rescaling of the original pair = the premise of
   C20_cosine_rescaled / C20_congruence_matrix_rescale_invariant / C20_optimal_matching_rescale_invariant *)
Theorem C20_cp_permute_mode_rescaled : forall (ref t : ptensor R) (k r : nat) (na nb na' nb' : list R),
  (k < length (pfs ref))%nat -> (k < length (pnorm ref))%nat -> (k < length (pfs t))%nat -> (k < length (pnorm t))%nat ->
  length (nth k (pnorm ref) []) = r -> length (nth k (pnorm t) []) = r ->
  (k = 0%nat -> forall i, (i < r)%nat -> Transforms.vget Rops (pw ref) i <> 0 /\ Transforms.vget Rops (pw t) i <> 0) ->
  let m := mkMode (nth k (pfs ref) []) (nth k (pfs t) []) na nb in
  let m' := mkMode (nth k (compared Rops true ref) []) (nth k (compared Rops true t) []) na' nb' in
  exists a b, rescaled r m m' a b /\ scaling_ok true r a b.
Proof. exact compared_mode_rescaled. Qed.
Print Assumptions C20_cp_permute_mode_rescaled.

Theorem C20_cp_permute_list_vs_single_refuted :
  exists (ref t t' : ptensor Q) (assign : mat Q -> list nat) outs, pw t' = pw t /\ pfs t' = pfs t /\ pnorm t' = pnorm t /\
    cp_permute_factors_full Qops ref (PSingle t) assign = Ok outs /\
    cp_permute_factors_full Qops ref (PList [t']) assign = Err.
Proof.
  exists wit_ref, (wit_t false), (wit_t true), (fun _ => [1; 0]%nat). eexists.
  split; [reflexivity|]. split; [reflexivity|]. split; [reflexivity|]. exact cp_permute_list_vs_single_refuted.
Qed.
Print Assumptions C20_cp_permute_list_vs_single_refuted.

(* one absolute value AFTER the product over modes = the mode-by-mode absolute values of the code: the refactoring that the
   source-tie executor accepts as the canonical record *)
Theorem C20_abs_after_product : forall (r : nat) (ms : list (cmode R)) (i j : nat), Forall (mode_ok r) ms -> (i < r)%nat -> (j < r)%nat ->
  mget Rops (mabs Rops (cong_all Rops false r ms)) i j = mget Rops (cong_all Rops true r ms) i j.
Proof. exact abs_after_product. Qed.
Print Assumptions C20_abs_after_product.

(* ---------- THE AXIS ARGUMENT IN ALL ITS FORMS, for every regression metric (Model/MetricsAxis.v: the function through which the
   correspondence routes every regression case) ---------- *)
Theorem C20_axis_rejected_iff : forall (m : metric) (a : axis_arg) (nd : nat),
  resolve_axis m a nd = Err <->
  match a with
  | AxNone => False
  | AxInt z => ~ (- Z.of_nat nd <= z < Z.of_nat nd)%Z
  | AxTuple zs => takes_tuple m = false \/ norm_axes zs nd = Err
  end.
Proof. exact resolve_axis_err_iff. Qed.
Print Assumptions C20_axis_rejected_iff.

Theorem C20_axis_negative_twin : forall (m : metric) (z : Z) (nd : nat), (- Z.of_nat nd <= z < 0)%Z ->
  resolve_axis m (AxInt z) nd = resolve_axis m (AxInt (z + Z.of_nat nd)) nd /\
  resolve_axis m (AxInt z) nd = Ok (RedOne (Z.to_nat (z + Z.of_nat nd))).
Proof. exact resolve_axis_negative. Qed.
Print Assumptions C20_axis_negative_twin.

Theorem C20_axis_tuple_forms : forall (m : metric) (yt yp : tensor R),
  (forall z, metric_value Rops sqrt m (AxTuple [z]) yt yp = if takes_tuple m then metric_value Rops sqrt m (AxInt z) yt yp else Err) /\
  (forall zs zs', Permutation.Permutation zs zs' ->
     metric_value Rops sqrt m (AxTuple zs) yt yp = metric_value Rops sqrt m (AxTuple zs') yt yp) /\
  (takes_tuple m = false -> forall zs, metric_value Rops sqrt m (AxTuple zs) yt yp = Err).
Proof.
  intros m yt yp. split; [intros z; apply metric_value_singleton|]. split; [intros zs zs' H; now apply metric_value_tuple_order|].
  intros T zs. unfold metric_value. cbn [resolve_axis]. now rewrite T.
Qed.
Print Assumptions C20_axis_tuple_forms.

(* non-vacuity in the executed instance: covariance accepts axis -1 (= axis 1 of a 2 x 2 tensor) and rejects the tuple (-1,) ;
   MSE accepts both and they agree *)
Example C20_ex_axis_forms :
  let y := mk [2; 2]%nat [1; 3; 2; 6]%Q in let z := mk [2; 2]%nat [0; 2; 1; 1]%Q in
  metric_value Qops (fun x => x) MCov (AxInt (-1)) y z = Ok (mk [2]%nat [1; 0]%Q) /\
  metric_value Qops (fun x => x) MCov (AxTuple [(-1)%Z]) y z = Err /\
  metric_value Qops (fun x => x) MMSE (AxTuple [(-1)%Z]) y z = metric_value Qops (fun x => x) MMSE (AxInt 1) y z.
Proof. vm_compute. repeat split. Qed.

(* ---------- what a passing case means, continued: certified congruence cases and correlation_index cases ---------- *)
Theorem C20_agree_cong_dual_sound : forall (absv : bool) (As Bs : list (mat Q)) (nas nbs : list (list Q)) (vs : list Q) (brute : bool)
  (v : Q) (p : list nat),
  Corr.C20.agree_cong_dual absv As Bs nas nbs vs brute (Ok (v, p)) = true ->
  exists (r : nat) (Cq : mat Q), let C := mapR Cq in
    cong_matrix Rops absv (map mapR As) (map mapR Bs) (map (map Q2R) nas) (map (map Q2R) nbs) = Ok (r, C) /\
    Rabs (Q2R v - score Rops r C p) <= / 10 ^ 9 * (1 + Rabs (Q2R v) + Rabs (score Rops r C p)) /\
    ((0 < r)%nat -> is_perm r p /\ forall q, is_perm r q -> score Rops r C q <= score Rops r C p + / 10 ^ 9 + / 2 ^ 80).
Proof. exact agree_cong_dual_sound. Qed.
Print Assumptions C20_agree_cong_dual_sound.

Theorem C20_agree_corridx_sound : forall (meth : option cmethod) (ctol : Q) (f1 f2 : list (mat Q)) (n1 n2 : list (list Q)) (v : Q),
  Corr.C20.agree_corridx meth ctol f1 f2 n1 n2 (Ok v) = true ->
  exists vm : R, correlation_index Rops meth (Q2R ctol) (map mapR f1) (map mapR f2) (map (map Q2R) n1) (map (map Q2R) n2) = Ok vm /\
    Rabs (Q2R v - vm) <= / 10 ^ 9 * (1 + Rabs (Q2R v) + Rabs vm).
Proof. exact agree_corridx_sound. Qed.
Print Assumptions C20_agree_corridx_sound.

(* ---------- the cp_normalize calls of cp_permute_factors change NO entry of the congruence matrix when no weight is zero (the list
   branch: reference and tensor both normalised; nas / nbs = norm tapes of the original factors; mode_at .. k = the k-th pair
   with its tapes) -- so, with C20_optimal_matching_rescale_invariant, the same matchings are optimal with and without them ---------- *)
Theorem C20_normalisation_keeps_congruence_matrix : forall (ref t : ptensor R) (r n : nat) (nas nbs : list (list R)),
  length (pfs ref) = n -> length (pfs t) = n -> length (pnorm ref) = n -> length (pnorm t) = n ->
  length (pcong ref) = n -> length (pcong t) = n -> length nas = n -> length nbs = n ->
  (forall k, (k < n)%nat -> length (nth k (pnorm ref) []) = r /\ length (nth k (pnorm t) []) = r) ->
  (forall i, (i < r)%nat -> Transforms.vget Rops (pw ref) i <> 0 /\ Transforms.vget Rops (pw t) i <> 0) ->
  (forall k, (k < n)%nat -> mode_ok r (mode_at (pfs ref) (pfs t) nas nbs k) /\
                            mode_ok r (mode_at (compared Rops true ref) (compared Rops true t) (pcong ref) (pcong t) k)) ->
  let ms := zip_modes (pfs ref) (pfs t) nas nbs in
  let ms' := zip_modes (compared Rops true ref) (compared Rops true t) (pcong ref) (pcong t) in
  modes_rescaled true r ms ms' /\
  forall i j, (i < r)%nat -> (j < r)%nat -> mget Rops (cong_all Rops true r ms') i j = mget Rops (cong_all Rops true r ms) i j.
Proof. exact normalisation_keeps_congruence_matrix. Qed.
Print Assumptions C20_normalisation_keeps_congruence_matrix.

(* non-vacuity of the `what a passing case means' theorems: executed comparisons that succeed *)
Example C20_ex_agree_cases :
  Corr.C20.agree_cong true [[[3]; [4]]]%Q [[[3]; [4]]]%Q [[5]]%Q [[5]]%Q (Ok (1%Q, [0]%nat)) = true /\
  Corr.C20.agree_cong_dual true [[[3]; [4]]]%Q [[[3]; [4]]]%Q [[5]]%Q [[5]]%Q [0]%Q true (Ok (1%Q, [0]%nat)) = true /\
  Corr.C20.agree_corridx (Some Stacked) 0%Q [[[3]; [4]]]%Q [[[4]; [3]]]%Q [[5]]%Q [[5]]%Q (Ok (1 # 25)%Q) = true.
Proof. vm_compute. repeat split. Qed.

(* non-vacuity of C20_normalisation_keeps_congruence_matrix: weight 2, factor (3, 4)^T (norm tape 5), cp_normalize's tape 10, the
   normalised factor (0.6, 0.8)^T with tape 1 *)
Example C20_ex_normalisation_hyps : forall k, (k < 1)%nat ->
  mode_ok 1 (mode_at (pfs exr) (pfs exr) [[5]] [[5]] k) /\
  mode_ok 1 (mode_at (compared Rops true exr) (compared Rops true exr) (pcong exr) (pcong exr) k).
Proof. exact ex_hyps. Qed.

(* ---------- THE RANGE THEOREMS WITH THE TOLERANCE OF THE EXECUTED NORM TAPES EXPLICIT ----------
   The tapes recorded from the implementation are floating-point square roots; the correspondence accepts a tape when
   n > 0 and |n^2 - s| <= tau s (norms_okb, tau = 1e-11) -- norms_approx tau; the exact contract norms_valid is tau = 0. *)
Theorem C20_norms_valid_is_tau0 : forall (M : mat R) (ns : list R), norms_valid M ns <-> norms_approx 0 M ns.
Proof. exact norms_valid_approx0. Qed.
Print Assumptions C20_norms_valid_is_tau0.

Theorem C20_norms_okb_approx : forall (tau : R) (M : mat R) (ns : list R), norms_okb Rops tau M ns = true -> norms_approx tau M ns.
Proof. exact norms_okb_approx. Qed.
Print Assumptions C20_norms_okb_approx.

(* every cosine computed with such tapes is bounded by 1 / (1 - tau) *)
Theorem C20_cosine_bound_approx_tape : forall (tau : R) (r : nat) (m : cmode R) (i j : nat), 0 <= tau < 1 ->
  mode_approx tau r m -> (i < r)%nat -> (j < r)%nat -> Rabs (cosine m i j) <= / (1 - tau).
Proof. exact cosine_bound_approx. Qed.
Print Assumptions C20_cosine_bound_approx_tape.

(* congruence_coefficient: the value lies in [-K, K] ([0, K] with absolute values), K = (1 - tau)^-(number of modes) *)
Theorem C20_congruence_range_approx_tape : forall (tau : R) (absv : bool) (As Bs : list (mat R)) (nas nbs : list (list R))
  (assign : mat R -> list nat) (v : R) (p : list nat), 0 <= tau < 1 ->
  congruence Rops absv As Bs nas nbs assign = Ok (v, p) -> tape_approx tau (zip_modes As Bs nas nbs) ->
  is_perm (ncols (hd [] As)) p ->
  let K := (/ (1 - tau)) ^ length (zip_modes As Bs nas nbs) in - K <= v <= K /\ (absv = true -> 0 <= v).
Proof. exact congruence_range_approx. Qed.
Print Assumptions C20_congruence_range_approx_tape.

(* correlation_index: the range [0, 1] holds EXACTLY for every tau <= 1/2 (|max - 1| <= 1 as long as the entries stay below 2) *)
Theorem C20_corrindex_range_approx_tape : forall (tau : R) (meth : cmethod) (tol : R) (f1s f2s : list (mat R)) (n1s n2s : list (list R)) (v : R),
  0 <= tau <= / 2 -> correlation_index Rops (Some meth) tol f1s f2s n1s n2s = Ok v ->
  tape_approx tau (ci_modes meth f1s f2s n1s n2s) -> 0 <= v <= 1.
Proof. exact correlation_index_range_approx. Qed.
Print Assumptions C20_corrindex_range_approx_tape.

(* what a passing case means for the range (Paramcoq transfer of norms_okb): the tapes of the real-number model on the case's
   rational inputs are valid up to 1e-11, hence the bounds above apply to it *)
Theorem C20_agree_cong_range_sound : forall (absv : bool) (As Bs : list (mat Q)) (nas nbs : list (list Q)) (v : Q) (p : list nat),
  Corr.C20.agree_cong absv As Bs nas nbs (Ok (v, p)) = true ->
  let ms := zip_modes (map mapR As) (map mapR Bs) (map (map Q2R) nas) (map (map Q2R) nbs) in
  let K := (/ (1 - / 10 ^ 11)) ^ length ms in
  tape_approx (/ 10 ^ 11) ms /\
  exists (r : nat) (C : mat R),
    cong_matrix Rops absv (map mapR As) (map mapR Bs) (map (map Q2R) nas) (map (map Q2R) nbs) = Ok (r, C) /\
    ((0 < r)%nat -> - K <= score Rops r C p <= K /\ (absv = true -> 0 <= score Rops r C p)).
Proof. exact agree_cong_range_sound. Qed.
Print Assumptions C20_agree_cong_range_sound.

Theorem C20_agree_corridx_range_sound : forall (meth : cmethod) (ctol : Q) (f1 f2 : list (mat Q)) (n1 n2 : list (list Q)) (v : Q),
  Corr.C20.agree_corridx (Some meth) ctol f1 f2 n1 n2 (Ok v) = true ->
  exists vm : R, correlation_index Rops (Some meth) (Q2R ctol) (map mapR f1) (map mapR f2) (map (map Q2R) n1) (map (map Q2R) n2) = Ok vm /\
    tape_approx (/ 10 ^ 11) (ci_modes meth (map mapR f1) (map mapR f2) (map (map Q2R) n1) (map (map Q2R) n2)) /\
    0 <= vm <= 1 /\ Rabs (Q2R v - vm) <= / 10 ^ 9 * (2 + Rabs (Q2R v)).
Proof. exact agree_corridx_range_sound. Qed.
Print Assumptions C20_agree_corridx_range_sound.

(* non-vacuity: a tape that is NOT exact (5.00000000001 for the column (3, 4)) meets norms_approx 1e-11 but not norms_valid *)
Example C20_ex_norms_approx : norms_approx (/ 10 ^ 11) [[3]; [4]] [5 + / 10 ^ 11] /\ ~ norms_valid [[3]; [4]] [5 + / 10 ^ 11].
Proof.
  assert (P : 0 < / 10 ^ 11) by (apply Rinv_0_lt_compat; apply pow_lt; lra).
  assert (S : / 10 ^ 11 <= / 10) by (apply Rinv_le_contravar; [lra | simpl; lra]).
  split.
  - intros j Hj. cbn [ncols length] in Hj. assert (j = 0%nat) by lia. subst j. cbn [nth]. split; [lra|].
    rewrite col_sq_rsum. cbn [nrows length rsum]. unfold mget. cbn [nth f0 Rops]. apply Rabs_le. nra.
  - intros H. destruct (H 0%nat) as (_ & E); [cbn; lia|]. cbn [nth] in E. rewrite col_sq_rsum in E. cbn [nrows length rsum] in E.
    unfold mget in E. cbn [nth f0 Rops] in E. nra.
Qed.

(* ---------- leverage_score_dist: the simplex property with the tolerance of the executed SVD check explicit, and what a passing
   case means (Paramcoq transfer; Nat.max is kept out of the translated term by passing max(shape) as a nat) ---------- *)
Theorem C20_leverage_simplex_approx : forall (U : mat R) (sv : list R) (nr nc : nat) (eps : R) (l : list R) (delta : R),
  leverage_score_dist Rops U sv nr nc eps = Ok l ->
  (forall j, (j < length sv)%nat -> Rabs (rsum nr (fun i => (mget Rops U i j) ^ 2) - 1) <= delta) ->
  length l = nr /\ Forall (fun x => 0 <= x) l /\ Rabs (fsum Rops l - 1) <= delta.
Proof. exact leverage_simplex_approx. Qed.
Print Assumptions C20_leverage_simplex_approx.

Theorem C20_agree_lev_sound : forall (ltol : Q) (M U Vt : mat Q) (sv : list Q) (eps : Q) (l : list Q),
  Corr.C20.agree_lev false ltol M U Vt sv eps (Ok l) = true ->
  exists lm : list R,
    leverage_score_dist_any Rops false (mapR U) (map Q2R sv) (nrows M) (ncols M) (Q2R eps) = Ok lm /\
    Forall2 (fun x y => Rabs (x - y) <= Q2R ltol + Q2R ltol * (Rabs x + Rabs y)) lm (map Q2R l) /\
    ortho_approx (Q2R ltol) (mapR U) (nrows M) (length sv) /\
    length lm = nrows M /\ Forall (fun x => 0 <= x) lm /\ Rabs (fsum Rops lm - 1) <= Q2R ltol.
Proof. exact agree_lev_sound. Qed.
Print Assumptions C20_agree_lev_sound.

Theorem C20_agree_lev_renorm_sound : forall (ltol : Q) (M U Vt : mat Q) (sv : list Q) (eps : Q) (l : list Q),
  Corr.C20.agree_lev true ltol M U Vt sv eps (Ok l) = true ->
  exists lm : list R,
    leverage_score_dist_any Rops true (mapR U) (map Q2R sv) (nrows M) (ncols M) (Q2R eps) = Ok lm /\
    Forall2 (fun x y => Rabs (x - y) <= Q2R ltol + Q2R ltol * (Rabs x + Rabs y)) lm (map Q2R l) /\
    Rabs (Q2R (fsum Qops l) - 1) <= / 10 ^ 12.
Proof. exact agree_lev_renorm_sound. Qed.
Print Assumptions C20_agree_lev_renorm_sound.

Example C20_ex_agree_lev :
  Corr.C20.agree_lev false (1 # 1000000000)%Q [[3#5]; [4#5]]%Q [[3#5]; [4#5]]%Q [[1]]%Q [1]%Q (1 # 4503599627370496)%Q (Ok [9#25; 16#25]%Q) = true /\
  Corr.C20.agree_lev true (1 # 100000)%Q [[3#5]; [4#5]]%Q [[3#5]; [4#5]]%Q [[1]]%Q [1]%Q (1 # 8388608)%Q (Ok [9#25; 16#25]%Q) = true.
Proof. vm_compute. split; reflexivity. Qed.
