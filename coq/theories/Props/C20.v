(* C20 -- property theorems only.  Statements are about the model of tensorly/metrics (Model/Metrics.v)
   instantiated at the real numbers (Rops); the executed instance is Qops.  Column norms enter as data with
   the contract norms_valid (n > 0, n^2 = sum of squares); linear_sum_assignment is the oracle `assign`
   with contract lsa_contract (a maximum-weight perfect matching). *)
From Coq Require Import List Arith Bool Reals QArith.
From TLV Require Import Base.Shape Base.PyList Base.Tensor Base.Ops Base.RSum Model.Metrics Proofs.MetricsProofs.
Import ListNotations.
Local Close Scope Q_scope.
Local Open Scope R_scope.

(* the brute-force search space contains every permutation of 0..n-1, and nothing else *)
Theorem C20_all_perms_complete : forall (n : nat) (p : list nat),
  length p = n -> NoDup p -> (forall k, In k p -> (k < n)%nat) -> In p (all_perms n).
Proof. intros n p H1 H2 H3. apply all_perms_complete. repeat split; assumption. Qed.
Print Assumptions C20_all_perms_complete.

Theorem C20_all_perms_sound : forall (n : nat) (p : list nat), In p (all_perms n) -> is_perm n p.
Proof. exact all_perms_sound. Qed.
Print Assumptions C20_all_perms_sound.

(* the brute force attains the maximum of the mean congruence over ALL matchings, for every matrix *)
Theorem C20_best_perm_max : forall (r : nat) (C : mat R) (p : list nat),
  is_perm r p -> score Rops r C p <= score Rops r C (best_perm Rops r C) /\ is_perm r (best_perm Rops r C).
Proof. intros r C p H. split; [now apply best_perm_max | apply best_perm_is_perm]. Qed.
Print Assumptions C20_best_perm_max.

(* congruence_coefficient returns the maximum over all column matchings together with a permutation attaining
   it, PROVIDED the assignment oracle meets its contract (which every run re-checks against best_perm) *)
Theorem C20_congruence_is_max : forall (absv : bool) (As Bs : list (mat R)) (nas nbs : list (list R))
  (assign : mat R -> list nat) (v : R) (p : list nat),
  congruence Rops absv As Bs nas nbs assign = Ok (v, p) -> lsa_contract assign ->
  let r := ncols (hd [] As) in let C := cong_all Rops absv r (zip_modes As Bs nas nbs) in
  is_perm r p /\ v = score Rops r C p /\ v = score Rops r C (best_perm Rops r C) /\
  forall q, is_perm r q -> score Rops r C q <= v.
Proof. exact congruence_is_max. Qed.
Print Assumptions C20_congruence_is_max.

(* every cosine is bounded by 1 (Cauchy-Schwarz), hence the coefficient of ANY matching lies in [-1,1],
   and in [0,1] when absolute values are used *)
Theorem C20_cosine_bound : forall (r : nat) (m : cmode R) (i j : nat),
  mode_ok r m -> (i < r)%nat -> (j < r)%nat -> Rabs (cosine m i j) <= 1.
Proof. exact cosine_bound. Qed.
Print Assumptions C20_cosine_bound.

Theorem C20_congruence_range : forall (absv : bool) (As Bs : list (mat R)) (nas nbs : list (list R))
  (assign : mat R -> list nat) (v : R) (p : list nat),
  congruence Rops absv As Bs nas nbs assign = Ok (v, p) -> tape_valid (zip_modes As Bs nas nbs) ->
  is_perm (ncols (hd [] As)) p -> -1 <= v <= 1 /\ (absv = true -> 0 <= v).
Proof. exact congruence_range. Qed.
Print Assumptions C20_congruence_range.
