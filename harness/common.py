"""Common machinery of the /verif checks: Coq build, case-file evaluation, findings
classification, replay files, evidence files.  Run with PYTHONPATH=/repo:/verif."""
import fcntl, hashlib, json, os, re, signal, subprocess, sys, time, traceback
from fractions import Fraction

VERIF = os.path.dirname(os.path.dirname(os.path.abspath(__file__)))
COQ = os.path.join(VERIF, "coq")
BUILD = os.path.join(VERIF, "build")
REPO = os.environ.get("VERIF_REPO", "/repo")
def _nproc():
    n = min(16, os.cpu_count() or 4)
    if os.environ.get("VERIF_NPROC"):
        return max(1, int(os.environ["VERIF_NPROC"]))
    try:  # be a good neighbour on a loaded machine (many checks running at once): fewer parallel coqc processes
        if os.getloadavg()[0] > 2 * n:
            return max(2, n // 4)
    except OSError:
        pass
    return n


NPROC = _nproc()

GATE_RE = re.compile(
    r"\b(Admitted|admit|Axiom|Axioms|Parameter|Parameters|Conjecture|Conjectures|Admit Obligations|"
    r"bypass_check|Unset Guard Checking|Unset Positivity Checking|Unset Universe Checking|type-in-type|impredicative-set)\b")


# ----------------------------------------------------------------------------- Coq side
def _lock():
    os.makedirs(BUILD, exist_ok=True)
    f = open(os.path.join(BUILD, ".lock"), "w")
    fcntl.flock(f, fcntl.LOCK_EX)
    return f


def strip_comments(src):
    out, depth, i = [], 0, 0
    while i < len(src):
        if src.startswith("(*", i):
            depth += 1; i += 2
        elif src.startswith("*)", i) and depth:
            depth -= 1; i += 2
        else:
            if not depth:
                out.append(src[i])
            i += 1
    return "".join(out)


def grep_gate():
    """Reject any Admitted / Axiom / Parameter / guard switch in the development."""
    bad = []
    for root, _, files in os.walk(os.path.join(COQ, "theories")):
        for fn in files:
            if fn.endswith(".v"):
                p = os.path.join(root, fn)
                src = strip_comments(open(p).read())
                for n, line in enumerate(src.splitlines(), 1):
                    if GATE_RE.search(line):
                        bad.append(f"{p}:{n}: {line.strip()}")
    # Variables/Hypotheses outside sections are checked by Print Assumptions (they would show up as axioms)
    return bad


def coq_make(targets, timeout=3000):
    """Full .vo build (never -vos) of the given targets under a file lock and a shell timeout."""
    lock = _lock()
    try:
        if not os.path.exists(os.path.join(COQ, "Makefile")) or \
                os.path.getmtime(os.path.join(COQ, "Makefile")) < _newest_v():
            vs = sorted(os.path.relpath(os.path.join(r, f), COQ)
                        for r, _, fs in os.walk(os.path.join(COQ, "theories")) for f in fs if f.endswith(".v"))
            subprocess.run(["coq_makefile", "-f", "_CoqProject", "-o", "Makefile"] + vs, cwd=COQ,
                           check=True, capture_output=True)
        r = subprocess.run(["timeout", str(timeout), "make", f"-j{NPROC}"] + targets, cwd=COQ,
                           capture_output=True, text=True)
        return r.returncode == 0, r.stdout + r.stderr
    finally:
        lock.close()


def _newest_v():
    m = 0
    for r, _, fs in os.walk(os.path.join(COQ, "theories")):
        for f in fs:
            if f.endswith(".v"):
                m = max(m, os.path.getmtime(os.path.join(r, f)))
    m = max(m, os.path.getmtime(os.path.join(COQ, "_CoqProject")))
    return m


def theorems_of(prop):
    src = strip_comments(open(os.path.join(COQ, "theories", "Props", f"{prop}.v")).read())
    return re.findall(r"^\s*(?:Theorem|Corollary)\s+(\w+)", src, re.M)


def _pa_chunk(prop, names, tag):
    d = os.path.join(BUILD, "pa", f"{os.getpid()}_{tag}"); os.makedirs(d, exist_ok=True)
    fn = os.path.join(d, f"PA_{prop}.v")
    with open(fn, "w") as f:
        f.write(f"From TLV Require Import Props.{prop}.\n")
        for n in names:
            f.write(f'Goal True. idtac "@@BEGIN {n}". exact I. Qed.\nPrint Assumptions {n}.\n')
        f.write('Goal True. idtac "@@END". exact I. Qed.\n')
    r = subprocess.run(["timeout", "900", "coqc", "-R", os.path.join(COQ, "theories"), "TLV", fn],
                       capture_output=True, text=True, cwd=d)
    import shutil
    shutil.rmtree(d, ignore_errors=True)
    res = {}
    if r.returncode != 0:
        return res, r.stdout + r.stderr
    chunks = re.split(r"@@BEGIN (\w+)\n", r.stdout)
    for i in range(1, len(chunks), 2):
        name, body = chunks[i], chunks[i + 1].split("@@END")[0]
        if "Closed under the global context" in body:
            res[name] = []
        else:
            axs = re.findall(r"^([A-Za-z_][\w.']*)\s*:", body, re.M)
            res[name] = sorted(a for a in set(axs) if a not in ("Axioms", "Variables", "Hypotheses"))
    return res, r.stdout


def _vo_stamp():
    h = hashlib.sha1()
    for r, _, fs in sorted(os.walk(os.path.join(COQ, "theories"))):
        for f in sorted(fs):
            if f.endswith(".vo"):
                st = os.stat(os.path.join(r, f))
                h.update(f"{r}/{f}:{st.st_mtime_ns}:{st.st_size};".encode())
    return h.hexdigest()


PA_EXACT = False   # set by Check.build_proofs: the thorough tier always asks per theorem (exact lists, refreshes the cache)


def _pa_union(prop, names):
    """One Print Assumptions question for a term that mentions every property theorem: the dependency closure (for theorems over
    the reals: the whole Reals library) is walked once instead of once per theorem (~1-2 s instead of ~0.5-0.9 s per theorem).
    Returns (kind, axioms, output): kind 'closed' (every theorem is closed under the global context - exact), 'axioms' (the union of
    the theorems' axioms - an over-approximation of each theorem's own list) or None (the question could not be asked)."""
    import shutil
    d = os.path.join(BUILD, "pa", f"{os.getpid()}_{prop}_union"); shutil.rmtree(d, ignore_errors=True); os.makedirs(d, exist_ok=True)
    fn = os.path.join(d, f"PAU_{prop}.v")
    with open(fn, "w") as f:
        f.write(f"From TLV Require Import Props.{prop}.\n")
        f.write("Definition all_property_theorems : True :=\n" + "".join(f"  let _ := @{n} in\n" for n in names) + "  I.\n")
        f.write('Goal True. idtac "@@BEGIN". exact I. Qed.\nPrint Assumptions all_property_theorems.\nGoal True. idtac "@@END". exact I. Qed.\n')
    r = subprocess.run(["timeout", "600", "coqc", "-R", os.path.join(COQ, "theories"), "TLV", fn], capture_output=True, text=True, cwd=d)
    shutil.rmtree(d, ignore_errors=True)
    if r.returncode != 0 or "@@BEGIN" not in r.stdout or "@@END" not in r.stdout:
        return None, [], r.stdout + r.stderr
    body = r.stdout.split("@@BEGIN", 1)[1].split("@@END")[0]
    if "Closed under the global context" in body:
        return "closed", [], r.stdout
    axs = sorted(a for a in set(re.findall(r"^([A-Za-z_][\w.']*)\s*:", body, re.M)) if a not in ("Axioms", "Variables", "Hypotheses"))
    return ("axioms" if axs else None), axs, r.stdout


def print_assumptions(prop, names):
    """Ask Coq (fresh coqc runs) for the axioms the property theorems depend on.  Returns {theorem: [axioms]} for the theorems that
    exist in the compiled Props file.  The answer is a function of the compiled .vo files only, so exact per-theorem answers are
    cached under build/ keyed by their time stamps and sizes (any rebuild invalidates the cache).  Without a valid cache the quick
    tier first asks ONE question about all theorems together (_pa_union): if that term is closed, or depends on standard-library
    axioms only, every theorem is clean and the verdict is decided (each theorem is then reported with the union, an
    over-approximation of its own list, marked in the evidence); anything else - a missing theorem, a non-stdlib axiom, the
    thorough tier (PA_EXACT) - is answered per theorem in parallel chunks, which also refreshes the cache."""
    from concurrent.futures import ThreadPoolExecutor
    global PA_LAST_MODE
    cache = os.path.join(BUILD, "pa_cache", f"{prop}.json")
    stamp = _vo_stamp() + ":" + ",".join(names)
    try:
        c = json.load(open(cache))
        if c.get("stamp") == stamp and not os.environ.get("VERIF_NO_PA_CACHE"):
            PA_LAST_MODE = "per-theorem (cached)"
            return c["res"], "(cached: compiled objects unchanged since the last Print Assumptions run)"
    except Exception:
        pass
    if names and not PA_EXACT and not os.environ.get("VERIF_PA_EXACT"):
        kind, axs, out = _pa_union(prop, names)
        if kind == "closed":
            res = {n: [] for n in names}
            os.makedirs(os.path.dirname(cache), exist_ok=True)
            json.dump({"stamp": stamp, "res": res}, open(cache, "w"))
            PA_LAST_MODE = "union question: closed under the global context (exact for every theorem)"
            return res, out
        if kind == "axioms" and not own_axioms(axs):
            PA_LAST_MODE = "union question (quick tier): each theorem is listed with the union of all theorems' axioms, an over-approximation of its own list; exact per-theorem lists come from the thorough tier"
            return {n: list(axs) for n in names}, out
    k = max(1, min(NPROC, 12, len(names) // 4))
    parts = [names[i::k] for i in range(k)]
    res, outs = {}, []
    with ThreadPoolExecutor(k) as ex:
        for r, o in ex.map(lambda a: _pa_chunk(prop, a[1], a[0]), list(enumerate(parts))):
            res.update(r); outs.append(o)
    if all(n in res for n in names):
        os.makedirs(os.path.dirname(cache), exist_ok=True)
        json.dump({"stamp": stamp, "res": res}, open(cache, "w"))
    PA_LAST_MODE = "per-theorem"
    return res, "\n".join(outs)


PA_LAST_MODE = ""


STDLIB_AXIOM_PREFIXES = ("ClassicalDedekindReals.", "FunctionalExtensionality.", "Classical_Prop.",
                         "ProofIrrelevance.", "Eqdep.", "JMeq.", "ClassicalEpsilon.", "Rdefinitions.",
                         "Raxioms.", "ClassicalFacts.", "PropExtensionality.", "Classical", "functional_extensionality",
                         "sig_forall_dec", "sig_not_dec", "classic", "proof_irrelevance", "eq_rect_eq", "JMeq_eq",
                         "constructive_indefinite_description", "constructive_definite_description")


def own_axioms(axs):
    """Axioms that are NOT declared by the standard library (must be empty)."""
    return [a for a in axs if not a.startswith(STDLIB_AXIOM_PREFIXES)]


def run_case_shards(prop, header, case_type, cases, shard=300, timeout=600, tag="cases"):
    """cases: list of Gallina terms of type `case` (strings, already carrying their id).
    Each shard file evaluates `(length cs, failing cs)` with vm_compute.
    Returns (set of failing ids, n_evaluated, list of not-evaluated shard descriptions)."""
    import shutil
    d = os.path.join(BUILD, "cases", prop, f"{tag}_{os.getpid()}")   # per-process: concurrent runs never share case files
    shutil.rmtree(d, ignore_errors=True)
    os.makedirs(d, exist_ok=True)
    files = []
    for k in range(0, len(cases), shard):
        chunk = cases[k:k + shard]
        fn = os.path.join(d, f"S{k // shard}.v")
        with open(fn, "w") as f:
            f.write(header + "\n")
            f.write(f"Definition cs : list {case_type} := [\n" + ";\n".join(chunk) + "\n].\n")
            f.write("Eval vm_compute in (length cs, failing cs).\n")
        files.append((fn, len(chunk)))
    procs = []
    failing, n_eval, broken = set(), 0, []
    pending = list(files)
    running = []

    def launch(fn):
        return subprocess.Popen(["timeout", str(timeout), "coqc", "-w", "none", "-R", os.path.join(COQ, "theories"), "TLV", fn],
                                stdout=subprocess.PIPE, stderr=subprocess.PIPE, text=True, cwd=d)
    while pending or running:
        while pending and len(running) < NPROC:
            fn, n = pending.pop(0)
            running.append((launch(fn), fn, n))
        p, fn, n = running.pop(0)
        out, err = p.communicate()
        m = re.search(r"=\s*\((\d+)(?:%nat)?,\s*\[([\d;\s]*)\](?:%nat)?\)", out.replace("\n", " ").replace("%nat;", ";").replace("%nat]", "]"))
        if p.returncode != 0 or not m or int(m.group(1)) != n:
            broken.append({"shard": fn, "rc": p.returncode, "stderr": err[-2000:], "stdout": out[-500:]})
            continue
        n_eval += n
        ids = [int(x) for x in m.group(2).replace(" ", "").split(";") if x]
        failing.update(ids)
    if broken:
        # one serial retry with a doubled time limit: on a loaded machine a shard can be killed (out of memory) or time out
        # for reasons that have nothing to do with its content; a shard that fails twice stays "not evaluated"
        still = []
        sizes = dict(files)
        if any("inconsistent assumptions" in (b.get("stderr") or "") for b in broken):
            coq_make([f"theories/Props/{prop}.vo", f"theories/Corr/{prop}.vo"])
        for b in broken:
            fn = b["shard"]; n = sizes[fn]
            p = subprocess.Popen(["timeout", str(2 * timeout), "coqc", "-w", "none", "-R", os.path.join(COQ, "theories"), "TLV", fn],
                                 stdout=subprocess.PIPE, stderr=subprocess.PIPE, text=True, cwd=d)
            out, err = p.communicate()
            m = re.search(r"=\s*\((\d+)(?:%nat)?,\s*\[([\d;\s]*)\](?:%nat)?\)", out.replace("\n", " ").replace("%nat;", ";").replace("%nat]", "]"))
            if p.returncode != 0 or not m or int(m.group(1)) != n:
                still.append({"shard": fn, "rc": p.returncode, "stderr": err[-2000:], "stdout": out[-500:], "retried": True})
                continue
            n_eval += n
            failing.update(int(x) for x in m.group(2).replace(" ", "").split(";") if x)
        broken = still
    if not broken and not os.environ.get("VERIF_KEEP_CASES"):
        shutil.rmtree(d, ignore_errors=True)
    return failing, n_eval, broken


# ----------------------------------------------------------------------------- literals
def z(n):
    return f"({int(n)})%Z"


def nat(n):
    n = int(n)
    assert 0 <= n < 5000, n
    return f"{n}%nat"


def nat_list(xs):
    return "[" + "; ".join(str(int(x)) for x in xs) + "]%nat" if len(xs) else "(@nil nat)"


def z_list(xs):
    return "[" + "; ".join(str(int(x)) for x in xs) + "]%Z" if len(xs) else "(@nil Z)"


def q(x):
    """exact rational literal for a float / int / Fraction"""
    fr = Fraction(x) if not isinstance(x, float) else Fraction(*x.as_integer_ratio())
    return f"(Qmake ({fr.numerator})%Z ({fr.denominator})%positive)"


def q_list(xs):
    return "[" + "; ".join(q(x) for x in xs) + "]" if len(xs) else "(@nil Q)"


def opt(x, f):
    return "None" if x is None else f"(Some {f(x)})"


def boolc(b):
    return "true" if b else "false"


def ztensor(shape, data):
    return f"(mk {nat_list(shape)} {z_list(data)})"


def qtensor(shape, data):
    return f"(mk {nat_list(shape)} {q_list(data)})"


def res_lit(x, f):
    return "Err" if x is None else f"(Ok {f(x)})"


# ----------------------------------------------------------------------------- running the implementation
class CaseTimeout(Exception):
    pass


def _alarm(signum, frame):
    raise CaseTimeout()


def call_impl(fn, *args, timeout=20, **kw):
    """Run one implementation call; returns ('ok', value) | ('reject'|'crash', exception repr)."""
    import warnings
    signal.signal(signal.SIGALRM, _alarm)
    signal.alarm(timeout)
    try:
        with warnings.catch_warnings():
            warnings.simplefilter("ignore")
            return ("ok", fn(*args, **kw))
    except CaseTimeout:
        return ("crash", "timeout")
    except (ValueError, TypeError, IndexError, KeyError) as e:
        return ("reject", f"{type(e).__name__}: {e}"[:300])
    except Exception as e:  # noqa
        return ("crash", f"{type(e).__name__}: {e}"[:300])
    finally:
        signal.alarm(0)


def reset_backends():
    import tensorly as tl
    from tensorly import tenalg
    try:
        if tl.get_backend() != "numpy":
            tl.set_backend("numpy")
        if tenalg.get_backend() != "core":
            tenalg.set_backend("core")
    except Exception:
        pass


def repo_head():
    try:
        h = subprocess.run(["git", "-C", REPO, "rev-parse", "HEAD"], capture_output=True, text=True).stdout.strip()
        dirty = bool(subprocess.run(["git", "-C", REPO, "status", "--porcelain", "--untracked-files=no"],
                                    capture_output=True, text=True).stdout.strip())
        return h, dirty
    except Exception:
        return "unknown", True


# ----------------------------------------------------------------------------- the check object
class Check:
    def __init__(self, prop, tier, seed):
        self.prop, self.tier, self.seed = prop, tier, seed
        self.t0 = time.time()
        self.findings = []        # failing inputs (predicate failures on the implementation)
        self.disagreements = []   # model/implementation disagreements without a failing input yet
        self.broken = []          # proofs / shards that did not check
        self.notes = []
        self.cov = {"evaluations": 0, "distinct_nontrivial": 0, "samples": [], "histograms": {}}
        self.keys = set()
        self.obligations = 0
        self.discharged = 0
        self.axioms = {}
        self.trusted = []
        self.checker_cmds = []
        self.level = "proof"
        self.known_hit = {}
        self.assumptions = []

    # --- coverage book-keeping
    def count(self, key=None, nontrivial=True, n=1):
        self.cov["evaluations"] += n
        if key is not None and nontrivial:
            self.keys.add(key)

    def hist(self, name, k):
        h = self.cov["histograms"].setdefault(name, {})
        h[str(k)] = h.get(str(k), 0) + 1

    def sample(self, s, maxn=4):
        if len(self.cov["samples"]) < maxn:
            self.cov["samples"].append(s)

    # --- proofs
    def build_proofs(self, extra_targets=()):
        bad = grep_gate()
        if bad:
            self.broken.append({"what": "grep gate", "detail": bad[:10]})
        targets = [f"theories/Props/{self.prop}.vo", f"theories/Corr/{self.prop}.vo"] + list(extra_targets)
        targets = [t for t in targets if os.path.exists(os.path.join(COQ, t[:-1]))]
        ok, log = coq_make(targets)
        self.checker_cmds.append("make -C coq " + " ".join(targets) + "  (coq_makefile, full .vo build, coqc 8.16.1)")
        names = theorems_of(self.prop)
        self.obligations = len(names)
        if not ok:
            tail = "\n".join(log.splitlines()[-25:])
            self.broken.append({"what": f"Coq build of Props/{self.prop}.vo failed", "detail": tail})
            return False
        global PA_EXACT
        PA_EXACT = (self.tier == "thorough")
        axs, out = print_assumptions(self.prop, names)
        self.axioms = axs
        self.axioms_mode = PA_LAST_MODE
        self.discharged = sum(1 for n in names if n in axs)
        for n in names:
            if n not in axs:
                self.broken.append({"what": f"theorem {n} not found in compiled Props/{self.prop}.vo", "detail": out[-500:]})
            elif own_axioms(axs[n]):
                self.broken.append({"what": f"theorem {n} depends on non-stdlib axioms", "detail": own_axioms(axs[n])})
        return not self.broken

    # --- results
    def finding(self, entry_point, inputs, message, predicate, observed=None, expected=None, extra=None):
        self.findings.append(dict(entry_point=entry_point, inputs=inputs, message=message, predicate=predicate,
                                  observed=observed, expected=expected, extra=extra or {}))

    def disagreement(self, correspondence, case, detail=None):
        self.disagreements.append(dict(correspondence=correspondence, case=case, detail=detail))

    def finish(self, known_classifiers=None):
        known = load_known(self.prop)
        head, dirty = repo_head()
        viol_lines, kf_lines = [], []
        new_findings = []
        for f in self.findings:
            kid = None
            for k in known:
                if k.get("entry_point") == f["entry_point"]:
                    clf = (known_classifiers or {}).get(k.get("classifier"))
                    if clf is not None and clf(f):
                        kid = k["id"]; break
            if kid:
                self.known_hit.setdefault(kid, f)
            else:
                new_findings.append(f)
        for kid, f in self.known_hit.items():
            k = [k for k in known if k["id"] == kid][0]
            kf_lines.append(f"KNOWN-FINDING: property={self.prop} {k['what']} [{kid}] e.g. {json.dumps(jsonable(f['inputs']))[:200]}")
        rdir = os.path.join(os.environ.get("VERIF_REPLAY_DIR", os.path.join(VERIF, "replays")), self.prop); os.makedirs(rdir, exist_ok=True)
        seen_sig = set()
        for f in new_findings:
            sig = (f["entry_point"], f["predicate"])
            if sig in seen_sig and len(viol_lines) >= 5:
                continue
            seen_sig.add(sig)
            payload = dict(property=self.prop, kind="failing-input", seed=self.seed, tier=self.tier,
                           repo_head=head, dirty=dirty, **jsonable(f))
            path = write_replay(rdir, payload)
            viol_lines.append(f"VIOLATION property={self.prop} replay={path}")
            if len(viol_lines) >= 12:
                break
        if not new_findings:
            # broken proof / correspondence without a failing input
            for b in self.broken:
                payload = dict(property=self.prop, kind="no-failing-input-found", what=b["what"], detail=b.get("detail"),
                               theorem_or_correspondence=b["what"], seed=self.seed, tier=self.tier, repo_head=head, dirty=dirty)
                path = write_replay(rdir, payload)
                viol_lines.append(f"VIOLATION property={self.prop} replay={path} no-failing-input-found")
            if self.disagreements:
                payload = dict(property=self.prop, kind="no-failing-input-found",
                               theorem_or_correspondence=self.disagreements[0]["correspondence"],
                               n_disagreements=len(self.disagreements),
                               disagreeing_cases=jsonable(self.disagreements[:20]),
                               seed=self.seed, tier=self.tier, repo_head=head, dirty=dirty)
                path = write_replay(rdir, payload)
                viol_lines.append(f"VIOLATION property={self.prop} replay={path} no-failing-input-found")
        self.write_evidence(len(viol_lines))
        for l in kf_lines:
            print(l)
        for l in viol_lines:
            print(l)
        ok = not viol_lines
        print(f"[{self.prop}] tier={self.tier} seed={self.seed} evaluations={self.cov['evaluations']} "
              f"obligations={self.discharged}/{self.obligations} findings={len(new_findings)} "
              f"disagreements={len(self.disagreements)} broken={len(self.broken)} known={len(self.known_hit)} "
              f"wall={time.time() - self.t0:.1f}s -> {'OK' if ok else 'VIOLATION'}")
        return 0 if ok else 1

    def write_evidence(self, nviol):
        cov = dict(self.cov)
        cov["distinct_nontrivial"] = len(self.keys)
        cov["obligations"] = self.obligations
        cov["discharged"] = self.discharged
        cov["checker_cmd"] = " ; ".join(self.checker_cmds) or "none"
        axs = sorted({a for v in self.axioms.values() for a in v})
        cov["trusted_base"] = ["Coq 8.16.1 kernel + vm_compute (no native_compute)",
                               "axioms reported by Print Assumptions for the compiled objects this run used (re-computed whenever any .vo changed): " + (", ".join(axs) if axs else "none (closed under the global context)"),
                               "hand-written Gallina model tied to the code by this run's correspondence check (sampled, not universal)",
                               "harness: generators, literal printers, comparators"] + self.trusted
        cov["axioms_per_theorem"] = self.axioms
        cov["axioms_per_theorem_mode"] = getattr(self, "axioms_mode", "")
        cov["known_findings_hit"] = sorted(self.known_hit)
        cov["notes"] = self.notes
        cov["broken"] = jsonable(self.broken)[:10]
        ev = dict(property_id=self.prop, tier=self.tier, seed=self.seed, level=self.level, coverage=cov,
                  assumptions=self.assumptions, wall_s=round(time.time() - self.t0, 2), violations=nviol)
        evdir = os.environ.get("VERIF_EVIDENCE_DIR", os.path.join(VERIF, "evidence"))
        os.makedirs(evdir, exist_ok=True)
        with open(os.path.join(evdir, f"{self.prop}.json"), "w") as f:
            json.dump(jsonable(ev), f, indent=1, sort_keys=True)


def jsonable(o):
    import numpy as np
    if isinstance(o, dict):
        return {str(k): jsonable(v) for k, v in o.items()}
    if isinstance(o, (list, tuple, set)):
        return [jsonable(x) for x in o]
    if isinstance(o, np.ndarray):
        if o.dtype.kind == "f":
            return {"dtype": str(o.dtype), "shape": list(o.shape), "hex": [float(x).hex() for x in o.ravel()]}
        if o.dtype.kind == "c":
            return {"dtype": str(o.dtype), "shape": list(o.shape), "re_im_hex": [[float(x.real).hex(), float(x.imag).hex()] for x in o.ravel()]}
        return {"dtype": str(o.dtype), "shape": list(o.shape), "values": o.ravel().tolist()}
    if isinstance(o, (np.integer,)):
        return int(o)
    if isinstance(o, (np.floating,)):
        return float(o)
    if isinstance(o, (np.bool_,)):
        return bool(o)
    if isinstance(o, complex):
        return [o.real, o.imag]
    if isinstance(o, Fraction):
        return str(o)
    if isinstance(o, (str, int, float, bool)) or o is None:
        return o
    return repr(o)[:300]


def from_jsonable_array(d):
    import numpy as np
    if "hex" in d:
        return np.array([float.fromhex(x) for x in d["hex"]], dtype=d["dtype"]).reshape(d["shape"])
    if "re_im_hex" in d:
        return np.array([complex(float.fromhex(a), float.fromhex(b)) for a, b in d["re_im_hex"]], dtype=d["dtype"]).reshape(d["shape"])
    return np.array(d["values"], dtype=d["dtype"]).reshape(d["shape"])


def write_replay(rdir, payload):
    s = json.dumps(jsonable(payload), indent=1, sort_keys=True)
    h = hashlib.sha1(s.encode()).hexdigest()[:12]
    path = os.path.join(rdir, f"{h}.json")
    with open(path, "w") as f:
        f.write(s)
    return path


def load_known(prop):
    p = os.path.join(VERIF, "known_findings.json")
    if not os.path.exists(p):
        return []
    return [k for k in json.load(open(p)).get("findings", []) if k.get("property") == prop]
