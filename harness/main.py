import argparse, importlib, json, os, sys, traceback
from harness import common


def main():
    ap = argparse.ArgumentParser()
    ap.add_argument("prop")
    ap.add_argument("--tier", default=os.environ.get("VERIF_TIER", "quick"), choices=["quick", "thorough"])
    ap.add_argument("--seed", type=int, default=int(os.environ.get("VERIF_SEED", "20260926")))
    ap.add_argument("--replay", default=None)
    a = ap.parse_args()
    mod = importlib.import_module(f"harness.props.{a.prop}")
    if a.replay:
        payload = json.load(open(a.replay))
        rc = mod.replay(payload)
        print(("REPLAY: still failing" if rc else "REPLAY: passes now") + f" ({a.replay})")
        sys.exit(1 if rc else 0)
    chk = common.Check(a.prop, a.tier, a.seed)
    try:
        rc = mod.run(chk)
    except Exception:
        # a crash of the machinery is never reported as a property violation
        traceback.print_exc()
        print(f"[{a.prop}] HARNESS ERROR (not a verdict)")
        sys.exit(2)
    sys.exit(rc)


if __name__ == "__main__":
    main()
