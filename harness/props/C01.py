"""C01 -- unfold / fold / vectorise / matricize are exact inverse index bijections.
Correspondence: Model/Base.v (and the NumPy primitive model of Base/Tensor.v) vs tensorly/base.py, bit-exact.
Predicates: documented layout formula, round trips, dtype/bytes preservation, on the implementation's outputs."""
import itertools, random
import numpy as np
from harness import common as C

HEADER = """From Coq Require Import List ZArith Bool. Import ListNotations.
From TLV Require Import Base.Tensor Corr.C01."""


def shapes(orders, dims):
    for o in orders:
        for s in itertools.product(dims, repeat=o):
            yield tuple(s)


def arr_lit(a):
    return C.ztensor(a.shape, a.ravel().tolist())


def res_arr(r):
    st, v = r
    if st != "ok":
        return "Err"
    v = np.asarray(v)
    return f"(Ok {arr_lit(v)})"


def opt_list(x):
    return "None" if x is None else f"(Some {C.nat_list(x)})"


def spec_lit(spec):
    return "[" + "; ".join("None" if s == -1 else f"Some {s}%nat" for s in spec) + "]"


def gen_cases(tier, rng):
    """yields (coq op literal, python callable on array, input array builder key, descr)"""
    if tier == "quick":
        shp = list(shapes([1, 2, 3, 4], [1, 2, 3]))
    else:
        shp = list(shapes([1, 2, 3, 4, 5], [1, 2, 3])) + list(shapes([6], [1, 2]))
        for _ in range(300):
            o = rng.randint(1, 5)
            shp.append(tuple(rng.randint(1, 6) for _ in range(o)))
    for s in shp:
        yield from gen_shape(s, tier, rng, light=False)
    # high-order stream: orders 5..11 over mode sizes {1,2} (book-keeping on long mode lists)
    hi = []
    for o in range(5, 12):
        for _ in range(3 if tier == "quick" else 12):
            s = tuple(rng.choice([1, 2, 2]) for _ in range(o))
            if 2 <= int(np.prod(s)) <= 1024:
                hi.append(s)
    for s in hi:
        yield from gen_shape(s, tier, rng, light=True)


def gen_shape(s, tier, rng, light):
    import tensorly as tl
    from tensorly import base
    n = len(s)
    modes = list(range(n))
    some = (lambda xs, k: xs if not light or len(xs) <= k else rng.sample(xs, k))
    yield ("OVec", lambda a: tl.tensor_to_vec(a), s, ("tensor_to_vec",))
    yield (f"OUnvec {C.nat_list(s)}", (lambda a, s=s: tl.vec_to_tensor(a.reshape(-1), s)), ("flat", s), ("vec_to_tensor", s))
    for m in some(list(range(n + 1)), 3):  # n itself is an invalid mode -> both sides must reject
        yield (f"OUnfold {m}%nat", (lambda a, m=m: tl.unfold(a, m)), s, ("unfold", m))
        if m < n:
            yield (f"OFold {m}%nat {C.nat_list(s)}", (lambda a, m=m, s=s: tl.fold(tl.unfold(a, m), m, s)), ("unfolded", s, m), ("fold", m, s))
    # partial variants
    combos = []
    for sb in range(0, n + 1):
        for se in range(0, n + 1 - sb):
            combos.append((sb, se))
    for sb, se in some(combos, 4):
        for m in some(list(range(0, n - sb - se + (1 if tier == "thorough" else 0))), 2):
            for rav in (False, True):
                yield (f"OPUnfold {m}%nat {sb}%nat {se}%nat {C.boolc(rav)}",
                       (lambda a, m=m, sb=sb, se=se, rav=rav: tl.partial_unfold(a, m, sb, se, rav)), s, ("partial_unfold", m, sb, se, rav))
            if m + sb + se < n:
                yield (f"OPFold {m}%nat {C.nat_list(s)} {sb}%nat {se}%nat",
                       (lambda a, m=m, sb=sb, se=se, s=s: tl.partial_fold(tl.partial_unfold(a, m, sb, se, False), m, s, sb, se)),
                       ("punfolded", s, m, sb, se), ("partial_fold", m, s, sb, se))
        if sb + se < n:
            yield (f"OPVec {sb}%nat {se}%nat", (lambda a, sb=sb, se=se: tl.partial_tensor_to_vec(a, sb, se)), s, ("partial_tensor_to_vec", sb, se))
            yield (f"OPUnvec {C.nat_list(s)} {sb}%nat {se}%nat",
                   (lambda a, sb=sb, se=se, s=s: tl.partial_vec_to_tensor(tl.partial_tensor_to_vec(a, sb, se), s, sb, se)),
                   ("pvec", s, sb, se), ("partial_vec_to_tensor", s, sb, se))
    # matricize: all ordered splits for small orders, sampled otherwise
    splits = []
    if not light and (n <= 3 or (tier == "thorough" and n <= 4)):
        for k in range(0, n + 1):
            for rows in itertools.permutations(modes, k):
                rest = [i for i in modes if i not in rows]
                splits.append((list(rows), None))
                for cols in itertools.permutations(rest):
                    splits.append((list(rows), list(cols)))
    else:
        for k in some(list(range(0, n + 1)), 4):     # leading blocks of modes as rows, default and explicit columns
            splits.append((modes[:k], None)); splits.append((modes[:k], modes[k:]))
        for _ in range(4 if light else 6):
            p = modes[:]; rng.shuffle(p); k = rng.randint(0, n)
            splits.append((p[:k], p[k:])); splits.append((p[:k], None))
    # invalid requests: repeated / missing / out-of-range modes
    splits += [([0, 0], None), ([0], [0]), ([n], None)]
    if n >= 2:
        splits.append(([0], []))
    for rows, cols in splits:
        yield (f"OMat {C.nat_list(rows)} {opt_list(cols)}", (lambda a, rows=rows, cols=cols: base.matricize(a, rows, cols)), s, ("matricize", tuple(rows), None if cols is None else tuple(cols)))
    # NumPy primitives as used through the backend
    pairs = [(a_, b_) for a_ in range(n) for b_ in range(n)]
    for a_, b_ in some(pairs, 4):
        yield (f"OMove {a_}%nat {b_}%nat", (lambda a, a_=a_, b_=b_: tl.moveaxis(a, a_, b_)), s, ("moveaxis", a_, b_))
    perms = list(itertools.permutations(modes)) if n <= 3 else [tuple(rng.sample(modes, n)) for _ in range(2 if light else 4)]
    for p in perms:
        yield (f"OTrans {C.nat_list(p)}", (lambda a, p=p: tl.transpose(a, list(p))), s, ("transpose", p))
    tot = int(np.prod(s))
    for spec in ([-1], [tot], [1, -1], [-1, 1], [s[0], -1], [-1, s[-1]], [2, -1], [-1, -1], [tot + 1]):
        yield (f"OReshape {spec_lit(spec)}", (lambda a, spec=spec: tl.reshape(a, spec)), s, ("reshape", tuple(spec)))


def build_input(key, impl_cache):
    """input array (int64, distinct entries 0..n-1 of the ORIGINAL tensor) for a case"""
    import tensorly as tl
    if isinstance(key, tuple) and key and isinstance(key[0], str):
        kind = key[0]
        s = key[1]
        a = np.arange(int(np.prod(s)), dtype=np.int64).reshape(s)
        if kind == "flat":
            return a.reshape(-1), a
        if kind == "unfolded":
            return tl.unfold(a, key[2]), a
        if kind == "punfolded":
            return tl.partial_unfold(a, key[2], key[3], key[4], False), a
        if kind == "pvec":
            return tl.partial_tensor_to_vec(a, key[2], key[3]), a
    a = np.arange(int(np.prod(key)), dtype=np.int64).reshape(key)
    return a, a


def spec_predicate(descr, orig, out):
    """Property predicate on the implementation's output (independent of the Coq model):
    documented layout + exact round trip.  orig: the original tensor; out: ('ok', value)|... """
    name = descr[0]
    st, v = out
    s = orig.shape
    n = len(s)
    if name in ("fold", "partial_fold", "vec_to_tensor", "partial_vec_to_tensor"):
        # these cases are compositions  refold(unfold(orig)) : must return orig bit for bit
        if st != "ok":
            return f"{name}: round trip raised {v}"
        if v.shape != orig.shape or v.dtype != orig.dtype or v.tobytes() != np.ascontiguousarray(orig).tobytes():
            return f"{name}: round trip is not the identity"
        return None
    if st != "ok":
        return None  # rejection of invalid requests is compared against the model, not judged here
    if v.dtype != orig.dtype:
        return f"{name}: dtype changed {orig.dtype} -> {v.dtype}"
    if v.size != orig.size or sorted(v.ravel().tolist()) != sorted(orig.ravel().tolist()):
        return f"{name}: entries duplicated or dropped"
    if name == "tensor_to_vec":
        exp = [orig[idx] for idx in np.ndindex(*s)]
        if v.shape != (orig.size,) or v.tolist() != exp:
            return "tensor_to_vec: not the row-major vectorisation"
    elif name == "unfold":
        m = descr[1]
        rest = [d for k, d in enumerate(s) if k != m]
        if v.shape != (s[m], int(np.prod(rest))):
            return f"unfold: shape {v.shape}"
        for idx in np.ndindex(*s):
            r = [i for k, i in enumerate(idx) if k != m]
            col = int(np.ravel_multi_index(r, rest)) if rest else 0
            if v[idx[m], col] != orig[idx]:
                return f"unfold: entry {idx} at wrong place"
    elif name in ("partial_unfold", "partial_tensor_to_vec"):
        if name == "partial_unfold":
            m, sb, se, rav = descr[1:]
        else:
            m, (sb, se), rav = 0, descr[1:], True
        if m + sb + se >= n:
            return None  # outside the documented domain; only compared with the model
        mid = list(range(sb, n - se))
        midshape = [s[k] for k in mid]
        rest = [k for k in mid if k != m + sb]
        restshape = [s[k] for k in rest]
        for idx in np.ndindex(*s):
            lead = list(idx[:sb]); trail = list(idx[n - se:]) if se else []
            if rav:
                order = [m + sb] + rest
                pos = int(np.ravel_multi_index([idx[k] for k in order], [s[k] for k in order])) if order else 0
                o = tuple(lead + [pos] + trail)
            else:
                col = int(np.ravel_multi_index([idx[k] for k in rest], restshape)) if rest else 0
                o = tuple(lead + [idx[m + sb], col] + trail)
            try:
                if v[o] != orig[idx]:
                    return f"{name}{descr[1:]}: entry {idx} at wrong place"
            except IndexError:
                return f"{name}{descr[1:]}: shape {v.shape} does not fit the documented layout"
    elif name == "matricize":
        rows, cols = descr[1], descr[2]
        if cols is None:
            cols = tuple(i for i in range(n) if i not in rows)
        rs = [s[k] for k in rows]; cs = [s[k] for k in cols]
        if v.shape != (int(np.prod(rs)), int(np.prod(cs))):
            return f"matricize: shape {v.shape}"
        for idx in np.ndindex(*s):
            r = int(np.ravel_multi_index([idx[k] for k in rows], rs)) if rows else 0
            c = int(np.ravel_multi_index([idx[k] for k in cols], cs)) if cols else 0
            if v[r, c] != orig[idx]:
                return f"matricize: entry {idx} at wrong place"
    return None


DTYPES_Q = [np.float32, np.complex128, np.bool_]
DTYPES_T = [np.int8, np.int16, np.int32, np.uint8, np.float16, np.float32, np.float64, np.complex64, np.complex128, np.bool_, object]


def dtype_predicate(fn, a_int, out_int, dtype, rng, layout="C"):
    """re-run the same call on another dtype / memory layout: the output must be the same
    re-arrangement (positions taken from the int64 run) of the same bytes, dtype unchanged."""
    n = a_int.size
    if dtype is object:
        vals = np.empty(n, dtype=object)
        for i in range(n):
            vals[i] = ("s%d" % i) if i % 2 else i
    elif np.dtype(dtype).kind == "b":
        vals = np.array([rng.random() < 0.5 for _ in range(n)], dtype=dtype)
    elif np.dtype(dtype).kind == "c":
        vals = np.array([complex(rng.uniform(-1, 1), rng.uniform(-1, 1)) for _ in range(n)], dtype=dtype)
    elif np.dtype(dtype).kind == "f":
        vals = np.array([rng.uniform(-1e3, 1e3) for _ in range(n)], dtype=dtype)
        if n:
            vals[rng.randrange(n)] = np.nan  # NaN payloads must travel untouched as well
    else:
        info = np.iinfo(dtype)
        vals = np.array([rng.randint(info.min, info.max) for _ in range(n)], dtype=dtype)
    a = vals[a_int.ravel()].reshape(a_int.shape)  # the entry labelled p carries vals[p]
    if layout == "F":
        a = np.asfortranarray(a)
    elif layout == "strided" and a.ndim >= 1:
        big = np.zeros(tuple(2 * d for d in a.shape), dtype=a.dtype) if dtype is not object else np.empty(tuple(2 * d for d in a.shape), dtype=object)
        view = big[tuple(slice(None, None, 2) for _ in a.shape)]
        view[...] = a
        a = view
    elif layout == "neg" and a.ndim >= 1:
        a = a[::-1][::-1] if False else np.flip(np.flip(a, 0).copy(), 0)  # negative stride view of equal content
    st, v = C.call_impl(fn, a)
    if st != "ok":
        return f"raised on dtype {np.dtype(dtype)} layout {layout}: {v}"
    if v.dtype != a.dtype:
        return f"dtype changed {a.dtype} -> {v.dtype}"
    if v.shape != out_int.shape:
        return f"shape differs between dtypes: {v.shape} vs {out_int.shape}"
    exp = vals[out_int.ravel()]
    got = v.ravel()
    if dtype is object:
        same = all(x is y or x == y for x, y in zip(got, exp))
    else:
        same = np.ascontiguousarray(got).tobytes() == np.ascontiguousarray(exp).tobytes()
    if not same:
        return f"not the same re-arrangement of bytes for dtype {np.dtype(dtype)} layout {layout}"
    return None


def run(chk):
    rng = random.Random(chk.seed)
    chk.build_proofs()
    C.reset_backends()
    cases, meta = [], []
    tier = chk.tier
    dts = DTYPES_Q if tier == "quick" else DTYPES_T
    layouts = ["C"] if tier == "quick" else ["C", "F", "strided", "neg"]
    for cid, (oplit, fn, key, descr) in enumerate(gen_cases(tier, rng)):
        a_in, orig = build_input(key, None)
        # the Coq case is the *primitive* call on its direct input
        prim = direct_call(descr)
        out = C.call_impl(prim, a_in)
        cases.append(f"({cid}%nat, {oplit}, {arr_lit(a_in)}, {res_arr(out)})")
        meta.append((descr, orig.shape))
        nontrivial = orig.size > 1
        chk.count(key=(descr[0], orig.shape, descr[1:]), nontrivial=nontrivial)
        chk.hist("function", descr[0]); chk.hist("order", len(orig.shape))
        chk.hist("outcome", out[0])
        if cid % 997 == 0:
            chk.sample({"call": list(map(str, descr)), "input_shape": list(orig.shape), "outcome": out[0],
                        "output": (np.asarray(out[1]).tolist() if out[0] == "ok" and np.asarray(out[1]).size <= 24 else str(out[1])[:80])})
        # property predicate on the implementation (composition for the refold cases)
        full = C.call_impl(fn, orig if not (isinstance(key, tuple) and key and key[0] == "flat") else orig)
        msg = spec_predicate(descr, orig, full if descr[0] in ("fold", "partial_fold", "vec_to_tensor", "partial_vec_to_tensor") else out)
        if msg:
            chk.finding(f"tensorly.base.{descr[0]}", {"shape": list(orig.shape), "args": list(map(str, descr[1:])), "dtype": "int64"}, msg, "C01_layout_roundtrip")
        elif out[0] == "ok" and descr[0] not in ("moveaxis", "transpose", "reshape") and (tier == "thorough" or cid % 3 == 0):
            for dt in dts:
                for lay in layouts:
                    if descr[0] in ("fold", "partial_fold", "vec_to_tensor", "partial_vec_to_tensor") and lay != "C":
                        continue
                    m2 = dtype_predicate(prim, a_in, np.asarray(out[1]), dt, rng, lay)
                    chk.cov["evaluations"] += 1
                    if m2:
                        chk.finding(f"tensorly.base.{descr[0]}", {"shape": list(orig.shape), "args": list(map(str, descr[1:])), "dtype": str(np.dtype(dt)), "layout": lay}, m2, "C01_dtype_bytes")
    failing, n_eval, broken = C.run_case_shards("C01", HEADER, "case", cases, shard=400)
    chk.checker_cmds.append("coqc (vm_compute) on generated build/cases/C01/*.v: Corr.C01.failing")
    chk.cov["traces_validated_against_impl"] = n_eval
    chk.cov["exhaustive"] = True
    chk.cov["rule"] = ("every tensor shape of order 1-4 over mode sizes {1,2,3} (thorough: order<=5, order 6 over {1,2}, +300 random shapes; plus a sampled high-order stream of orders 5-11 over mode sizes {1,2}, which is NOT exhaustive) x every function of tensorly/base.py "
                       "x every mode (+1 invalid) x every (skip_begin, skip_end, ravel) split x every ordered row/column split of matricize (order<=3; sampled above) "
                       "+ invalid requests + the NumPy primitives moveaxis/transpose/reshape; entries are the distinct integers 0..n-1 so one run decides the shape for all values; "
                       "a case is non-trivial if the tensor has more than one entry; distinct key = (function, shape, arguments)")
    for b in broken:
        chk.broken.append({"what": "correspondence corr:C01 shard not evaluated", "detail": b})
    for i in sorted(failing):
        descr, shape = meta[i]
        chk.disagreement("corr:C01 (Model/Base.v vs tensorly/base.py)", {"call": list(map(str, descr)), "shape": list(shape)})
    chk.assumptions = ["NumPy reshape/moveaxis/transpose on the generated inputs behave as modelled in Base/Tensor.v (checked on this run's primitive cases)",
                       "size-0 modes are outside the model (theorems require a non-empty index space)"]
    return chk.finish()


def direct_call(descr):
    import tensorly as tl
    from tensorly import base
    n = descr[0]
    if n == "tensor_to_vec": return lambda a: tl.tensor_to_vec(a)
    if n == "vec_to_tensor": return lambda a: tl.vec_to_tensor(a, descr[1])
    if n == "unfold": return lambda a: tl.unfold(a, descr[1])
    if n == "fold": return lambda a: tl.fold(a, descr[1], descr[2])
    if n == "partial_unfold": return lambda a: tl.partial_unfold(a, descr[1], descr[2], descr[3], descr[4])
    if n == "partial_fold": return lambda a: tl.partial_fold(a, descr[1], descr[2], descr[3], descr[4])
    if n == "partial_tensor_to_vec": return lambda a: tl.partial_tensor_to_vec(a, descr[1], descr[2])
    if n == "partial_vec_to_tensor": return lambda a: tl.partial_vec_to_tensor(a, descr[1], descr[2], descr[3])
    if n == "matricize": return lambda a: base.matricize(a, list(descr[1]), None if descr[2] is None else list(descr[2]))
    if n == "moveaxis": return lambda a: tl.moveaxis(a, descr[1], descr[2])
    if n == "transpose": return lambda a: tl.transpose(a, list(descr[1]))
    if n == "reshape": return lambda a: tl.reshape(a, list(descr[1]))
    raise KeyError(n)


def replay(payload):
    """re-run a stored failing input against the current implementation; 1 = still failing"""
    if payload.get("kind") != "failing-input":
        print("replay file names a broken theorem/correspondence, not an input:", payload.get("theorem_or_correspondence"))
        return 1
    import ast
    inp = payload["inputs"]
    name = payload["entry_point"].split(".")[-1]
    descr = (name,) + tuple(ast.literal_eval(x) if x not in ("None",) else None for x in inp["args"])
    shape = tuple(inp["shape"])
    orig = np.arange(int(np.prod(shape)), dtype=np.int64).reshape(shape)
    rng = random.Random(0)
    for (oplit, fn, key, d2) in gen_cases("thorough", rng):
        if tuple(map(str, d2)) == tuple(map(str, descr)) and build_input(key, None)[1].shape == shape:
            a_in, orig = build_input(key, None)
            prim = direct_call(d2)
            out = C.call_impl(prim, a_in)
            full = C.call_impl(fn, orig)
            msg = spec_predicate(d2, orig, full if d2[0] in ("fold", "partial_fold", "vec_to_tensor", "partial_vec_to_tensor") else out)
            if not msg and out[0] == "ok" and inp.get("dtype", "int64") != "int64":
                dt = object if inp["dtype"] == "object" else np.dtype(inp["dtype"]).type
                msg = dtype_predicate(prim, a_in, np.asarray(out[1]), dt, rng, inp.get("layout", "C"))
            print("replay:", d2, shape, "->", msg or "holds")
            return 1 if msg else 0
    print("replay: case not found in the generator")
    return 1
