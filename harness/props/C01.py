"""C01 -- unfold / fold / vectorise / matricize are exact inverse index bijections.
Correspondence: Model/Base.v (and the NumPy primitive model of Base/Tensor.v) vs tensorly/base.py and the backend's
reshape / moveaxis / transpose dispatch, bit-exact, signed modes, size-0 / size-1 modes, invalid requests.
Predicates (Python transcriptions of the theorems, evaluated on the implementation's outputs): documented layout formula,
round trips, exact success domain, dtype/bytes preservation for every dtype and memory layout, documented default arguments,
repeated calls with one mutable `shape` list.
Source tie (run_ast_tie): the statement-by-statement model of Model/BasePy.v / BasePyCore.v is regenerated from the current
source of tensorly/base.py and of Backend.moveaxis (tensorly/backend/core.py) by harness/props/C01_ast.py and re-proved equal in Coq;
every case is evaluated on that model over arrays carrying a dtype tag (the dtype codes come from the dtype re-run).
Backend glue (backend_glue_predicate): tl.reshape / moveaxis / transpose / shape / ndim against NumPy's own functions, 14 dtypes x 6
layouts, plus what numpy_backend.py registers (ast + live objects); argument forms of these calls (Model/BasePyNp.v) in the case stream.
Consumers (consumer_predicate): fold(M @ unfold) = n-mode product, unfold @ khatri_rao = MTTKRP (pins the column order)."""
import itertools, os, random, re, shutil, subprocess, zlib
import numpy as np
from harness import common as C
from harness.props import C01_ast

# Corr.C01.failing returns the ids of failing cases as Z (binary; a unary nat of depth ~50000 cannot be read back from
# the VM); Z_scope is opened so that the list prints without scope delimiters, as common.run_case_shards expects.
HEADER = """From Coq Require Import List ZArith Bool Uint63. Import ListNotations.
From TLV Require Import Base.Tensor Model.BasePy Model.BasePyNp Corr.C01.
Open Scope Z_scope."""

REFOLD = ("fold", "partial_fold", "vec_to_tensor", "partial_vec_to_tensor")
PRIMS = ("moveaxis", "moveaxis_generic", "transpose", "reshape", "reshape_a", "transpose_a", "shape", "ndim")


# ----------------------------------------------------------------------------- literals
def pack(vals):
    """packed data literal: w bits per entry, 60//w entries per primitive integer, lowest entry first"""
    vals = [int(x) for x in vals]
    mx = max(vals) if vals else 0
    assert min(vals or [0]) >= 0
    w = 10 if mx < (1 << 10) else 20 if mx < (1 << 20) else 30
    assert mx < (1 << 30)
    per = 60 // w
    out = []
    for i in range(0, len(vals), per):
        v = 0
        for x in reversed(vals[i:i + per]):
            v = (v << w) | x
        out.append(v)
    return w, out


def int_list(xs):
    return "[" + "; ".join(map(str, xs)) + "]%uint63" if xs else "(@nil int)"


def arr_lit(a):
    a = np.asarray(a)
    n = a.size
    flat = a.ravel()  # logical (row-major) order whatever the memory layout
    if a.dtype.kind in "iu" and n <= 4096 and np.array_equal(flat, np.arange(n)):
        return f"(IAr {C.nat_list(a.shape)})"
    w, ints = pack(flat.tolist())
    return f"(IPk {C.nat_list(a.shape)} {w}%nat {int_list(ints)})"


def res_arr(r):
    st, v = r
    if st != "ok":
        return "Err"
    return f"(Ok {arr_lit(v)})"


def zopt_list(x):
    return "None" if x is None else f"(Some {C.z_list(x)})"


def pyseq_lit(x):
    """row_modes / column_modes as the source receives them: a bare int or a sequence"""
    return f"(PInt {C.z(x)})" if isinstance(x, int) else f"(PSeq {C.z_list(list(x))})"


def spec_lit(spec):
    return "[" + "; ".join("None" if s == -1 else f"Some {s}%nat" for s in spec) + "]"


def oplit(d):
    n = d[0]
    if n == "tensor_to_vec": return "OVec"
    if n == "vec_to_tensor": return f"(OUnvec {C.nat_list(d[1])})"
    if n == "unfold": return f"(OUnfold {C.z(d[1])})"
    if n == "fold": return f"(OFold {C.z(d[1])} {C.nat_list(d[2])})"
    if n == "partial_unfold": return f"(OPUnfold {C.z(d[1])} {d[2]}%nat {d[3]}%nat {C.boolc(d[4])})"
    if n == "partial_fold": return f"(OPFold {C.z(d[1])} {C.nat_list(d[2])} {d[3]}%nat {d[4]}%nat)"
    if n == "partial_tensor_to_vec": return f"(OPVec {d[1]}%nat {d[2]}%nat)"
    if n == "partial_vec_to_tensor": return f"(OPUnvec {C.nat_list(d[1])} {d[2]}%nat {d[3]}%nat)"
    if n == "matricize":
        return f"(OMat {pyseq_lit(d[1])} {'None' if d[2] is None else '(Some ' + pyseq_lit(d[2]) + ')'})"
    if n == "partial_unfold_z": return f"(OPUnfoldZ {C.z(d[1])} {C.z(d[2])} {C.z(d[3])} {C.boolc(d[4])})"
    if n == "partial_fold_z": return f"(OPFoldZ {C.z(d[1])} {C.nat_list(d[2])} {C.z(d[3])} {C.z(d[4])})"
    if n == "partial_tensor_to_vec_z": return f"(OPVecZ {C.z(d[1])} {C.z(d[2])})"
    if n == "partial_vec_to_tensor_z": return f"(OPUnvecZ {C.nat_list(d[1])} {C.z(d[2])} {C.z(d[3])})"
    if n == "moveaxis": return f"(OMove {C.z(d[1])} {C.z(d[2])})"
    if n == "moveaxis_generic": return f"(OMoveG {C.z(d[1])} {C.z(d[2])})"
    if n == "transpose": return f"(OTrans {C.nat_list(d[1])})"
    if n == "reshape": return f"(OReshape {spec_lit(d[1])})"
    if n == "reshape_a":
        return f"(OReshapeA (SInt {C.z(d[2])}))" if d[1] == "int" else f"(OReshapeA (SSeq {C.z_list(list(d[2]))}))"
    if n == "transpose_a": return "(OTransOpt None)" if d[2] is None else f"(OTransOpt (Some {C.z_list(list(d[2]))}))"
    if n == "shape": return "OShape"
    if n == "ndim": return "ONdim"
    raise KeyError(n)


# ----------------------------------------------------------------------------- the calls
def direct_call(d):
    """the entry point named by the case, on its direct input"""
    import tensorly as tl
    from tensorly import base
    n = d[0]
    if n == "tensor_to_vec": return lambda a: tl.tensor_to_vec(a)
    if n == "vec_to_tensor": return lambda a: tl.vec_to_tensor(a, d[1])
    if n == "unfold": return lambda a: tl.unfold(a, d[1])
    if n == "fold": return lambda a: tl.fold(a, d[1], d[2])
    if n == "partial_unfold": return lambda a: tl.partial_unfold(a, d[1], d[2], d[3], d[4])
    if n == "partial_fold": return lambda a: tl.partial_fold(a, d[1], d[2], d[3], d[4])
    if n == "partial_tensor_to_vec": return lambda a: tl.partial_tensor_to_vec(a, d[1], d[2])
    if n == "partial_vec_to_tensor": return lambda a: tl.partial_vec_to_tensor(a, d[1], d[2], d[3])
    if n == "matricize":
        rows = d[1] if isinstance(d[1], int) else list(d[1])
        cols = None if d[2] is None else (d[2] if isinstance(d[2], int) else list(d[2]))
        return lambda a: base.matricize(a, rows, cols)
    if n == "partial_unfold_z": return lambda a: tl.partial_unfold(a, d[1], d[2], d[3], d[4])
    if n == "partial_fold_z": return lambda a: tl.partial_fold(a, d[1], d[2], d[3], d[4])
    if n == "partial_tensor_to_vec_z": return lambda a: tl.partial_tensor_to_vec(a, d[1], d[2])
    if n == "partial_vec_to_tensor_z": return lambda a: tl.partial_vec_to_tensor(a, d[1], d[2], d[3])
    if n == "moveaxis": return lambda a: tl.moveaxis(a, d[1], d[2])
    if n == "moveaxis_generic":
        from tensorly.backend.core import Backend
        from tensorly.backend import BackendManager
        return lambda a: Backend.moveaxis(BackendManager.current_backend(), a, d[1], d[2])
    if n == "transpose": return lambda a: tl.transpose(a, list(d[1]))
    if n == "reshape": return lambda a: tl.reshape(a, list(d[1]))
    if n == "reshape_a":      # newshape as the caller may write it: an int, a tuple, a list
        arg = d[2] if d[1] == "int" else (tuple(d[2]) if d[1] == "tuple" else list(d[2]))
        return lambda a: tl.reshape(a, arg)
    if n == "transpose_a":    # axes omitted / None / a tuple / a list, signed entries
        if d[1] == "none": return lambda a: tl.transpose(a)
        if d[1] == "none_kw": return lambda a: tl.transpose(a, axes=None)
        axes = tuple(d[2]) if d[1] == "tuple" else list(d[2])
        return lambda a: tl.transpose(a, axes)
    if n == "shape":          # the tuple tl.shape returns, shown to the model as a 1-D array of Python ints
        return lambda a: np.array([int(x) for x in tl.shape(a)], dtype=np.int64).reshape(len(tl.shape(a)))
    if n == "ndim":
        return lambda a: np.array(int(tl.ndim(a)), dtype=np.int64)
    raise KeyError(n)


def forward_call(d):
    """for the refolding entry points: the unfolding that produces their input from the original tensor
    (last component of the description = how the input was made)"""
    import tensorly as tl
    n = d[0]
    if n == "vec_to_tensor": return lambda a: tl.tensor_to_vec(a)
    if n == "fold": return lambda a: tl.unfold(a, d[3])
    if n == "partial_fold": return lambda a: tl.partial_unfold(a, d[5], d[3], d[4], d[6])
    if n == "partial_vec_to_tensor": return lambda a: tl.partial_tensor_to_vec(a, d[2], d[3])
    if n == "partial_fold_z": return lambda a: tl.partial_unfold(a, d[1], d[3], d[4], False)
    if n == "partial_vec_to_tensor_z": return lambda a: tl.partial_tensor_to_vec(a, d[2], d[3])
    return None


def labelled(shape):
    return np.arange(int(np.prod(shape, dtype=np.int64)), dtype=np.int64).reshape(shape)


def make_case(d, shape):
    """-> (direct input, original tensor, entry point) or None when the forward unfolding itself rejects"""
    orig = labelled(shape)
    fwd = forward_call(d)
    if fwd is None:
        return orig, orig, direct_call(d)
    st, u = C.call_impl(fwd, orig)
    if st != "ok":
        return None
    return u, orig, direct_call(d)


def is_roundtrip(d, s):
    """does the case re-fold with exactly the arguments (mode AND target shape) of the unfolding that made its input?"""
    k = d[0]
    n = len(s)
    if k in ("vec_to_tensor", "partial_vec_to_tensor"):
        return tuple(d[1]) == tuple(s)
    if k == "fold":
        return tuple(d[2]) == tuple(s) and -n <= d[1] < n and d[1] % n == d[3]
    if k == "partial_fold":
        return tuple(d[2]) == tuple(s) and d[1] == d[5]
    return False


# ----------------------------------------------------------------------------- case generation
def shapes(orders, dims):
    for o in orders:
        for s in itertools.product(dims, repeat=o):
            yield tuple(s)


def gen_cases(tier, rng):
    """yields (description, shape of the original tensor)"""
    # high-order stream: orders 5..11 over mode sizes {1,2} (book-keeping on long mode lists); NOT exhaustive
    hi = []
    for o in range(5, 12):
        for _ in range(3 if tier == "quick" else 12):
            s = tuple(rng.choice([1, 2, 2]) for _ in range(o))
            if 2 <= int(np.prod(s)) <= 1024:
                hi.append(s)
    # order 5/6 with equal neighbouring sizes and size-1 modes in between (where a wrong axis order is invisible on smaller orders)
    for _ in range(6 if tier == "quick" else 30):
        o = rng.choice([5, 6])
        s = tuple(rng.choice([1, 2, 2, 3]) for _ in range(o))
        if int(np.prod(s)) <= 1024:
            hi.append(s)
    for s in hi:
        yield from gen_shape(s, tier, rng, light=True)
    # (generated FIRST: these are the expensive cases for the Coq side, which evaluates shards while Python still produces)
    if tier == "quick":
        shp = [()] + list(shapes([1, 2, 3, 4], [1, 2, 3]))
    else:
        shp = [()] + list(shapes([1, 2, 3, 4, 5], [1, 2, 3]))
        for _ in range(200):
            # at most 720 entries: the index-level model is quadratic in the number of entries, and a handful of order-5
            # shapes with several thousand entries used to account for most of the thorough tier's Coq time
            while True:
                o = rng.randint(1, 5)
                cand = tuple(rng.randint(1, 6) for _ in range(o))
                if int(np.prod(cand)) <= 720:
                    break
            shp.append(cand)
    for s in shp:
        yield from gen_shape(s, tier, rng, light=False)
    if tier != "quick":
        for s in shapes([6], [1, 2]):                       # every order-6 shape over {1,2}, sampled arguments
            yield from gen_shape(s, tier, rng, light=True)
    # size-0 modes: every shape of order 1-3 over {0,1,2,3} with an empty mode, order 4 over {0,1,2} (sampled arguments)
    for s in shapes([1, 2, 3], [0, 1, 2, 3]):
        if 0 in s:
            yield from gen_shape(s, tier, rng, light=False)
    for s in shapes([4], [0, 1, 2]) if tier == "quick" else shapes([4], [0, 1, 2, 3]):
        if 0 in s:
            yield from gen_shape(s, tier, rng, light=True)


def gen_shape(s, tier, rng, light):
    n = len(s)
    modes = list(range(n))
    some = (lambda xs, k: xs if not light or len(xs) <= k else rng.sample(xs, k))
    yield ("tensor_to_vec",), s
    yield ("vec_to_tensor", s), s
    # unfold / fold: every signed mode, one invalid mode at either end
    for m in some(list(range(-n - 1, n + 1)), 5):
        yield ("unfold", m), s
        if -n <= m < n:
            yield ("fold", m, s, m % n), s
        elif n:
            yield ("fold", m, s, 0), s                       # invalid mode on a well-formed unfolding: both sides reject
    if n >= 2:
        a_, b_ = rng.sample(modes, 2)
        yield ("fold", a_, s, b_), s                         # folding along another mode than the unfolding: compared with the model only
    if n >= 1:
        # a target shape with the wrong number of entries (one size changed): the reject side of C01_fold_ok_iff, through
        # fold / vec_to_tensor / partial_fold themselves and not only through the reshape primitive
        j = rng.randrange(n); m_ = rng.randrange(n)
        bad = tuple(x + 1 if k == j else x for k, x in enumerate(s))
        yield ("fold", m_, bad, m_), s
        yield ("vec_to_tensor", bad), s
        yield ("partial_fold", 0, bad, 0, 0, 0, False), s
        if n >= 2 and s[0] != s[1]:
            swapped = (s[1], s[0]) + tuple(s[2:])             # right number of entries, wrong sizes: accepted, compared with the model only
            yield ("fold", m_, swapped, m_), s
    # partial variants
    combos = [(sb, se) for sb in range(0, n + 1) for se in range(0, n + 1 - sb)]
    for sb, se in some(combos, 4):
        # documented domain 0 <= mode < ndim - skip_begin - skip_end, plus one mode whose axis does not exist (rejected).
        # Requests where the moved axis overlaps the skipped trailing / leading block are garbage-in (their outcome is an
        # accident of the implementation, e.g. whether trailing sizes are read before or after the move): not generated.
        ms = list(range(0, max(n - sb - se, 0))) + [n - sb]
        # signed modes: -skip_begin-1 is the last axis (only meaningful without skipped trailing modes), one below -ndim is rejected
        neg = ([-sb - 1] if sb + 1 <= n else []) + [-n - sb - 1] if (se == 0 and sb < n) else []
        for m in some(ms[:-1], 2) + ms[-1:] + neg:
            for rav in (False, True):
                yield ("partial_unfold", m, sb, se, rav), s
                if 0 <= m and m + sb + se < n:
                    yield ("partial_fold", m, s, sb, se, m, rav), s
            if m < 0:
                yield ("partial_fold", m, s, sb, se, m, False), s    # made only when the unfolding succeeded
        if n and sb + se < n:
            yield ("partial_fold", n, s, sb, se, 0, False), s        # invalid mode
        if sb + se < n:
            yield ("partial_tensor_to_vec", sb, se), s
            yield ("partial_vec_to_tensor", s, sb, se), s
    # NEGATIVE skip_begin / skip_end: outside the documented domain; what the source does is deterministic (an empty
    # range, a truthy int, negative axes of moveaxis, list.insert at a negative position) and is compared with the
    # statement-by-statement model (C01_g_Permutation still applies: a successful request permutes the entries)
    if n and (not light or rng.random() < 0.5):
        zs = [(sb, se) for sb in range(-n - 1, n + 1) for se in range(-2, n + 1) if sb < 0 or se < 0]
        for sb, se in (zs if n <= 2 and not light else rng.sample(zs, min(len(zs), 5))):
            m = rng.randrange(-1, n)
            rav = rng.random() < 0.5
            yield ("partial_unfold_z", m, sb, se, rav), s
            yield ("partial_fold_z", m, s, sb, se), s
            yield ("partial_tensor_to_vec_z", sb, se), s
            yield ("partial_vec_to_tensor_z", s, sb, se), s
    # the moved axis INSIDE a skipped block (mode + skip_begin + skip_end >= ndim with the axis itself existing): garbage-in
    # as well; what the source does (e.g. trailing sizes read before the move) is compared with the statement-level model
    if n >= 2 and (not light or rng.random() < 0.5):
        ov = [(m, sb, se) for sb in range(0, n) for se in range(1, n + 1) for m in range(0, n - sb) if m + sb + se >= n]
        for m, sb, se in (ov if n <= 2 and not light else rng.sample(ov, min(len(ov), 4))):
            rav = rng.random() < 0.5
            yield ("partial_unfold_z", m, sb, se, rav), s
            yield ("partial_fold_z", m, s, sb, se), s
    if n:
        yield ("partial_unfold", 0, n, 0, False), s                 # skip_begin = ndim
        yield ("partial_unfold", 0, 0, n + 1, True), s              # skip_end > ndim
    # matricize: all ordered splits for small orders, sampled otherwise
    splits = []
    if not light and (n <= 3 or (tier == "thorough" and n <= 4)):
        for k in range(0, n + 1):
            for rows in itertools.permutations(modes, k):
                rest = [i for i in modes if i not in rows]
                splits.append((tuple(rows), None))
                for cols in itertools.permutations(rest):
                    splits.append((tuple(rows), tuple(cols)))
    else:
        for k in some(list(range(0, n + 1)), 4):     # leading blocks of modes as rows, default and explicit columns
            splits.append((tuple(modes[:k]), None)); splits.append((tuple(modes[:k]), tuple(modes[k:])))
        for _ in range(4 if light else 6):
            p = modes[:]; rng.shuffle(p); k = rng.randint(0, n)
            splits.append((tuple(p[:k]), tuple(p[k:]))); splits.append((tuple(p[:k]), None))
    # invalid requests: repeated / missing / out-of-range / negative modes; a bare int as row_modes / column_modes
    splits += [((0, 0), None), ((0,), (0,)), ((n,), None), ((-1,), None), ((-1,), tuple(modes[:-1]))]
    if n >= 1:
        splits += [(n - 1, None), (0, tuple(modes[1:]))]
    if n == 2:
        splits += [(1, 0), (0, 0)]
    if n >= 2:
        splits.append(((0,), ()))
    for rows, cols in splits:
        yield ("matricize", rows, cols), s
    # the backend primitives: NumPy's moveaxis as dispatched, the generic Backend.moveaxis, transpose, reshape
    pairs = [(a_, b_) for a_ in range(n) for b_ in range(n)]                 # every valid non-negative pair
    signed = [(a_, b_) for a_ in range(-n - 1, n + 1) for b_ in range(-n - 1, n + 2) if not (0 <= a_ < n and 0 <= b_ < n)]
    pairs = some(pairs, 4) + (signed if n <= 2 and not light else rng.sample(signed, min(len(signed), 6)))
    for a_, b_ in pairs:
        if b_ < n:      # (a destination >= ndim is rejected by NumPy but clamped by the generic fallback: not part of the property)
            yield ("moveaxis", a_, b_), s
        yield ("moveaxis_generic", a_, b_), s
    perms = list(itertools.permutations(modes)) if n <= 3 else [tuple(rng.sample(modes, n)) for _ in range(2 if light else 4)]
    for p in perms:
        yield ("transpose", p), s
    if n >= 2:
        yield ("transpose", tuple(modes[:-1])), s
        yield ("transpose", tuple([0] + modes[:-1])), s
    tot = int(np.prod(s, dtype=np.int64))
    sp = [[-1], [tot], [1, -1], [-1, 1], [2, -1], [-1, -1], [tot + 1], [0, -1]]
    if n:
        sp += [[s[0], -1], [-1, s[-1]]]
    for spec in sp:
        yield ("reshape", tuple(spec)), s
    # the ARGUMENT FORMS of the backend calls (Model/BasePyNp.v): newshape as an int / a tuple / a list with signed entries
    # (NumPy reads any negative entry as the inferred dimension), axes omitted / None / tuple / list with signed entries,
    # tl.shape and tl.ndim
    forms = [("int", tot), ("int", -1), ("int", tot + 1), ("int", -2 - n), ("int", 0), ("tuple", (tot,)), ("list", (-1,)), ("tuple", (-3, 1)),
             ("list", (1, tot)), ("tuple", ()), ("list", ()), ("tuple", (-1, -1)), ("list", (tot, -7, 1))]
    if n:
        forms += [("tuple", (s[0], -1)), ("list", tuple(s[::-1])), ("tuple", tuple(s) + (1,)), ("list", (-1, s[-1])), ("list", tuple(s[1:]) + (s[0],))]
    for form, arg in some(forms, 5):
        yield ("reshape_a", form, arg), s
    yield ("transpose_a", rng.choice(["none", "none_kw"]), None), s
    if n:
        p = rng.sample(modes, n)
        yield ("transpose_a", "tuple", tuple(x - n if rng.random() < 0.5 else x for x in p)), s
        yield ("transpose_a", "list", tuple(x - n for x in reversed(modes))), s
        yield ("transpose_a", "tuple", tuple(modes[:-1]) + (-n - 1,)), s                 # axis out of range
        if n >= 2:
            yield ("transpose_a", "list", tuple(modes[:-1]) + (modes[0] - n,)), s         # repeated after normalisation
    yield ("shape",), s
    yield ("ndim",), s


# ----------------------------------------------------------------------------- predicates
def domain_ok(d, s):
    """True: the theorems say the request succeeds; False: they say it is rejected; None: outside the documented domain
    (the outcome is only compared with the model).  Transcribes C01_unfold_ok_iff, C01_partial_unfold_ok_iff,
    C01_matricize_ok_iff and the round-trip theorems."""
    n = len(s)
    k = d[0]
    if k in ("tensor_to_vec",):
        return True
    if k == "unfold":
        m = d[1]
        if not (-n <= m < n):
            return False
        return True if s[m] != 0 else None   # an empty mode: NumPy's reshape(-1) rejects it (theorem about the model; compared with the model only)
    if k in ("partial_unfold", "partial_tensor_to_vec"):
        if k == "partial_unfold":
            m, sb, se, rav = d[1:]
        else:
            m, (sb, se), rav = 0, d[1:], True
        if m < 0:
            return None
        if not (m + sb < n and se <= n):
            return False
        if m + sb + se >= n:
            return None
        known = [s[i] for i in range(sb)] + ([] if rav else [s[m + sb]]) + [s[n - i] for i in range(se, 0, -1)]
        return True if all(x != 0 for x in known) else None   # empty kept mode: as for unfold
    if k == "matricize":
        rows = [d[1]] if isinstance(d[1], int) else list(d[1])
        cols = [i for i in range(n) if i not in rows] if d[2] is None else ([d[2]] if isinstance(d[2], int) else list(d[2]))
        return sorted(rows + cols) == list(range(n))
    if k == "fold":
        # C01_fold_ok_iff (+ C01_fold_signed_mode): the mode exists in the target shape and the target shape has as many
        # entries as the matrix (which has as many as the original tensor)
        L = len(d[2])
        return (-L <= d[1] < L) and int(np.prod(d[2], dtype=np.int64)) == int(np.prod(s, dtype=np.int64))
    if k == "vec_to_tensor":
        return int(np.prod(d[1], dtype=np.int64)) == int(np.prod(s, dtype=np.int64))
    if k in REFOLD:
        if int(np.prod(d[1] if k == "partial_vec_to_tensor" else d[2], dtype=np.int64)) != int(np.prod(s, dtype=np.int64)):
            return False
        return True if is_roundtrip(d, s) else None
    if k in ("moveaxis", "moveaxis_generic"):
        a, b = d[1], d[2]
        if -n <= a < n and -n <= b < n:
            return True
        return False if (k == "moveaxis" or not -n <= a < n or b < -n) else None
    if k == "transpose":
        return sorted(d[1]) == list(range(n))
    if k == "transpose_a":
        if d[2] is None:
            return True                                  # C01_np_transpose_none: never rejected
        return all(-n <= x < n for x in d[2]) and sorted(x % n for x in d[2]) == list(range(n))
    if k == "reshape_a" and d[1] == "int":               # C01_np_reshape_int_ok_iff
        return d[2] < 0 or d[2] == int(np.prod(s, dtype=np.int64))
    if k in ("shape", "ndim"):
        return True
    return None


def spec_predicate(d, orig, out):
    """Property predicate on the implementation's output (independent of the Coq model):
    exact success domain, documented layout, exact round trip.  orig: the original tensor; out: ('ok', value)|... """
    name = d[0]
    st, v = out
    s = orig.shape
    n = len(s)
    dom = domain_ok(d, s)
    if st == "crash" and dom is True:
        return f"{name}{d[1:]}: crashed inside the documented domain: {v}"
    if dom is True and st != "ok":
        return f"{name}{d[1:]}: a request inside the documented domain was rejected: {v}"
    if dom is False and st == "ok":
        return f"{name}{d[1:]}: a request outside the domain was accepted"
    if st != "ok":
        return None
    if not isinstance(v, np.ndarray):
        return f"{name}: result is not an ndarray but {type(v).__name__}"
    if v.dtype != orig.dtype:
        return f"{name}: dtype changed {orig.dtype} -> {v.dtype}"
    if name in REFOLD:
        if not is_roundtrip(d, s):
            return None
        if v.shape != orig.shape or v.tobytes() != np.ascontiguousarray(orig).tobytes():
            return f"{name}: round trip is not the identity"
        return None
    if name in ("moveaxis", "moveaxis_generic") and dom:
        # Base/Tensor.v moveaxis: pop axis a, re-insert it at b (C01_moveaxis_generic: the generic fallback is the same function)
        a, b = d[1] % n, d[2] % n
        def mv(xs):
            xs = list(xs); x = xs.pop(a); xs.insert(b, x); return tuple(xs)
        if v.shape != mv(s):
            return f"{name}{d[1:]}: shape {v.shape}"
        for idx in np.ndindex(*s):
            if v[mv(idx)] != orig[idx]:
                return f"{name}{d[1:]}: entry {idx} at wrong place"
        return None
    if name == "transpose" and dom:
        p = d[1]
        if v.shape != tuple(s[j] for j in p):
            return f"transpose{d[1:]}: shape {v.shape}"
        for idx in np.ndindex(*s):
            if v[tuple(idx[j] for j in p)] != orig[idx]:
                return f"transpose{d[1:]}: entry {idx} at wrong place"
        return None
    if name == "transpose_a" and dom:
        p = list(range(n))[::-1] if d[2] is None else [x % n for x in d[2]]      # C01_np_transpose_none_layout for None
        if v.shape != tuple(s[j] for j in p):
            return f"transpose{d[1:]}: shape {v.shape}"
        for idx in np.ndindex(*s):
            if v[tuple(idx[j] for j in p)] != orig[idx]:
                return f"transpose{d[1:]}: entry {idx} at wrong place"
        return None
    if name == "reshape_a" and d[1] == "int":
        if v.shape != (orig.size,) or v.tolist() != list(range(orig.size)):
            return f"reshape(tensor, {d[2]}): not the row-major vectorisation"
        return None
    if name == "shape":
        return None if v.tolist() == list(s) else f"tl.shape returned {v.tolist()} for a tensor of shape {list(s)}"
    if name == "ndim":
        return None if v.tolist() == n else f"tl.ndim returned {v.tolist()} for a tensor of order {n}"
    if name in PRIMS:
        return None
    if v.size != orig.size or sorted(v.ravel().tolist()) != list(range(orig.size)):
        return f"{name}: entries duplicated or dropped"
    if dom is None:
        return None
    if name == "tensor_to_vec":
        if v.shape != (orig.size,) or v.tolist() != list(range(orig.size)):
            return "tensor_to_vec: not the row-major vectorisation"
    elif name == "unfold":
        m = d[1] % n
        rest = [x for k, x in enumerate(s) if k != m]
        if v.shape != (s[m], int(np.prod(rest, dtype=np.int64))):
            return f"unfold: shape {v.shape}"
        for idx in np.ndindex(*s):
            r = [i for k, i in enumerate(idx) if k != m]
            col = int(np.ravel_multi_index(r, rest)) if rest else 0
            if v[idx[m], col] != orig[idx]:
                return f"unfold: entry {idx} at wrong place"
    elif name in ("partial_unfold", "partial_tensor_to_vec"):
        if name == "partial_unfold":
            m, sb, se, rav = d[1:]
        else:
            m, (sb, se), rav = 0, d[1:], True
        mid = list(range(sb, n - se))
        rest = [k for k in mid if k != m + sb]
        restshape = [s[k] for k in rest]
        lead_s = [s[k] for k in range(sb)]; trail_s = [s[k] for k in range(n - se, n)]
        exp_shape = lead_s + ([int(np.prod([s[k] for k in mid], dtype=np.int64))] if rav else [s[m + sb], int(np.prod(restshape, dtype=np.int64))]) + trail_s
        if list(v.shape) != exp_shape:
            return f"{name}{d[1:]}: shape {v.shape} instead of {tuple(exp_shape)}"
        for idx in np.ndindex(*s):
            lead = list(idx[:sb]); trail = list(idx[n - se:]) if se else []
            order = [m + sb] + rest
            if rav:
                pos = int(np.ravel_multi_index([idx[k] for k in order], [s[k] for k in order])) if order else 0
                o = tuple(lead + [pos] + trail)
            else:
                col = int(np.ravel_multi_index([idx[k] for k in rest], restshape)) if rest else 0
                o = tuple(lead + [idx[m + sb], col] + trail)
            if v[o] != orig[idx]:
                return f"{name}{d[1:]}: entry {idx} at wrong place"
    elif name == "matricize":
        rows = [d[1]] if isinstance(d[1], int) else list(d[1])
        cols = [i for i in range(n) if i not in rows] if d[2] is None else ([d[2]] if isinstance(d[2], int) else list(d[2]))
        rs = [s[k] for k in rows]; cs = [s[k] for k in cols]
        if v.shape != (int(np.prod(rs, dtype=np.int64)), int(np.prod(cs, dtype=np.int64))):
            return f"matricize: shape {v.shape}"
        for idx in np.ndindex(*s):
            r = int(np.ravel_multi_index([idx[k] for k in rows], rs)) if rows else 0
            c = int(np.ravel_multi_index([idx[k] for k in cols], cs)) if cols else 0
            if v[r, c] != orig[idx]:
                return f"matricize: entry {idx} at wrong place"
    return None


DTYPES = [np.bool_, np.int8, np.int16, np.int32, np.uint8, np.uint64, np.float16, np.float32, np.float64, np.complex64, np.complex128, object,
          np.dtype(">f8"), np.dtype(">i2")]          # the last two: non-native byte order (a copy through a native dtype is a re-typing)
ROT_STEP = 11                                          # coprime to len(DTYPES) * len(LAYOUTS) = 84: the rotation visits every combination
LAYOUTS = ["C", "F", "strided", "neg", "transposed", "broadcast"]
_POOL = {}


def value_pool(dtype, n):
    """n values of the dtype whose byte patterns are pairwise as different as the dtype allows (NaN, -0.0, extremes included)"""
    key = np.dtype(dtype).str if dtype is not object else "O"
    have = _POOL.get(key)
    if have is not None and len(have) >= n:
        return have[:n]
    size = max(n, 4096)
    r = random.Random(12345)
    if dtype is object:
        vals = np.empty(size, dtype=object)
        for i in range(size):
            vals[i] = ("s%d" % i) if i % 3 == 1 else (float(i) + 0.5 if i % 3 == 2 else 1000 + i)
    else:
        kind = np.dtype(dtype).kind
        if kind == "b":
            vals = np.array([r.random() < 0.5 for _ in range(size)], dtype=dtype)
        elif kind == "c":
            vals = np.array([complex(r.uniform(-1, 1), r.uniform(-1, 1)) for _ in range(size)], dtype=dtype)
            vals[1] = complex(np.nan, -0.0)
        elif kind == "f":
            vals = np.array([r.uniform(-1e3, 1e3) for _ in range(size)], dtype=dtype)
            vals[1] = np.nan; vals[2] = -0.0; vals[3] = np.inf
        else:
            info = np.iinfo(dtype)
            vals = np.array([r.randint(info.min, info.max) for _ in range(size)], dtype=dtype)
            vals[1] = info.min; vals[2] = info.max
    _POOL[key] = vals
    return vals[:n]


def dt_code(dtype):
    """integer code of a dtype (byte order included) for the typed model of Model/BasePy.v"""
    table = _POOL.setdefault("__codes__", {("|O" if t is object else np.dtype(t).str): i for i, t in enumerate(DTYPES + [np.int64])})
    key = np.dtype(dtype).str
    return table[key] if key in table else 900 + zlib.crc32(key.encode()) % 90


def relayout(a, layout):
    """a view / copy with the same logical content in another memory layout"""
    if a.ndim == 0 or layout == "C":
        return a
    if layout == "F":
        return np.asfortranarray(a)
    if layout == "strided":
        big = np.empty(tuple(2 * x for x in a.shape), dtype=a.dtype)
        big[...] = a.ravel()[0] if a.size else 0
        view = big[tuple(slice(1, None, 2) for _ in a.shape)]
        view[...] = a
        return view
    if layout == "neg":
        return np.flip(np.flip(a).copy())          # negative strides along every axis
    if layout == "transposed":
        # a transposed view whose strides are a rotation of the C order (neither C- nor F-contiguous for order >= 3;
        # order 2: the plain .T view)
        p = list(range(1, a.ndim)) + [0]
        inv = [p.index(i) for i in range(a.ndim)]
        return np.ascontiguousarray(a.transpose(p)).transpose(inv)
    if layout == "broadcast":
        # a read-only broadcast view with ZERO strides along every other axis (the logical content changes: the entries
        # along those axes are repeated; the caller compares with THIS array's logical content)
        idx = tuple(slice(0, 1) if (k % 2 == 0 and a.shape[k] > 1) else slice(None) for k in range(a.ndim))
        return np.broadcast_to(a[idx], a.shape)
    raise KeyError(layout)


def dtype_predicate(fn, a_int, out_int, dtype, layout="C", codes=None, meta=False):
    """re-run the same call on another dtype / memory layout: the output must be the same
    re-arrangement (positions taken from the int64 run) of the same bytes, dtype unchanged.
    codes (a list) receives the dtype codes of the input and of the result of the re-run."""
    n = a_int.size
    lab = a_int.ravel()
    vals = value_pool(dtype, int(lab.max()) + 1 if n else 0)
    a = vals[lab].reshape(a_int.shape) if n else np.empty(a_int.shape, dtype=dtype)   # the entry labelled p carries vals[p]
    a = relayout(a, layout)
    st, v = C.call_impl(fn, a)
    if (st, v) == ("crash", "timeout"):
        return None
    if st != "ok":
        return f"raised on dtype {np.dtype(dtype)} layout {layout}: {v}"
    if not isinstance(v, np.ndarray):
        return f"result is not an ndarray but {type(v).__name__}"
    if meta:      # tl.shape / tl.ndim: the answer depends neither on the dtype nor on the memory layout
        if codes is not None:
            codes[:] = [dt_code(a.dtype), dt_code(a.dtype)]
        return None if (v.shape == out_int.shape and np.array_equal(v, out_int)) else f"answer {v.tolist()} on dtype {np.dtype(dtype)} layout {layout} instead of {out_int.tolist()}"
    if codes is not None:
        codes[:] = [dt_code(a.dtype), dt_code(v.dtype)]
    if v.dtype != a.dtype or v.dtype.str != a.dtype.str:
        return f"dtype changed {a.dtype} -> {v.dtype}"
    if v.shape != out_int.shape:
        return f"shape differs between dtypes: {v.shape} vs {out_int.shape}"
    # the output entry that the labelled run took from input position p must be the input's entry at logical position p
    # (lab is arange for a direct input and the unfolding's labels for a refolding input: position of label q = argsort(lab)[q])
    flat_in = a.ravel()
    pos = np.argsort(lab, kind="stable") if n else lab
    exp = flat_in[pos[out_int.ravel()]] if n else np.empty(0, dtype=dtype)
    got = v.ravel()
    if dtype is object:
        same = all(x is y or (type(x) is type(y) and x == y) for x, y in zip(got, exp))
    else:
        same = np.ascontiguousarray(got).tobytes() == np.ascontiguousarray(exp).tobytes()
    if not same:
        return f"not the same re-arrangement of bytes for dtype {np.dtype(dtype)} layout {layout}"
    return None


# ----------------------------------------------------------------------------- ast tie
TIE_HEADER = """From Coq Require Import List ZArith Bool Uint63. Import ListNotations.
From TLV Require Import Base.Tensor Model.BaseExt Model.BasePy Model.BasePyCore Model.BasePyNp Proofs.BaseProofs18 Corr.C01.
"""
TIE_TACTIC = """Ltac tie_mon := repeat match goal with |- context [rbind ?r _] => destruct r; cbn [rbind] end.
Ltac tie_case := repeat match goal with x : pyseq |- _ => destruct x | x : option pyseq |- _ => destruct x | x : bool |- _ => destruct x end.
Ltac tie_norm := rewrite ?py_insert_0, ?app_nil_r; cbn [app py_list rcatch rbind negb andb orb fst snd].
Ltac tie_step := first [ progress tie_norm | match goal with |- context [rbind ?r _] => destruct r; cbn [rbind] end ].
"""
# requests of the box on which the documentation gives no answer (garbage-in): a negative skip_begin / skip_end, or the moved
# axis (k after normalisation of a negative mode + skip_begin) inside the skipped trailing or leading block.  A regenerated function that differs from the hand model ONLY there is a refactoring
# that is harmless on the documented domain: recorded (`box_only_documented_domain`), not a broken tie; the garbage-in requests
# of the case stream are then not judged against the hand model in that run.
GARBAGE = {
    "partial_unfold": "let n := Z.of_nat (length s) in let k := if 0 <=? m + sb then m + sb else m + sb + n in "
                      "(sb <? 0) || (se <? 0) || ((0 <=? k) && (k <? n) && ((n <=? k + se) || (k <? sb)))",
    "partial_fold": "(sb <? 0)",
    "partial_tensor_to_vec": "let n := Z.of_nat (length s) in (sb <? 0) || (se <? 0) || ((sb <? n) && (n <=? sb + se))",
    "partial_vec_to_tensor": "(sb <? 0)",
}
# the box on which a regenerated function is compared with the hand model when the universal proof fails
BOX = {
    "tensor_to_vec": ("s", "box_shapes", "F (arange s)"),
    "vec_to_tensor": ("'(s, z)", "flat_map (fun s => map (pair s) (box_targets s)) box_shapes", "F (arange s) z"),
    "unfold": ("'(s, m)", "flat_map (fun s => map (pair s) (box_modes s)) box_shapes", "F (arange s) m"),
    "fold": ("'(s, m, z)", "flat_map (fun s => flat_map (fun m => map (fun z => (s, m, z)) (box_targets s)) (box_modes s)) box_shapes",
             "F (arange s) m z"),
    "partial_unfold": ("'(s, m, sb, se, rav)",
                       "flat_map (fun s => flat_map (fun m => flat_map (fun sb => flat_map (fun se => [(s, m, sb, se, true); (s, m, sb, se, false)]) "
                       "(zrange (- Z.of_nat (length s) - 1) (2 * length s + 3))) (zrange (- Z.of_nat (length s) - 1) (2 * length s + 3))) (box_modes s)) box_shapes", "F (arange s) m sb se rav"),
    "partial_fold": ("'(s, m, z, sb)",
                     "flat_map (fun s => flat_map (fun m => flat_map (fun z => map (fun sb => (s, m, z, sb)) (zrange (- Z.of_nat (length s) - 1) (2 * length s + 3))) (box_targets s)) (box_modes s)) box_shapes",
                     "F (arange s) m z sb 0%Z"),
    "partial_tensor_to_vec": ("'(s, sb, se)", "flat_map (fun s => flat_map (fun sb => map (fun se => (s, sb, se)) (zrange (- Z.of_nat (length s) - 1) (2 * length s + 3))) (zrange (- Z.of_nat (length s) - 1) (2 * length s + 3))) box_shapes",
                              "F (arange s) sb se"),
    "partial_vec_to_tensor": ("'(s, z, sb)", "flat_map (fun s => flat_map (fun z => map (fun sb => (s, z, sb)) (zrange (- Z.of_nat (length s) - 1) (2 * length s + 3))) (box_targets s)) box_shapes",
                              "F (arange s) z sb 0%Z"),
    "moveaxis_generic": ("'(s, a, b)", "flat_map (fun s => flat_map (fun a => map (fun b => (s, a, b)) (zrange (- Z.of_nat (length s) - 1) (2 * length s + 4))) (box_modes s)) box_shapes",
                         "F (arange s) a b"),
    "matricize": ("'(s, r, c)",
                  "flat_map (fun s => [(s, PInt 0, None); (s, PInt (-1), None); (s, PInt 1, Some (PInt 0)); (s, PSeq [1], Some (PInt 0)); (s, PInt 0, Some (PSeq [1; 2]))] ++ "
                  "flat_map (fun r => (s, PSeq r, None) :: map (fun c => (s, PSeq r, Some (PSeq c))) (box_mode_lists s)) (box_mode_lists s)) "
                  "(flat_map (lists_over [0; 1; 2; 3]%nat) [0; 1; 2]%nat ++ [[2; 3; 2]; [1; 2; 3]; [0; 2; 1]]%nat)", "F (arange s) r c"),
}


def _coqc(fn, timeout=600):
    return subprocess.run(["timeout", str(timeout), "coqc", "-w", "none", "-R", os.path.join(C.COQ, "theories"), "TLV", fn],
                          capture_output=True, text=True, cwd=os.path.dirname(fn))


def _qual(name):
    return "tensorly.backend.core.Backend.moveaxis" if name == "moveaxis_generic" else "tensorly.base." + name


def run_ast_tie(chk):
    """Regenerate the model of every function of tensorly/base.py from the CURRENT source (harness/props/C01_ast.py) and
    re-prove, for ALL backends and arguments, that it is the hand model g_f of Model/BasePy.v (to which the theorems
    C01_g_* of Props/C01.v apply).  A function whose universal proof fails is compared with g_f on a finite box of requests
    on the NumPy backend: a difference is a broken tie (with the request); none is recorded as `box-only`.
    A construct the translator does not know is a broken tie (fail closed)."""
    src_path = os.path.join(C.REPO, "tensorly", "base.py")
    d = os.path.join(C.BUILD, "cases", "C01", f"ast_{os.getpid()}")
    shutil.rmtree(d, ignore_errors=True); os.makedirs(d, exist_ok=True)
    res = {"proved_universally": [], "box_only": [], "box_only_documented_domain": [], "untranslated": [], "skipped": []}
    try:
        src = open(src_path).read()
        items = C01_ast.translate(src)
        dflt = C01_ast.defaults(src)
        items += C01_ast.translate_core(open(os.path.join(C.REPO, "tensorly", "backend", "core.py")).read())
    except (SyntaxError, OSError) as e:
        chk.broken.append({"what": "ast tie: tensorly/base.py or tensorly/backend/core.py cannot be read / parsed", "detail": str(e)})
        chk.cov["ast_tie"] = res
        return res
    sigs = dict(C01_ast.SIGS); sigs["moveaxis_generic"] = C01_ast.CORE_SIGS["moveaxis"]
    # a function added to base.py that is not one of the nine is not part of the property: recorded, not a broken tie
    res["not_modelled"] = [name for name, text, _ in items if text is None and name not in C01_ast.SIGS and name != "moveaxis_generic"]
    items = [it for it in items if it[0] not in res["not_modelled"]]
    for name, text, why in items:
        if text is None:
            res["untranslated"].append(f"{name}: {why}")
            chk.broken.append({"what": f"ast tie: {_qual(name)} is outside the translated fragment (the model cannot be regenerated from the source)",
                               "detail": why})
    if dflt != C01_ast.DOCUMENTED_DEFAULTS:
        diff = {f"{k[0]}.{k[1]}": (dflt.get(k), C01_ast.DOCUMENTED_DEFAULTS.get(k)) for k in set(dflt) | set(C01_ast.DOCUMENTED_DEFAULTS)
                if dflt.get(k, "absent") != C01_ast.DOCUMENTED_DEFAULTS.get(k, "absent")}
        chk.broken.append({"what": "ast tie: default argument values of tensorly/base.py differ from the documented ones (source value, documented value)",
                           "detail": diff})
    # a function that calls an untranslated one cannot be regenerated either (its own tie is then not attempted)
    missing = {name for name, text, _ in items if text is None}
    items = [(name, (None if text is not None and any(f"ast_{m_} " in text for m_ in missing) else text), why) for name, text, why in items]
    res["untranslated"] += [f"{name}: calls an untranslated function" for name, text, _ in items if text is None and name not in missing]
    defs = "".join(text for _, text, _ in items if text is not None)
    ok_names = [name for name, text, _ in items if text is not None]
    procs = []
    for name in ok_names:
        sig = sigs[name]
        binders = " ".join(f"({p_} : {ty})" for p_, ty in sig)
        args = " ".join(p_ for p_, _ in sig)
        unf = ", ".join([f"ast_{n}" for n in ok_names] + [f"g_{n}" for n in ok_names])
        goal = (f"Goal forall (T : Type) (B : backend T) {binders}, ast_{name} B {args} = g_{name} B {args}.\n"
                f"Proof. intros. first [ reflexivity | unfold {unf}; cbv zeta; first [ tie_mon; reflexivity | repeat tie_step; reflexivity "
                f"| tie_case; repeat tie_step; reflexivity ] ]. Qed.\n")
        fn = os.path.join(d, f"Tie_{name}.v")
        open(fn, "w").write(TIE_HEADER + defs + TIE_TACTIC + goal)
        procs.append((name, fn))
    nproc = max(1, int(os.environ.get("VERIF_NPROC", "4")))
    results = {}
    for i in range(0, len(procs), nproc):
        batch = [(name, fn, subprocess.Popen(["timeout", "300", "coqc", "-w", "none", "-R", os.path.join(C.COQ, "theories"), "TLV", fn],
                                             stdout=subprocess.PIPE, stderr=subprocess.PIPE, text=True, cwd=d)) for name, fn in procs[i:i + nproc]]
        for name, fn, p_ in batch:
            out, err = p_.communicate()
            results[name] = (p_.returncode, out + err, fn)
    for name, (rc, log, fn) in results.items():
        if rc == 0:
            res["proved_universally"].append(name)
            continue
        if rc in (124, 137, -9, -15):
            res["skipped"].append(name)
            continue
        # the universal proof failed: compare on the box
        pat, dom, call = BOX[name]
        bfn = os.path.join(d, f"Box_{name}.v")
        f1 = call.replace("F ", f"ast_{name} P0 ", 1); f2 = call.replace("F ", f"g_{name} P0 ", 1)
        open(bfn, "w").write(TIE_HEADER + defs + "Open Scope Z_scope.\n"
                             f"Definition bad := filter (fun x => let {pat} := x in differ ({f1}) ({f2})) ({dom}).\n"
                             f"Definition bad_dom := filter (fun x => let {pat} := x in negb ({GARBAGE.get(name, 'false')})) bad.\n"
                             "Eval vm_compute in (Z.of_nat (length bad_dom), Z.of_nat (length bad), firstn 2 (bad_dom ++ bad)).\n")
        r = _coqc(bfn)
        m = re.search(r"=\s*\((\d+),\s*(\d+),", r.stdout.replace("\n", " "))
        if r.returncode in (124, 137, -9, -15):
            res["skipped"].append(name)
        elif r.returncode != 0 or not m:
            chk.broken.append({"what": f"ast tie: the model regenerated from {_qual(name)} is not the hand model g_{name} (neither proof nor box evaluation go through)",
                               "detail": {"regenerated": [t for n_, t, _ in items if n_ == name][0], "coqc": (log + r.stdout + r.stderr)[-1500:]}})
        elif int(m.group(1)) > 0:
            chk.broken.append({"what": f"ast tie: the model regenerated from {_qual(name)} DIFFERS from the hand model g_{name} of Model/BasePy.v / BasePyCore.v "
                                       f"on {m.group(1)} requests of the box (first ones shown)",
                               "detail": {"regenerated": [t for n_, t, _ in items if n_ == name][0], "differing_requests": r.stdout[-800:]}})
        elif int(m.group(2)) > 0:
            res["box_only_documented_domain"].append(name)
        else:
            res["box_only"].append(name)
    if not any(b.get("what", "").startswith("ast tie") for b in chk.broken):
        shutil.rmtree(d, ignore_errors=True)
    chk.cov["ast_tie"] = res
    chk.checker_cmds.append("coqc on goals generated from the Python ast of tensorly/base.py: forall backend and arguments, ast_f = g_f (Model/BasePy.v)")
    return res



def defaults_predicate(chk):
    """the harness passes every argument explicitly; here the optional ones are OMITTED and the result must be the one of
    the documented defaults (partial_*: skip_begin=1, skip_end=0, mode=0, ravel_tensors=False; matricize: column_modes=None)"""
    import tensorly as tl
    from tensorly import base
    for shape in [(2, 3, 2), (3, 2, 2, 2), (2, 1, 3)]:
        a = labelled(shape)
        try:
            u = tl.partial_unfold(a, 1, 1, 0, False); v = tl.partial_tensor_to_vec(a, 1, 0)
        except Exception:      # the explicit calls themselves are judged by the main stream
            continue
        pairs = [
            ("partial_unfold", "(tensor)", lambda: tl.partial_unfold(a), lambda: tl.partial_unfold(a, 0, 1, 0, False)),
            ("partial_unfold", "(tensor, 1)", lambda: tl.partial_unfold(a, 1), lambda: tl.partial_unfold(a, 1, 1, 0, False)),
            ("partial_unfold", "(tensor, 1, 0)", lambda: tl.partial_unfold(a, 1, 0), lambda: tl.partial_unfold(a, 1, 0, 0, False)),
            ("partial_fold", "(unfolded, 1, shape)", lambda: tl.partial_fold(u, 1, shape), lambda: tl.partial_fold(u, 1, shape, 1, 0)),
            ("partial_tensor_to_vec", "(tensor)", lambda: tl.partial_tensor_to_vec(a), lambda: tl.partial_tensor_to_vec(a, 1, 0)),
            ("partial_vec_to_tensor", "(matrix, shape)", lambda: tl.partial_vec_to_tensor(v, shape), lambda: tl.partial_vec_to_tensor(v, shape, 1, 0)),
            ("matricize", "(tensor, [1])", lambda: base.matricize(a, [1]), lambda: base.matricize(a, [1], None)),
        ]
        for name, how, f_short, f_full in pairs:
            r1 = C.call_impl(lambda _: f_short(), None); r2 = C.call_impl(lambda _: f_full(), None)
            if ("crash", "timeout") in (r1, r2):
                continue
            chk.cov["evaluations"] += 1
            same = r1[0] == r2[0] and (r1[0] != "ok" or (np.asarray(r1[1]).shape == np.asarray(r2[1]).shape and np.array_equal(r1[1], r2[1])))
            if not same:
                chk.finding(f"tensorly.base.{name}", {"shape": list(shape), "descr": repr((name + how,)), "dtype": "int64", "layout": "C"},
                            f"{name}{how} with the optional arguments omitted differs from the call with the documented defaults", "C01_documented_defaults")



def repeat_call_predicate(chk):
    """multi-step sequences: the refolding functions are called TWICE with the same (mutable) list object as `shape`, and
    matricize twice with the same lists of modes; every call must return the original tensor / the same matrix (an
    implementation that re-arranges the caller's list instead of a copy passes any single call)"""
    import tensorly as tl
    from tensorly import base
    for shape in [(2, 3, 2), (3, 2, 2, 2), (2, 1, 3), (4, 3)]:
        a = labelled(shape)
        n = len(shape)
        seqs = []
        for m in range(n):
            seqs.append(("fold", (m,), lambda shp, m=m: tl.fold(tl.unfold(a, m), m, shp)))
        seqs.append(("vec_to_tensor", (), lambda shp: tl.vec_to_tensor(tl.tensor_to_vec(a), shp)))
        for sb in range(0, n):
            for m in range(0, n - sb):
                seqs.append(("partial_fold", (m, sb), lambda shp, m=m, sb=sb: tl.partial_fold(tl.partial_unfold(a, m, sb, 0, False), m, shp, sb, 0)))
            seqs.append(("partial_vec_to_tensor", (sb,), lambda shp, sb=sb: tl.partial_vec_to_tensor(tl.partial_tensor_to_vec(a, sb, 0), shp, sb, 0)))
        for name, args, f in seqs:
            shp = list(shape)
            outs = [C.call_impl(f, shp) for _ in range(3)]
            if ("crash", "timeout") in outs:
                continue
            chk.cov["evaluations"] += 3
            bad = None
            if shp != list(shape):
                bad = f"the caller's shape list was changed to {shp}"
            for j, (st, v) in enumerate(outs):
                if st != "ok" or np.asarray(v).shape != a.shape or not np.array_equal(v, a):
                    bad = bad or f"call number {j + 1} with the same shape list does not return the original tensor"
            if bad:
                chk.finding(f"tensorly.base.{name}", {"shape": list(shape), "descr": repr((f"{name}{args} repeated with one list object",)), "dtype": "int64", "layout": "C"},
                            f"{name}{args}: {bad}", "C01_repeated_calls")
        rows, cols = [n - 1], list(range(n - 1))
        outs = [C.call_impl(lambda _: base.matricize(a, rows, cols), None) for _ in range(2)]
        if ("crash", "timeout") not in outs:
            chk.cov["evaluations"] += 2
            if rows != [n - 1] or cols != list(range(n - 1)) or outs[0][0] != "ok" or outs[1][0] != "ok" or not np.array_equal(outs[0][1], outs[1][1]):
                chk.finding("tensorly.base.matricize", {"shape": list(shape), "descr": repr(("matricize repeated with one list object",)), "dtype": "int64", "layout": "C"},
                            "matricize: the mode lists of the caller were changed, or a second call differs from the first", "C01_repeated_calls")



def dispatch_predicate(chk):
    """the tl.* layer: tl.unfold, tl.fold, ... are the functions of tensorly/base.py re-exported, and inside them tl.reshape /
    tl.moveaxis / tl.transpose / tl.shape / tl.ndim are resolved on EVERY call through the current backend (thread-local first,
    then the global one).  In every backend state reachable with the installed backends (default; set_backend('numpy')
    globally and thread-locally; inside backend_context, thread-safe or not; inside a fresh thread, before and after a
    thread-local set_backend) each of the nine functions and of the three primitives must return exactly what it returns in
    the default state, and the name tl.f must resolve to the very function object tensorly.base.f (recorded; C17 owns the
    dispatch mechanism itself)."""
    import threading
    import tensorly as tl
    from tensorly import base
    a = labelled((2, 3, 2, 2))
    calls = {
        "tensor_to_vec": lambda: tl.tensor_to_vec(a), "vec_to_tensor": lambda: tl.vec_to_tensor(tl.tensor_to_vec(a), a.shape),
        "unfold": lambda: tl.unfold(a, -2), "fold": lambda: tl.fold(tl.unfold(a, 2), 2, a.shape),
        "partial_unfold": lambda: tl.partial_unfold(a, 1, 1, 1, True), "partial_fold": lambda: tl.partial_fold(tl.partial_unfold(a, 1, 1, 1, False), 1, a.shape, 1, 1),
        "partial_tensor_to_vec": lambda: tl.partial_tensor_to_vec(a, 1, 1), "partial_vec_to_tensor": lambda: tl.partial_vec_to_tensor(tl.partial_tensor_to_vec(a, 1, 1), a.shape, 1, 1),
        "matricize": lambda: base.matricize(a, [2, 0], [3, 1]),
        "moveaxis": lambda: tl.moveaxis(a, -1, 1), "transpose": lambda: tl.transpose(a, [3, 0, 2, 1]), "reshape": lambda: tl.reshape(a, (4, -1)),
    }
    def snapshot():
        out = {}
        for k_, f in calls.items():
            try:                       # (no common.call_impl here: its alarm signal only works in the main thread)
                v = f(); st = "ok"
            except Exception as e:     # noqa
                v = f"{type(e).__name__}: {e}"; st = "raised"
            out[k_] = (st, (str(v.dtype), v.shape, np.ascontiguousarray(v).tobytes()) if st == "ok" else str(v)[:80])
        return out
    base_snap = snapshot()
    same_object = {k_: getattr(tl, k_, None) is getattr(base, k_) for k_ in calls if hasattr(base, k_) and hasattr(tl, k_)}
    states = {}
    try:
        tl.set_backend("numpy"); states["set_backend('numpy')"] = snapshot()
        tl.set_backend("numpy", local_threadsafe=True); states["set_backend('numpy', local_threadsafe=True)"] = snapshot()
        with tl.backend_context("numpy"):
            states["backend_context('numpy')"] = snapshot()
        with tl.backend_context("numpy", local_threadsafe=True):
            states["backend_context('numpy', local_threadsafe=True)"] = snapshot()
        box = {}
        def in_thread():
            box["fresh thread"] = snapshot()
            tl.set_backend("numpy", local_threadsafe=True)
            box["fresh thread after a thread-local set_backend"] = snapshot()
        th = threading.Thread(target=in_thread); th.start(); th.join()
        states.update(box)
        states["main thread after the other thread's set_backend"] = snapshot()
    finally:
        C.reset_backends()
    for name, snap in states.items():
        chk.cov["evaluations"] += len(snap)
        for k_ in calls:
            if snap.get(k_) != base_snap[k_]:
                chk.finding(("tensorly." if k_ in ("moveaxis", "transpose", "reshape") else "tensorly.base.") + k_,
                            {"shape": [2, 3, 2, 2], "descr": repr((f"{k_} in backend state: {name}",)), "dtype": "int64", "layout": "C"},
                            f"{k_}: the result in the backend state `{name}` differs from the default state", "C01_backend_states")
    chk.cov["tl_name_is_base_function_object"] = same_object
    chk.cov["backend_states_compared"] = sorted(states)



def backend_glue_predicate(chk):
    """tensorly/backend/numpy_backend.py under base.py: tl.reshape / tl.moveaxis / tl.transpose / tl.shape resolve to NumPy's own
    functions (registered by name with Backend.register_method: no wrapper that could copy through another dtype), tl.ndim to
    `return tensor.ndim`.  Recorded from the SOURCE (ast of numpy_backend.py) and from the LIVE objects (`backend.f is np.f`);
    a wrapper is not a defect in itself, so whatever these say, tl.f(args) must return exactly what np.f(args) returns - same
    dtype (byte order included), same shape, same bytes - for all 14 dtypes x 6 memory layouts."""
    import ast as _ast
    import tensorly as tl
    names = ("reshape", "moveaxis", "transpose", "shape", "ndim")
    rec = {"source": {}, "live_object_is_numpy_function": {}}
    try:
        from tensorly.backend import core as _core
        tree = _ast.parse(open(os.path.join(C.REPO, "tensorly", "backend", "numpy_backend.py")).read())
        cls = [x for x in tree.body if isinstance(x, _ast.ClassDef) and x.name == "NumpyBackend"]
        body_defs = {f.name: f for f in cls[0].body if isinstance(f, _ast.FunctionDef)} if cls else {}
        registered = set()
        for node in tree.body:
            if isinstance(node, _ast.For) and len(node.body) == 1 and \
                    _ast.unparse(node.body[0]).replace(" ", "") == "NumpyBackend.register_method(name,getattr(np,name))":
                for c_ in _ast.walk(node.iter):
                    if isinstance(c_, _ast.Constant) and isinstance(c_.value, str):
                        registered.add(c_.value)
                    elif isinstance(c_, _ast.Name) and isinstance(getattr(_core, c_.id, None), list):
                        registered.update(x for x in getattr(_core, c_.id) if isinstance(x, str))
        for n_ in names:
            if n_ in body_defs:
                rec["source"][n_] = "defined in the class body: " + " ".join(_ast.unparse(x) for x in body_defs[n_].body if not
                                                                            (isinstance(x, _ast.Expr) and isinstance(x.value, _ast.Constant)))[:120]
            else:
                rec["source"][n_] = "registered by name: getattr(np, name)" if n_ in registered else "not found in numpy_backend.py"
    except Exception as e:      # noqa  (a source that cannot be read this way is recorded; the behavioural comparison below decides)
        rec["source"] = {"unreadable": f"{type(e).__name__}: {e}"[:200]}
    try:
        from tensorly.backend import BackendManager
        be = BackendManager.current_backend()
        for n_ in names:
            rec["live_object_is_numpy_function"][n_] = getattr(be, n_, None) is getattr(np, n_)
    except Exception as e:      # noqa
        rec["live_object_is_numpy_function"] = {"unreadable": f"{type(e).__name__}: {e}"[:200]}
    lab = labelled((2, 3, 4))       # (no palindromic shape: a reversed shape must show)
    calls = [
        ("reshape", "(t, (3, -1))", lambda f, a: f(a, (3, -1))), ("reshape", "(t, [2, 12])", lambda f, a: f(a, [2, 12])), ("reshape", "(t, -1)", lambda f, a: f(a, -1)),
        ("moveaxis", "(t, -1, 0)", lambda f, a: f(a, -1, 0)), ("moveaxis", "(t, 0, 2)", lambda f, a: f(a, 0, 2)),
        ("transpose", "(t, (2, 0, 1))", lambda f, a: f(a, (2, 0, 1))), ("transpose", "(t)", lambda f, a: f(a)), ("transpose", "(t, [-1, 0, 1])", lambda f, a: f(a, [-1, 0, 1])),
        ("shape", "(t)", lambda f, a: f(a)), ("ndim", "(t)", lambda f, a: f(a)),
    ]
    for dt in DTYPES:
        for lay in LAYOUTS:
            vals = value_pool(dt, lab.size)
            a = relayout(vals[lab.ravel()].reshape(lab.shape), lay)
            for n_, how, call in calls:
                r1 = C.call_impl(lambda x: call(getattr(tl, n_), x), a)
                r2 = C.call_impl(lambda x: call(getattr(np, n_), x), a)
                if ("crash", "timeout") in (r1, r2):
                    continue
                chk.cov["evaluations"] += 1
                same = r1[0] == r2[0]
                if same and r1[0] == "ok":
                    v1, v2 = r1[1], r2[1]
                    if isinstance(v2, np.ndarray):
                        same = isinstance(v1, np.ndarray) and v1.dtype == v2.dtype and v1.dtype.str == v2.dtype.str and v1.shape == v2.shape
                        if same and dt is object:
                            same = all(x is y for x, y in zip(v1.ravel(), v2.ravel()))
                        elif same:
                            same = np.ascontiguousarray(v1).tobytes() == np.ascontiguousarray(v2).tobytes()
                    else:
                        same = type(v1) is type(v2) and v1 == v2
                if not same:
                    chk.finding("tensorly." + n_, {"shape": [2, 3, 4], "descr": repr((f"tl.{n_}{how} compared with numpy's {n_}",)),
                                                   "dtype": "object" if dt is object else str(np.dtype(dt)), "layout": lay},
                                f"tl.{n_}{how} on dtype {'object' if dt is object else np.dtype(dt)} layout {lay} does not return what numpy's {n_} returns", "C01_backend_is_numpy")
    chk.cov["numpy_backend_glue"] = rec


def consumer_predicate(chk):
    """transcription of C01_mode_dot_is_fold_matmul_unfold: fold(M @ unfold(T, mode), mode, new_shape), made of tl.unfold / tl.fold,
    is the n-mode product  R[.., j, ..] = sum_i M[j, i] T[.., i, ..]  (computed here with np.tensordot + np.moveaxis on integer
    data, exact) for every signed mode: the mode-k fibres are the columns and fold reads the columns in the order unfold wrote
    them (ANY consistent column order would do for this consumer).  The column ORDER itself is pinned by the second consumer,
    the MTTKRP  unfold(T, k) @ khatri_rao(U_j, j != k)  (rows of the Khatri-Rao product: row-major over the remaining modes in
    increasing order, built here with plain numpy), compared with the defining sum (np.einsum, exact on integers).
    Whether tensorly.tenalg.mode_dot itself returns the same tensor is recorded only (that function is C02's)."""
    import tensorly as tl
    r = random.Random(8)
    agree = {"compared": 0, "equal": 0}
    for shape in [(2, 3, 4), (3, 1, 2, 2), (4, 3), (5,), (2, 2, 3, 1, 2)]:
        n = len(shape)
        T = np.array([r.randint(-9, 9) for _ in range(int(np.prod(shape)))], dtype=np.int64).reshape(shape)
        for m in range(-n, n):
            k = m % n
            a = r.choice([1, 2, 3])
            M = np.array([r.randint(-5, 5) for _ in range(a * shape[k])], dtype=np.int64).reshape(a, shape[k])
            new_shape = list(shape); new_shape[k] = a
            out = C.call_impl(lambda _: tl.fold(np.dot(M, tl.unfold(T, m)), m, new_shape), None)
            if out == ("crash", "timeout"):
                continue
            chk.cov["evaluations"] += 1
            exp = np.moveaxis(np.tensordot(M, T, axes=([1], [k])), 0, k)
            ok = out[0] == "ok" and isinstance(out[1], np.ndarray) and out[1].shape == exp.shape and np.array_equal(out[1], exp)
            if not ok:
                chk.finding("tensorly.base.fold", {"shape": list(shape), "descr": repr((f"consumer: fold(M @ unfold(T, {m}), {m}, new_shape) against the n-mode product",)),
                                                   "dtype": "int64", "layout": "C"},
                            f"fold(M @ unfold(T, {m}), {m}, {new_shape}) is not the mode-{k} product of T {list(shape)} with M {list(M.shape)}", "C01_consumer_mode_dot")
            if n >= 2 and n <= 4:
                R_ = 2
                Us = [np.array([r.randint(-3, 3) for _ in range(shape[j] * R_)], dtype=np.int64).reshape(shape[j], R_) for j in range(n)]
                rest = [j for j in range(n) if j != k]
                kr = np.ones((1, R_), dtype=np.int64)
                for j in rest:                      # row-major: the LAST remaining mode varies fastest
                    kr = (kr[:, None, :] * Us[j][None, :, :]).reshape(-1, R_)
                letters = "abcd"[:n]
                expm = np.einsum(letters + "," + ",".join(letters[j] + "r" for j in rest) + "->" + letters[k] + "r", T, *[Us[j] for j in rest])
                outm = C.call_impl(lambda _: np.dot(tl.unfold(T, m), kr), None)
                if outm != ("crash", "timeout"):
                    chk.cov["evaluations"] += 1
                    if not (outm[0] == "ok" and outm[1].shape == expm.shape and np.array_equal(outm[1], expm)):
                        chk.finding("tensorly.base.unfold", {"shape": list(shape), "descr": repr((f"consumer: unfold(T, {m}) @ khatri_rao(factors but {k}) against the MTTKRP sum",)),
                                                             "dtype": "int64", "layout": "C"},
                                    f"unfold(T, {m}) @ khatri_rao(U_j, j != {k}) is not the MTTKRP of T {list(shape)}: the columns of the unfolding are not "
                                    "row-major over the remaining modes in increasing order", "C01_consumer_mttkrp")
            try:
                from tensorly.tenalg import mode_dot
                got = mode_dot(T, M, m)
                agree["compared"] += 1
                agree["equal"] += int(isinstance(got, np.ndarray) and got.shape == exp.shape and np.array_equal(got, exp))
            except Exception:      # noqa  (C02's function: recorded only)
                agree["compared"] += 1
    chk.cov["tenalg_mode_dot_agrees_with_fold_matmul_unfold"] = agree


def entry_point(d):
    return {"moveaxis": "tensorly.moveaxis", "transpose": "tensorly.transpose", "reshape": "tensorly.reshape", "reshape_a": "tensorly.reshape",
            "transpose_a": "tensorly.transpose", "shape": "tensorly.shape", "ndim": "tensorly.ndim",
            "moveaxis_generic": "tensorly.backend.core.Backend.moveaxis"}.get(d[0], "tensorly.base." + (d[0][:-2] if d[0].endswith("_z") else d[0]))


def judge(d, shape, combos):
    """run one case against the implementation; -> (case literal parts or None, list of (message, predicate, extra inputs))"""
    made = make_case(d, shape)
    if made is None:
        return None, []
    a_in, orig, prim = made
    out = C.call_impl(prim, a_in)
    if out == ("crash", "timeout"):      # a stalled machine is not a verdict: the case is skipped and counted
        return None, []
    msgs = []
    msg = spec_predicate(d, orig, out)
    # dtype codes handed to the typed model: those of the first re-run on another dtype; of the labelled run otherwise
    codes = [dt_code(a_in.dtype), dt_code(out[1].dtype) if out[0] == "ok" and isinstance(out[1], np.ndarray) else dt_code(a_in.dtype)]
    if msg:
        msgs.append((msg, "C01_layout_roundtrip", {"dtype": "int64", "layout": "C"}))
    elif out[0] == "ok":
        for j, (dt, lay) in enumerate(combos):
            m2 = dtype_predicate(prim, a_in, np.asarray(out[1]), dt, lay, codes if j == 0 else None, meta=d[0] in ("shape", "ndim"))
            if m2:
                msgs.append((m2, "C01_dtype_bytes", {"dtype": "object" if dt is object else str(np.dtype(dt)), "layout": lay}))
                break
    return (a_in, orig, out, tuple(codes)), msgs


class ShardStream:
    """Local variant of common.run_case_shards that evaluates shards WHILE the cases are still being produced: submit() writes a
    shard file and queues it, NPROC runner threads start coqc on queued files at once; finish() waits, retries a killed /
    timed-out shard once alone (as common does) and returns (failing ids, number evaluated, not-evaluated shards)."""
    RX = re.compile(r"=\s*\((\d+)(?:%nat)?,\s*\[([\d;\s]*)\](?:%nat)?\)")

    def __init__(self, prop, header, case_type, timeout=600):
        import queue, threading
        self.d = os.path.join(C.BUILD, "cases", prop, f"cases_{os.getpid()}")
        shutil.rmtree(self.d, ignore_errors=True); os.makedirs(self.d, exist_ok=True)
        self.header, self.case_type, self.timeout = header, case_type, timeout
        self.q = queue.Queue(); self.k = 0
        self.failing, self.n_eval, self.broken, self.sizes = set(), 0, [], {}
        self.lock = threading.Lock()
        self.threads = [threading.Thread(target=self._work, daemon=True) for _ in range(max(1, C.NPROC))]
        for t in self.threads:
            t.start()

    def _coqc(self, fn, timeout):
        p = subprocess.run(["timeout", str(timeout), "coqc", "-w", "none", "-R", os.path.join(C.COQ, "theories"), "TLV", fn],
                           capture_output=True, text=True, cwd=self.d)
        m = self.RX.search(p.stdout.replace("\n", " ").replace("%nat;", ";").replace("%nat]", "]"))
        return p, m

    def _work(self):
        while True:
            fn = self.q.get()
            if fn is None:
                return
            p, m = self._coqc(fn, self.timeout)
            with self.lock:
                if p.returncode != 0 or not m or int(m.group(1)) != self.sizes[fn]:
                    self.broken.append({"shard": fn, "rc": p.returncode, "stderr": p.stderr[-2000:], "stdout": p.stdout[-500:]})
                else:
                    self.n_eval += self.sizes[fn]
                    self.failing.update(int(x) for x in m.group(2).replace(" ", "").split(";") if x)

    def submit(self, chunk):
        fn = os.path.join(self.d, f"S{self.k}.v"); self.k += 1
        with open(fn, "w") as f:
            f.write(self.header + "\n")
            f.write(f"Definition cs : list {self.case_type} := [\n" + ";\n".join(chunk) + "\n].\n")
            f.write("Eval vm_compute in (length cs, failing cs).\n")
        self.sizes[fn] = len(chunk)
        self.q.put(fn)

    def finish(self):
        for _ in self.threads:
            self.q.put(None)
        for t in self.threads:
            t.join()
        still = []
        if self.broken and any("inconsistent assumptions" in (b.get("stderr") or "") for b in self.broken):
            C.coq_make(["theories/Props/C01.vo", "theories/Corr/C01.vo"])
        for b in self.broken:
            p, m = self._coqc(b["shard"], 2 * self.timeout)
            if p.returncode != 0 or not m or int(m.group(1)) != self.sizes[b["shard"]]:
                still.append({"shard": b["shard"], "rc": p.returncode, "stderr": p.stderr[-2000:], "stdout": p.stdout[-500:], "retried": True})
                continue
            self.n_eval += self.sizes[b["shard"]]
            self.failing.update(int(x) for x in m.group(2).replace(" ", "").split(";") if x)
        if not still and not os.environ.get("VERIF_KEEP_CASES"):
            shutil.rmtree(self.d, ignore_errors=True)
        return self.failing, self.n_eval, still


def _judge_chunk(items):
    """worker of the process pool: run the implementation and the predicates on a chunk of requests; returns plain data"""
    out = []
    for d, shape, combos in items:
        res, msgs = judge(d, shape, combos)
        if res is None:
            out.append(None)
            continue
        a_in, orig, o, codes = res
        lit = f"{oplit(d)}, {arr_lit(a_in)}, {res_arr(o)}, ({C.z(codes[0])}, {C.z(codes[1])}))"
        shown = None
        if o[0] == "ok":
            shown = np.asarray(o[1]).tolist() if np.asarray(o[1]).size <= 24 else str(o[1])[:80]
        else:
            shown = str(o[1])[:80]
        out.append((lit, orig.size > 1 or o[0] != "ok", o[0], shown, msgs))
    return out


def run(chk):
    import threading, multiprocessing, time
    t_start = time.time(); phase = {}
    rng = random.Random(chk.seed)
    chk.build_proofs()
    phase["build_and_print_assumptions"] = round(time.time() - t_start, 1)
    # the source tie runs beside the case generation (coqc subprocesses); joined before the verdict
    tie_box = {}
    def _tie():
        t0 = time.time(); run_ast_tie(chk); tie_box["s"] = round(time.time() - t0, 1)
    tie_thread = threading.Thread(target=_tie); tie_thread.start()
    C.reset_backends()
    tier = chk.tier
    rot = {}
    all_combos = [(dt, lay) for dt in DTYPES for lay in LAYOUTS]
    seen_combo = set()
    defaults_predicate(chk)
    repeat_call_predicate(chk)
    dispatch_predicate(chk)
    backend_glue_predicate(chk)
    consumer_predicate(chk)
    corpus = load_corpus()
    stream = itertools.chain(((tuple_deep(c["descr"]), tuple(c["shape"])) for c in corpus), gen_cases(tier, rng))
    work = []
    for d, shape in stream:
        # dtype x layout: quick rotates through all combinations per function (one per case), thorough runs four rotating
        # dtypes on the C layout plus every other layout on a rotating dtype
        k = rot.get(d[0], 0); rot[d[0]] = k + 1
        if tier == "quick":
            combos = [all_combos[(k * ROT_STEP) % len(all_combos)]]
        else:
            combos = [(DTYPES[(4 * k + j) % len(DTYPES)], "C") for j in range(4)] + [(DTYPES[(k + j) % len(DTYPES)], lay) for j, lay in enumerate(LAYOUTS[1:])]
        work.append((d, shape, combos))
    phase["requests_generated"] = round(time.time() - t_start, 1)
    # the implementation calls and predicates run in a pool of forked workers (results come back in request order); every 800
    # cases are handed to the shard stream at once, so Coq evaluates while Python still produces (the expensive high-order
    # requests are generated first)
    shards = ShardStream("C01", HEADER, "case")
    nworkers = max(1, C.NPROC // 2)
    chunks = [work[i:i + 400] for i in range(0, len(work), 400)]
    cases, meta, pending = [], [], []
    def consume(d, shape, combos, r):
        if r is None:
            chk.hist("outcome", "no-input (the unfolding that makes the input is rejected, or a per-case timeout)")
            return
        lit, nontrivial, st, shown, msgs = r
        cid = len(cases)
        cases.append(None); meta.append((d, shape))
        pending.append(f"({cid}%uint63, {lit}")
        chk.count(key=(d, shape), nontrivial=nontrivial)
        chk.hist("function", d[0]); chk.hist("order", len(shape)); chk.hist("outcome", st)
        if 0 in shape:
            chk.hist("size0", d[0] + ":" + st)
        if st == "ok":
            chk.cov["evaluations"] += len(combos)
            for c_ in combos:
                seen_combo.add((d[0], "object" if c_[0] is object else np.dtype(c_[0]).str, c_[1]))
        if cid % 2999 == 0:
            chk.sample({"call": repr(d), "input_shape": list(shape), "outcome": st, "output": shown})
        for msg, pred, extra in msgs:
            inputs = {"shape": list(shape), "descr": repr(d)}
            inputs.update(extra)
            chk.finding(entry_point(d), inputs, msg, pred)
        if len(pending) >= 800:
            shards.submit(list(pending)); del pending[:]
    if nworkers > 1:
        with multiprocessing.get_context("fork").Pool(nworkers) as pool:
            for items, results in zip(chunks, pool.imap(_judge_chunk, chunks)):
                for (d, shape, combos), r in zip(items, results):
                    consume(d, shape, combos, r)
    else:
        for items in chunks:
            for (d, shape, combos), r in zip(items, _judge_chunk(items)):
                consume(d, shape, combos, r)
    if pending:
        shards.submit(list(pending)); del pending[:]
    phase["implementation_and_predicates_done"] = round(time.time() - t_start, 1)
    failing, n_eval, broken = shards.finish()
    phase["shards_done"] = round(time.time() - t_start, 1)
    tie_thread.join()
    phase["ast_tie_seconds"] = tie_box.get("s")
    chk.cov["phase_seconds"] = phase
    chk.checker_cmds.append("coqc (vm_compute) on generated build/cases/C01/*.v: Corr.C01.failing")
    chk.cov["traces_validated_against_impl"] = n_eval
    chk.cov["exhaustive"] = True
    chk.cov["dtype_layout_combinations_per_function"] = {f: sum(1 for x in seen_combo if x[0] == f) for f in sorted({x[0] for x in seen_combo})}
    chk.cov["rule"] = ("every tensor shape of order 0-4 over mode sizes {1,2,3}, plus every shape of order 1-3 over {0,1,2,3} that has an empty mode "
                       "(thorough: order<=5, +200 random shapes with sizes <= 6 and at most 720 entries, every order-6 shape over {1,2} with sampled arguments; order-4 shapes with an empty mode, orders 5-11 over {1,2} and orders 5-6 over {1,2,3} "
                       "are SAMPLED, not exhaustive) x every function of tensorly/base.py x every signed mode -n..n-1 (+1 invalid at either end) x every "
                       "(skip_begin, skip_end, ravel) split with every documented mode 0 <= mode < ndim-skip_begin-skip_end (plus one non-existent mode; garbage-in requests - negative skips, moved axis inside a skipped block - are sampled and compared with the statement-level model only) "
                       "x every ordered row/column split of matricize (order<=3; sampled above) + invalid requests "
                       "+ the backend primitives moveaxis (NumPy and the generic Backend.moveaxis) / transpose / reshape, their argument forms (int / tuple / list newshape, axes None / signed) and tl.shape / tl.ndim; entries are the distinct integers 0..n-1 so "
                       "one run decides the shape for all values; each successful case is re-run on other dtypes / memory layouts (C, F, strided slice, negative strides, transposed view with rotated strides, read-only broadcast view with zero strides) and must "
                       "give the same re-arrangement of the same bytes; a case is non-trivial if the tensor has more than one entry or the request is rejected; "
                       "distinct key = (function, arguments, shape)")
    for b in broken:
        chk.broken.append({"what": "correspondence corr:C01 shard not evaluated", "detail": b})
    # requests with negative skips / a moved axis inside a skipped block are garbage-in: the hand-written g_f speaks for the
    # source on them when this run's tie holds - proved for ALL arguments, or `box_only` (the box contains every signed
    # skip_begin / skip_end in -n-1..n+1 and every overlapping request on its shapes); not when the tie was skipped (timeout)
    proved = set((chk.cov.get("ast_tie") or {}).get("proved_universally", [])) | set((chk.cov.get("ast_tie") or {}).get("box_only", []))
    dropped = 0
    for i in sorted(failing):
        d, shape = meta[i]
        if d[0].endswith("_z") and not {d[0][:-2], "partial_unfold" if "unfold" in d[0] or "to_vec" in d[0] else "partial_fold"} <= proved:
            dropped += 1
            continue
        chk.disagreement("corr:C01 (Model/Base.v vs tensorly/base.py)", {"descr": repr(d), "shape": list(shape)})
    chk.cov["garbage_in_disagreements_not_judged_because_the_tie_was_not_evaluated"] = dropped
    chk.assumptions = ["NumPy reshape/moveaxis/transpose behave as modelled in Base/Tensor.v (checked on this run's primitive cases and, through the "
                       "dtype/layout re-runs, on F-contiguous, strided, negative-stride, transposed and zero-stride broadcast views)",
                       "tensor data are compared as lists of labels / bytes of the logical row-major order; memory layout of the result is not part of the property"]
    chk.trusted = ["the ast translator harness/props/C01_ast.py (Python ast -> Gallina over the abstract backend) and the Python list / int semantics of "
                   "Model/BasePy.v (py_getitem, py_pop, py_insert, py_range1/3, rmapM, py_sorted); a construct outside its fragment is reported as a broken tie",
                   "the packed-literal decoder Corr.C01.unpack (a decoding error shows up as a disagreement, never as silent agreement on different data, "
                   "because both sides are decoded from literals the harness printed from the implementation's arrays)"]
    return chk.finish()


def tuple_deep(x):
    return tuple(tuple_deep(y) for y in x) if isinstance(x, (list, tuple)) else x


def load_corpus():
    import glob, json, os
    out = []
    for fn in sorted(glob.glob(os.path.join(os.path.dirname(__file__), "..", "..", "corpus", "C01", "*.json"))):
        try:
            with open(fn) as f:
                j = json.load(f)
            for c in (j if isinstance(j, list) else [j]):
                out.append(c)
        except Exception:
            pass
    return out


def replay(payload):
    """re-run a stored failing input against the current implementation; 1 = still failing"""
    if payload.get("kind") != "failing-input":
        print("replay file names a broken theorem/correspondence, not an input:", payload.get("theorem_or_correspondence"))
        return 1
    import ast
    inp = payload["inputs"]
    C.reset_backends()
    d = tuple_deep(ast.literal_eval(inp["descr"]))
    shape = tuple(inp["shape"])
    if len(d) == 1 and ("(" in d[0] or "repeated" in d[0] or "backend state" in d[0] or "numpy's" in d[0] or "consumer" in d[0]):          # a finding of defaults_predicate / repeat_call_predicate
        class _Chk:
            cov = {"evaluations": 0}; found = []
            def finding(self, *a): self.found.append(a)
        c_ = _Chk(); defaults_predicate(c_); repeat_call_predicate(c_); dispatch_predicate(c_); backend_glue_predicate(c_); consumer_predicate(c_)
        print("replay:", d, "->", c_.found[0][2] if c_.found else "holds")
        return 1 if c_.found else 0
    dtn = inp.get("dtype", "int64")
    combos = [] if dtn == "int64" else [(object if dtn == "object" else np.dtype(dtn), inp.get("layout", "C"))]
    res, msgs = judge(d, shape, combos)
    if res is None:
        print("replay:", d, shape, "-> the unfolding that makes the input is rejected")
        return 1
    print("replay:", d, shape, "->", msgs[0][0] if msgs else "holds")
    return 1 if msgs else 0
