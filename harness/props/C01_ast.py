"""C01 -- ast translator: tensorly/base.py (CURRENT source) -> Gallina terms over the abstract backend of Model/BasePy.v.

Every function of base.py is plain shape book-keeping around three backend calls (tl.reshape, tl.moveaxis, tl.transpose).
translate(source) re-generates, from the Python ast, one Gallina definition `ast_<name>` per function, written against the
record `backend T` (b_shape / b_reshape / b_moveaxis / b_transpose) and the Python-list semantics of Model/BasePy.v
(py_getitem, py_pop, py_insert, py_range1, py_range3, rmapM ...), in the exception monad `res` with Python's evaluation order
(arguments left to right).  The harness then asks Coq to prove `forall B args, ast_f B args = g_f B args` against the hand
model (first by reflexivity, then by case analysis on the monadic binds) and evaluates both on a box.

Fail closed: any construct outside the fragment below raises Untranslatable, which the caller reports as a broken tie."""
import ast
import textwrap


class Untranslatable(Exception):
    pass


# parameter types (the Python values the functions are documented to take)
SIGS = {
    "tensor_to_vec": [("tensor", "T")],
    "vec_to_tensor": [("vec", "T"), ("shape", "list Z")],
    "unfold": [("tensor", "T"), ("mode", "Z")],
    "fold": [("unfolded_tensor", "T"), ("mode", "Z"), ("shape", "list Z")],
    "partial_unfold": [("tensor", "T"), ("mode", "Z"), ("skip_begin", "Z"), ("skip_end", "Z"), ("ravel_tensors", "bool")],
    "partial_fold": [("unfolded", "T"), ("mode", "Z"), ("shape", "list Z"), ("skip_begin", "Z"), ("skip_end", "Z")],
    "partial_tensor_to_vec": [("tensor", "T"), ("skip_begin", "Z"), ("skip_end", "Z")],
    "partial_vec_to_tensor": [("matrix", "T"), ("shape", "list Z"), ("skip_begin", "Z"), ("skip_end", "Z")],
    "matricize": [("tensor", "T"), ("row_modes", "pyseq"), ("column_modes", "option pyseq")],
}
CORE_SIGS = {"moveaxis": [("tensor", "T"), ("source", "Z"), ("destination", "Z")]}
ORDER = ["tensor_to_vec", "vec_to_tensor", "unfold", "fold", "partial_unfold", "partial_fold",
         "partial_tensor_to_vec", "partial_vec_to_tensor", "matricize"]


ZCMP = {ast.Eq: "Z.eqb {a} {b}", ast.NotEq: "negb (Z.eqb {a} {b})", ast.Lt: "Z.ltb {a} {b}", ast.LtE: "Z.leb {a} {b}",
        ast.Gt: "Z.ltb {b} {a}", ast.GtE: "Z.leb {b} {a}"}


def zlit(n):
    return f"({n})%Z"


class Fn:
    """translation state of one function: variable types, fresh names"""

    def __init__(self, name, params):
        self.name = name
        self.ty = dict(params)
        self.k = 0

    def fresh(self):
        self.k += 1
        return f"x{self.k}"


def wrap(binds, body):
    """nest the monadic bindings [(var, term)] around a monadic body"""
    for v, t in reversed(binds):
        body = f"rbind {t} (fun {v} =>\n  {body})"
    return body


def is_shape_of(e, fn):
    """tensor.shape  or  tl.shape(tensor)  for a variable of type T -> the variable name"""
    if isinstance(e, ast.Attribute) and e.attr == "shape" and isinstance(e.value, ast.Name) and fn.ty.get(e.value.id) == "T":
        return e.value.id
    if is_tl_call(e, "shape") and len(e.args) == 1 and isinstance(e.args[0], ast.Name) and fn.ty.get(e.args[0].id) == "T":
        return e.args[0].id
    return None


def is_tl_call(e, name):
    return (isinstance(e, ast.Call) and isinstance(e.func, ast.Attribute) and e.func.attr == name
            and isinstance(e.func.value, ast.Name) and e.func.value.id == "tl" and not e.keywords)


def is_self_call(e, name):
    return (isinstance(e, ast.Call) and isinstance(e.func, ast.Attribute) and e.func.attr == name
            and isinstance(e.func.value, ast.Name) and e.func.value.id == "self" and not e.keywords)


def tr(e, fn):
    """expression -> (bindings, pure Gallina term, type).  Bindings are emitted in Python's evaluation order."""
    if isinstance(e, ast.Constant):
        if isinstance(e.value, bool):
            return [], "true" if e.value else "false", "bool"
        if isinstance(e.value, int):
            return [], zlit(e.value), "Z"
        raise Untranslatable(f"constant {e.value!r}")
    if isinstance(e, ast.Name):
        if e.id not in fn.ty:
            raise Untranslatable(f"unknown name {e.id}")
        return [], e.id, fn.ty[e.id]
    if isinstance(e, ast.UnaryOp) and isinstance(e.op, ast.USub):
        b, t, ty = tr(e.operand, fn)
        if ty != "Z":
            raise Untranslatable("unary minus on a non-int")
        if isinstance(e.operand, ast.Constant):
            return b, zlit(-e.operand.value), "Z"
        return b, f"(- {t})%Z", "Z"
    if isinstance(e, ast.UnaryOp) and isinstance(e.op, ast.Not):
        b, t = truth(e.operand, fn)
        return b, f"(negb {t})", "bool"
    if isinstance(e, ast.BoolOp):
        # `a and b` / `a or b`: translated by truth value (a bool if every operand is one, else usable in a test only);
        # Python does not evaluate the later operands when an earlier one decides, so they must not be able to raise
        parts, allbool = [], True
        for k_, x in enumerate(e.values):
            b, t = truth(x, fn)
            if b and k_ > 0:
                raise Untranslatable("a raising expression on the right of and / or")
            if k_ == 0:
                b0 = b
            parts.append(t)
            allbool = allbool and tr(x, Fn(fn.name, list(fn.ty.items())))[2] == "bool"
        op = "&&" if isinstance(e.op, ast.And) else "||"
        return b0, "(" + f" {op} ".join(parts) + ")", "bool" if allbool else "truth"
    if isinstance(e, ast.IfExp):
        bc, tc = truth(e.test, fn)
        b1, t1, ty1 = tr(e.body, fn)
        b2, t2, ty2 = tr(e.orelse, fn)
        if ty1 != ty2 or ty1 not in ("Z", "list Z", "bool"):
            raise Untranslatable("conditional expression types")
        if b1 or b2:                               # only the chosen branch is evaluated: a monadic if
            v = fn.fresh()
            return bc + [(v, f"(if {tc} then ({wrap(b1, 'Ok ' + t1)}) else ({wrap(b2, 'Ok ' + t2)}))")], v, ty1
        return bc, f"(if {tc} then {t1} else {t2})", ty1
    if isinstance(e, ast.Attribute) and e.attr == "ndim" and isinstance(e.value, ast.Name) and fn.ty.get(e.value.id) == "T":
        return [], f"(py_ndim B {e.value.id})", "Z"
    if isinstance(e, ast.BinOp) and isinstance(e.op, (ast.Add, ast.Sub, ast.Mult)):
        b1, t1, ty1 = tr(e.left, fn)
        b2, t2, ty2 = tr(e.right, fn)
        if ty1 == ty2 == "Z":
            op = {ast.Add: "+", ast.Sub: "-", ast.Mult: "*"}[type(e.op)]
            return b1 + b2, f"({t1} {op} {t2})%Z", "Z"
        if ty1 == ty2 == "list Z" and isinstance(e.op, ast.Add):
            return b1 + b2, f"({t1} ++ {t2})", "list Z"
        raise Untranslatable(f"binary operator on {ty1}, {ty2}")
    if isinstance(e, (ast.List, ast.Tuple)):
        if len(e.elts) == 1 and isinstance(e.elts[0], ast.Name) and fn.ty.get(e.elts[0].id) == "pyseq":
            y = e.elts[0].id
            if getattr(fn, "int_in_handler", None) != y:
                raise Untranslatable("a list display with an int-or-sequence element outside `except TypeError` of list(.)")
            v = fn.fresh()
            return [(v, f"(match {y} with PInt z => Ok [z] | PSeq _ => Err end)")], v, "list Z"
        bs, ts = [], []
        for x in e.elts:
            b, t, ty = tr(x, fn)
            if ty != "Z":
                raise Untranslatable("list display of non-ints")
            bs += b
            ts.append(t)
        return bs, "[" + "; ".join(ts) + "]", "list Z"
    if isinstance(e, ast.Subscript) and isinstance(e.slice, ast.Slice):
        # seq[a:b] (step 1 only; bounds optional, signed, clipped: never raises).  A slice of tensor.shape is a TUPLE: it
        # can only be handed to list(.) (tuple + list raises TypeError in Python; every other use is outside the fragment)
        if e.slice.step is not None and not (isinstance(e.slice.step, ast.Constant) and e.slice.step.value == 1):
            raise Untranslatable("slice with a step")
        base = is_shape_of(e.value, fn)
        if base is not None:
            bb, seq, tys = [], f"(py_shape B {base})", "tuple Z"
        else:
            bb, seq, tys = tr(e.value, fn)
            if tys not in ("list Z", "tuple Z"):
                raise Untranslatable("slice of a non-sequence")
        bounds = []
        for x in (e.slice.lower, e.slice.upper):
            if x is None:
                bounds.append("None")
            else:
                bx, tx, tyx = tr(x, fn)
                if tyx != "Z":
                    raise Untranslatable("slice bound that is not an int")
                bb = bb + bx
                bounds.append(f"(Some {tx})")
        return bb, f"(py_slice {seq} {bounds[0]} {bounds[1]})", tys
    if isinstance(e, ast.Attribute) and is_shape_of(e, fn):
        return [], f"(py_shape B {is_shape_of(e, fn)})", "tuple Z"
    if isinstance(e, ast.Subscript):
        base = is_shape_of(e.value, fn)
        bi, ti, tyi = tr(e.slice, fn)
        if tyi != "Z":
            raise Untranslatable("subscript that is not an int")
        if base is not None:
            seq = f"(py_shape B {base})"
            bb = []
        else:
            bb, seq, tys = tr(e.value, fn)
            if tys != "list Z":
                raise Untranslatable("subscript of a non-list")
        v = fn.fresh()
        return bb + bi + [(v, f"(py_getitem {seq} {ti})")], v, "Z"
    if isinstance(e, ast.Call):
        return tr_call(e, fn)
    if isinstance(e, ast.ListComp):
        return tr_comp(e, fn)
    if isinstance(e, ast.Compare) and len(e.ops) == 1:
        b1, t1, ty1 = tr(e.left, fn)
        b2, t2, ty2 = tr(e.comparators[0], fn)
        op = e.ops[0]
        if ty1 == ty2 == "list Z" and isinstance(op, (ast.Eq, ast.NotEq)):
            t = f"(zlist_eqb {t1} {t2})"
            return b1 + b2, t if isinstance(op, ast.Eq) else f"(negb {t})", "bool"
        if ty1 == "Z" and ty2 == "list Z" and isinstance(op, (ast.In, ast.NotIn)):
            t = f"(zmemb {t1} {t2})"
            return b1 + b2, t if isinstance(op, ast.In) else f"(negb {t})", "bool"
        if ty1 == ty2 == "Z" and type(op) in ZCMP:
            return b1 + b2, "(" + ZCMP[type(op)].format(a=t1, b=t2) + ")", "bool"
        raise Untranslatable("comparison " + ast.dump(e)[:60])
    raise Untranslatable(ast.dump(e)[:80])


def tr_comp(e, fn):
    """[body for i in iterable (if cond)] : a fallible body becomes rmapM, a pure one map; conditions become filter"""
    if len(e.generators) != 1 or e.generators[0].is_async or not isinstance(e.generators[0].target, ast.Name):
        raise Untranslatable("comprehension shape")
    g = e.generators[0]
    bi, it, tyi = tr(g.iter, fn)
    if tyi != "list Z":
        raise Untranslatable("comprehension over a non-list")
    var = g.target.id
    saved = fn.ty.get(var)
    fn.ty[var] = "Z"
    try:
        for c in g.ifs:
            bc, tc, tyc = tr(c, fn)
            if bc or tyc != "bool":
                raise Untranslatable("comprehension condition")
            it = f"(filter (fun {var} => {tc}) {it})"
        bb, tb, tyb = tr(e.elt, fn)
        if tyb != "Z":
            raise Untranslatable("comprehension body type")
    finally:
        if saved is None:
            del fn.ty[var]
        else:
            fn.ty[var] = saved
    if isinstance(e.elt, ast.Name) and e.elt.id == var and not bb:
        return bi, it, "list Z"
    v = fn.fresh()
    body = wrap(bb[:-1], bb[-1][1]) if (bb and bb[-1][0] == tb) else wrap(bb, f"Ok {tb}")
    return bi + [(v, f"(rmapM (fun {var} => {body}) {it})")], v, "list Z"


def tr_call(e, fn):
    f = e.func
    # backend calls
    if is_tl_call(e, "reshape") and len(e.args) == 2:
        b1, t1, ty1 = tr(e.args[0], fn)
        b2, t2, ty2 = tr(e.args[1], fn)
        if (ty1, ty2) != ("T", "list Z"):
            raise Untranslatable("tl.reshape argument types")
        v = fn.fresh()
        return b1 + b2 + [(v, f"(b_reshape B {t1} {t2})")], v, "T"
    if is_tl_call(e, "moveaxis") and len(e.args) == 3:
        bs, ts = [], []
        for a, want in zip(e.args, ("T", "Z", "Z")):
            b, t, ty = tr(a, fn)
            if ty != want:
                raise Untranslatable("tl.moveaxis argument types")
            bs += b
            ts.append(t)
        v = fn.fresh()
        return bs + [(v, f"(b_moveaxis B {ts[0]} {ts[1]} {ts[2]})")], v, "T"
    if is_tl_call(e, "transpose") and len(e.args) == 2:
        b1, t1, ty1 = tr(e.args[0], fn)
        b2, t2, ty2 = tr(e.args[1], fn)
        if (ty1, ty2) != ("T", "list Z"):
            raise Untranslatable("tl.transpose argument types")
        v = fn.fresh()
        return b1 + b2 + [(v, f"(b_transpose B {t1} {t2})")], v, "T"
    if is_self_call(e, "transpose") and len(e.args) == 2:
        b1, t1, ty1 = tr(e.args[0], fn)
        b2, t2, ty2 = tr(e.args[1], fn)
        if (ty1, ty2) != ("T", "list Z"):
            raise Untranslatable("self.transpose argument types")
        v = fn.fresh()
        return b1 + b2 + [(v, f"(b_transpose B {t1} {t2})")], v, "T"
    if is_self_call(e, "ndim") and len(e.args) == 1 and isinstance(e.args[0], ast.Name) and fn.ty.get(e.args[0].id) == "T":
        return [], f"(py_ndim B {e.args[0].id})", "Z"
    if is_tl_call(e, "ndim") and len(e.args) == 1 and isinstance(e.args[0], ast.Name) and fn.ty.get(e.args[0].id) == "T":
        return [], f"(py_ndim B {e.args[0].id})", "Z"
    if is_shape_of(e, fn):
        return [], f"(py_shape B {is_shape_of(e, fn)})", "list Z"
    if isinstance(f, ast.Name):
        if f.id in ("list", "tuple") and len(e.args) == 1 and not e.keywords:
            b, t, ty = tr(e.args[0], fn)
            if ty == "pyseq":                      # list(x) raises TypeError when x is an int
                v = fn.fresh()
                return b + [(v, f"(py_list {t})")], v, "list Z"
            if ty == "tuple Z" and f.id == "list":
                return b, t, "list Z"
            if ty != "list Z":
                raise Untranslatable("list() of a non-sequence")
            return b, t, ty
        if f.id in ("min", "max") and len(e.args) == 2 and not e.keywords:
            b1, t1, ty1 = tr(e.args[0], fn)
            b2, t2, ty2 = tr(e.args[1], fn)
            if ty1 != "Z" or ty2 != "Z":
                raise Untranslatable("min / max of non-ints")
            return b1 + b2, f"(Z.{f.id} {t1} {t2})", "Z"
        if f.id == "len" and len(e.args) == 1 and not e.keywords:
            base = is_shape_of(e.args[0], fn)
            if base is not None:
                return [], f"(py_ndim B {base})", "Z"
            b, t, ty = tr(e.args[0], fn)
            if ty != "list Z":
                raise Untranslatable("len() of a non-list")
            return b, f"(Z.of_nat (length {t}))", "Z"
        if f.id == "isinstance" and len(e.args) == 2 and not e.keywords and isinstance(e.args[0], ast.Name):
            x = e.args[0].id
            ty = fn.ty.get(x)
            cls = e.args[1]
            names = sorted(c.id for c in (cls.elts if isinstance(cls, ast.Tuple) else [cls]) if isinstance(c, ast.Name))
            if len(names) != (len(cls.elts) if isinstance(cls, ast.Tuple) else 1):
                raise Untranslatable("isinstance class expression")
            if names == ["int"]:
                if ty == "Z":
                    return [], "true", "bool"
                if ty == "list Z":
                    return [], "false", "bool"
                if ty == "pyseq":
                    return [], f"(match {x} with PInt _ => true | PSeq _ => false end)", "bool"
            if names == ["list", "tuple"]:         # a sequence argument may be a list or a tuple: only the pair is decidable
                if ty == "Z":
                    return [], "false", "bool"
                if ty == "list Z":
                    return [], "true", "bool"
                if ty == "pyseq":
                    return [], f"(match {x} with PInt _ => false | PSeq _ => true end)", "bool"
            raise Untranslatable(f"isinstance({x}, {names}) for {ty}")
        if f.id == "range" and not e.keywords and len(e.args) == 2:
            bs, ts = [], []
            for a in e.args:
                b, t, ty = tr(a, fn)
                if ty != "Z":
                    raise Untranslatable("range argument")
                bs += b
                ts.append(t)
            return bs, f"(py_range3 {ts[0]} {ts[1]} (1)%Z)", "list Z"
        if f.id == "range" and not e.keywords and len(e.args) in (1, 3):
            bs, ts = [], []
            for a in e.args:
                b, t, ty = tr(a, fn)
                if ty != "Z":
                    raise Untranslatable("range argument")
                bs += b
                ts.append(t)
            return bs, (f"(py_range1 {ts[0]})" if len(ts) == 1 else f"(py_range3 {ts[0]} {ts[1]} {ts[2]})"), "list Z"
        if f.id == "sorted" and len(e.args) == 1 and not e.keywords:
            b, t, ty = tr(e.args[0], fn)
            if ty != "list Z":
                raise Untranslatable("sorted() of a non-list")
            return b, f"(py_sorted {t})", "list Z"
        if f.id == "prod" and len(e.args) == 1 and not e.keywords:
            a = e.args[0]
            if isinstance(a, ast.GeneratorExp):
                a = ast.ListComp(elt=a.elt, generators=a.generators)
            b, t, ty = tr(a, fn)
            if ty != "list Z":
                raise Untranslatable("prod() of a non-list")
            return b, f"(zprod {t})", "Z"
        if f.id in SIGS:
            # a call of another function of base.py: positional + keyword arguments by the callee's signature
            sig = SIGS[f.id]
            given = {}
            for (pn, _), a in zip(sig, e.args):
                given[pn] = a
            for kw in e.keywords:
                if kw.arg is None or kw.arg in given:
                    raise Untranslatable("call keywords")
                given[kw.arg] = kw.value
            if set(given) != {pn for pn, _ in sig}:
                raise Untranslatable(f"call of {f.id} relies on default arguments")
            bs, ts = [], []
            # Python evaluates positional arguments first, then keywords, each left to right = the order given
            order = [a for a in e.args] + [kw.value for kw in e.keywords]
            done = {}
            for a in order:
                b, t, ty = tr(a, fn)
                bs += b
                done[id(a)] = (t, ty)
            for pn, pty in sig:
                t, ty = done[id(given[pn])]
                if ty != pty:
                    raise Untranslatable(f"argument {pn} of {f.id}: {ty} for {pty}")
                ts.append(t)
            v = fn.fresh()
            return bs + [(v, f"(ast_{f.id} B " + " ".join(ts) + ")")], v, "T"
    if isinstance(f, ast.Attribute) and f.attr == "pop" and isinstance(f.value, ast.Name) and len(e.args) == 1 and not e.keywords:
        # value position: handled by the statement translator (it rebinds the list); reaching here is unsupported
        raise Untranslatable("list.pop outside an assignment")
    raise Untranslatable("call " + ast.dump(e)[:80])


def truth(e, fn):
    b, t, ty = tr(e, fn)
    if ty in ("bool", "truth"):
        return b, t
    if ty == "Z":
        return b, f"(negb (Z.eqb {t} 0))"
    if ty == "list Z":
        return b, f"(negb (zlist_eqb {t} []))"
    raise Untranslatable("truth value of " + ty)


def assigned(stmts):
    out = []
    for s in stmts:
        if isinstance(s, ast.Assign):
            for t in s.targets:
                if isinstance(t, ast.Name) and t.id not in out:
                    out.append(t.id)
        elif isinstance(s, ast.AugAssign) and isinstance(s.target, ast.Name):
            if s.target.id not in out:
                out.append(s.target.id)
        elif isinstance(s, ast.If):
            for v in assigned(s.body) + assigned(s.orelse):
                if v not in out:
                    out.append(v)
        elif isinstance(s, ast.Try):
            for v in assigned(s.body) + [x for h in s.handlers for x in assigned(h.body)]:
                if v not in out:
                    out.append(v)
        elif isinstance(s, ast.Expr) and isinstance(s.value, ast.Call) and isinstance(s.value.func, ast.Attribute) \
                and s.value.func.attr in ("insert", "pop") and isinstance(s.value.func.value, ast.Name):
            if s.value.func.value.id not in out:
                out.append(s.value.func.value.id)
    return out


def ends_in_raise(stmts):
    return bool(stmts) and isinstance(stmts[-1], ast.Raise)


def aslist_idiom(s, fn):
    """try: X = list(Y) / except TypeError: X = [Y]   with Y : list Z  ->  (X, Y)"""
    if not (isinstance(s, ast.Try) and len(s.body) == 1 and len(s.handlers) == 1 and not s.orelse and not s.finalbody):
        return None
    a, h = s.body[0], s.handlers[0]
    if not (isinstance(h.type, ast.Name) and h.type.id == "TypeError" and len(h.body) == 1):
        return None
    b = h.body[0]
    ok = (isinstance(a, ast.Assign) and isinstance(b, ast.Assign) and len(a.targets) == 1 and len(b.targets) == 1
          and isinstance(a.targets[0], ast.Name) and isinstance(b.targets[0], ast.Name) and a.targets[0].id == b.targets[0].id
          and isinstance(a.value, ast.Call) and isinstance(a.value.func, ast.Name) and a.value.func.id == "list"
          and len(a.value.args) == 1 and isinstance(a.value.args[0], ast.Name)
          and isinstance(b.value, ast.List) and len(b.value.elts) == 1 and isinstance(b.value.elts[0], ast.Name)
          and b.value.elts[0].id == a.value.args[0].id)
    if not ok:
        return None
    return a.targets[0].id, a.value.args[0].id


def block(stmts, fn, cont):
    """statements -> monadic Gallina term; cont: term used when the block falls through (None: must return / raise)"""
    if not stmts:
        if cont is None:
            raise Untranslatable("function body falls off the end")
        return cont
    s, rest = stmts[0], stmts[1:]
    if isinstance(s, ast.Expr) and isinstance(s.value, ast.Constant) and isinstance(s.value.value, str):
        return block(rest, fn, cont)                                      # docstring
    if isinstance(s, ast.Return):
        if s.value is None:
            raise Untranslatable("bare return")
        b, t, ty = tr(s.value, fn)
        if ty != "T":
            raise Untranslatable("return of a non-tensor")
        if b and b[-1][0] == t:                                           # tail call: no eta-expanded rebinding
            return wrap(b[:-1], b[-1][1])
        return wrap(b, f"Ok {t}")
    if isinstance(s, ast.Raise):
        return "Err"
    if isinstance(s, ast.Assign) and len(s.targets) == 1 and isinstance(s.targets[0], ast.Name):
        x = s.targets[0].id
        v = s.value
        if isinstance(v, ast.JoinedStr) or (isinstance(v, ast.Constant) and isinstance(v.value, str)) or \
                (isinstance(v, ast.BinOp) and isinstance(v.left, (ast.JoinedStr, ast.Constant)) and isinstance(getattr(v.left, "value", ""), str)):
            fn.ty[x] = "str"                                              # message text: only ever raised
            return block(rest, fn, cont)
        if isinstance(v, ast.Call) and isinstance(v.func, ast.Attribute) and v.func.attr == "pop" and isinstance(v.func.value, ast.Name) \
                and len(v.args) == 1 and not v.keywords:
            lst = v.func.value.id
            if fn.ty.get(lst) != "list Z":
                raise Untranslatable("pop on a non-list")
            bi, ti, tyi = tr(v.args[0], fn)
            if tyi != "Z":
                raise Untranslatable("pop index")
            p = fn.fresh()
            fn.ty[x] = "Z"
            body = block(rest, fn, cont)
            return wrap(bi + [(p, f"(py_pop {lst} {ti})")], f"let {x} := fst {p} in let {lst} := snd {p} in\n  {body}")
        b, t, ty = tr(v, fn)
        fn.ty[x] = ty
        body = block(rest, fn, cont)
        return wrap(b, f"let {x} := {t} in\n  {body}")
    if isinstance(s, ast.Assign) and len(s.targets) == 1 and isinstance(s.targets[0], ast.Tuple) and isinstance(s.value, ast.Tuple) \
            and len(s.targets[0].elts) == len(s.value.elts) and all(isinstance(x, ast.Name) for x in s.targets[0].elts):
        # a, b = e1, e2 : the right-hand sides are evaluated first (left to right), then bound
        bs, tmp = [], []
        for x in s.value.elts:
            b, t, ty = tr(x, fn)
            bs += b
            tmp.append((t, ty))
        names = [x.id for x in s.targets[0].elts]
        for nme, (_, ty) in zip(names, tmp):
            fn.ty[nme] = ty
        body = block(rest, fn, cont)
        pat = "'(" + ", ".join(names) + ")"
        return wrap(bs, f"let {pat} := (" + ", ".join(t for t, _ in tmp) + f") in\n  {body}")
    if isinstance(s, ast.AugAssign) and isinstance(s.target, ast.Name) and isinstance(s.op, (ast.Add, ast.Sub, ast.Mult)):
        x = s.target.id
        b, t, ty = tr(s.value, fn)
        if fn.ty.get(x) != ty or ty not in ("list Z", "Z") or (ty == "list Z" and not isinstance(s.op, ast.Add)):
            raise Untranslatable("augmented assignment types")
        zop = {ast.Add: "+", ast.Sub: "-", ast.Mult: "*"}[type(s.op)]
        new = f"({x} ++ {t})" if ty == "list Z" else f"({x} {zop} {t})%Z"
        body = block(rest, fn, cont)
        return wrap(b, f"let {x} := {new} in\n  {body}")
    if isinstance(s, ast.Expr) and isinstance(s.value, ast.Call) and isinstance(s.value.func, ast.Attribute) \
            and s.value.func.attr == "insert" and isinstance(s.value.func.value, ast.Name) and len(s.value.args) == 2:
        lst = s.value.func.value.id
        if fn.ty.get(lst) != "list Z":
            raise Untranslatable("insert on a non-list")
        b1, t1, ty1 = tr(s.value.args[0], fn)
        b2, t2, ty2 = tr(s.value.args[1], fn)
        if (ty1, ty2) != ("Z", "Z"):
            raise Untranslatable("insert argument types")
        body = block(rest, fn, cont)
        return wrap(b1 + b2, f"let {lst} := py_insert {lst} {t1} {t2} in\n  {body}")
    if isinstance(s, ast.Expr) and isinstance(s.value, ast.Call) and isinstance(s.value.func, ast.Attribute) \
            and s.value.func.attr == "pop" and isinstance(s.value.func.value, ast.Name) and len(s.value.args) == 1 and not s.value.keywords:
        lst = s.value.func.value.id
        if fn.ty.get(lst) != "list Z":
            raise Untranslatable("pop on a non-list")
        bi, ti, tyi = tr(s.value.args[0], fn)
        if tyi != "Z":
            raise Untranslatable("pop index")
        p = fn.fresh()
        body = block(rest, fn, cont)
        return wrap(bi + [(p, f"(py_pop {lst} {ti})")], f"let {lst} := snd {p} in\n  {body}")
    if isinstance(s, ast.Try) and not s.orelse and not s.finalbody and s.handlers and all(ends_in_raise(h.body) and len(h.body) == 1 for h in s.handlers):
        # try: BODY / except E: raise E'(...)   -- every exception is the Err of the monad: the statements of BODY in sequence
        return block(list(s.body) + list(rest), fn, cont)
    if isinstance(s, ast.Try) and len(s.handlers) == 1 and not s.orelse and not s.finalbody and not ends_in_raise(s.handlers[0].body):
        # try: BODY / except E: HANDLER  ->  rcatch BODY HANDLER : every exception of BODY is caught (the monad has one Err);
        # accepted only when BODY can raise nothing but E: a single `x = list(y)` with E = TypeError
        h = s.handlers[0]
        one = (len(s.body) == 1 and isinstance(s.body[0], ast.Assign) and isinstance(s.body[0].value, ast.Call)
               and isinstance(s.body[0].value.func, ast.Name) and s.body[0].value.func.id in ("list", "tuple")
               and len(s.body[0].value.args) == 1 and isinstance(s.body[0].value.args[0], ast.Name)
               and isinstance(h.type, ast.Name) and h.type.id == "TypeError")
        if not one:
            raise Untranslatable("try / except around anything but `x = list(y)` / TypeError")
        y = s.body[0].value.args[0].id
        vs = assigned(s.body) + [v for v in assigned(h.body) if v not in assigned(s.body)]
        tys0 = dict(fn.ty)
        o1 = branch(s.body, vs, fn)
        tys1 = dict(fn.ty)
        fn.ty = dict(tys0)
        fn.int_in_handler = y
        try:
            o2 = branch(h.body, vs, fn)
        finally:
            fn.int_in_handler = None
        if {v: fn.ty.get(v) for v in vs} != {v: tys1.get(v) for v in vs}:
            raise Untranslatable("try body and handler assign different variables / types")
        body = block(rest, fn, cont)
        return f"rbind (rcatch {o1} {o2}) (fun {pattern(vs)} =>\n  {body})"
    if isinstance(s, ast.If):
        return tr_if(s, rest, fn, cont)
    raise Untranslatable("statement " + ast.dump(s)[:80])


def tr_if(s, rest, fn, cont):
    # `x is None` / `x is not None` on an option-typed parameter -> match
    t = s.test
    if isinstance(t, ast.Compare) and len(t.ops) == 1 and isinstance(t.ops[0], (ast.Is, ast.IsNot)) and isinstance(t.left, ast.Name) \
            and isinstance(t.comparators[0], ast.Constant) and t.comparators[0].value is None:
        x = t.left.id
        if fn.ty.get(x) not in ("option (list Z)", "option pyseq"):
            raise Untranslatable("None test on a non-optional")
        inner_ty = fn.ty[x][len("option "):].strip("()")
        none_b, some_b = (s.body, s.orelse) if isinstance(t.ops[0], ast.Is) else (s.orelse, s.body)
        vs = [v for v in assigned(s.body) + assigned(s.orelse)]
        vs = [v for i, v in enumerate(vs) if v not in vs[:i]]
        tys0 = dict(fn.ty)
        outs, after = [], []
        for br, is_some in ((none_b, False), (some_b, True)):
            fn.ty = dict(tys0)
            if is_some:
                fn.ty[x] = inner_ty
            outs.append(branch(br, vs, fn))
            after.append(dict(fn.ty))
        fn.ty = dict(tys0)
        vs = [v for v in vs if all(a.get(v) not in (None, "str") for a in after)]
        for v in vs:
            fn.ty[v] = after[0][v]
        body = block(rest, fn, cont)
        tup = pattern(vs)
        return f"rbind (match {x} with None => {outs[0]} | Some {x} => {outs[1]} end) (fun {tup} =>\n  {body})"
    bc, tc = truth(t, fn)
    vs = assigned(s.body) + [v for v in assigned(s.orelse) if v not in assigned(s.body)]
    tys0 = dict(fn.ty)
    known_int = None
    if isinstance(t, ast.Call) and isinstance(t.func, ast.Name) and t.func.id == "isinstance" and len(t.args) == 2 \
            and isinstance(t.args[0], ast.Name) and isinstance(t.args[1], ast.Name) and t.args[1].id == "int" and fn.ty.get(t.args[0].id) == "pyseq":
        known_int = t.args[0].id
    saved_h = getattr(fn, "int_in_handler", None)
    fn.int_in_handler = known_int or saved_h
    try:
        o1 = branch(s.body, vs, fn)
    finally:
        fn.int_in_handler = saved_h
    tys1 = dict(fn.ty)
    fn.ty = dict(tys0)
    o2 = branch(s.orelse, vs, fn)
    for v in vs:
        if v not in fn.ty and v in tys1:
            fn.ty[v] = tys1[v]
    fn.ty = {k: v for k, v in fn.ty.items() if v != "str"}
    vs = [v for v in vs if v in fn.ty]
    body = block(rest, fn, cont)
    return wrap(bc, f"rbind (if {tc} then {o1} else {o2}) (fun {pattern(vs)} =>\n  {body})")


def pattern(vs):
    vs = [v for v in vs]
    if not vs:
        return "_"
    if len(vs) == 1:
        return vs[0]
    return "'(" + ", ".join(vs) + ")"


def branch(stmts, vs, fn):
    """a branch of an if: yields the tuple of the variables assigned in either branch (unchanged ones are passed through)"""
    if ends_in_raise(stmts):
        # everything before the raise only builds the message
        for s in stmts[:-1]:
            if not isinstance(s, ast.Assign):
                raise Untranslatable("statement before raise")
        return "Err"
    def fin():
        live = [v for v in vs if fn.ty.get(v) not in (None, "str")]
        if not live:
            return "Ok tt"
        return "Ok " + (live[0] if len(live) == 1 else "(" + ", ".join(live) + ")")
    # variables not yet defined before the if and not assigned in this branch cannot be passed through
    return "(" + block_branch(stmts, fn, fin) + ")"


def block_branch(stmts, fn, fin):
    marker = "@@FIN@@"
    t = block(stmts, fn, marker) if stmts else marker
    return t.replace(marker, fin())


def translate(source):
    """-> list of (name, Gallina definition text or None, reason)"""
    tree = ast.parse(textwrap.dedent(source))
    fns = {n.name: n for n in tree.body if isinstance(n, ast.FunctionDef)}
    out = []
    extra = [n for n in fns if n not in SIGS]
    for name in ORDER:
        node = fns.get(name)
        if node is None:
            out.append((name, None, "function not found in tensorly/base.py"))
            continue
        try:
            got = [a.arg for a in node.args.args]
            if got != [p for p, _ in SIGS[name]] or node.args.vararg or node.args.kwarg or node.args.kwonlyargs:
                raise Untranslatable(f"signature changed: {got}")
            fn = Fn(name, SIGS[name])
            body = block(node.body, fn, None)
            params = " ".join(f"({p} : {ty})" for p, ty in SIGS[name])
            out.append((name, f"Definition ast_{name} {{T : Type}} (B : backend T) {params} : res T :=\n  {body}.\n", None))
        except Untranslatable as e:
            out.append((name, None, str(e)))
    for n in extra:
        out.append((n, None, "function of tensorly/base.py outside the model"))
    return out


def translate_core(source):
    """the generic Backend.moveaxis of tensorly/backend/core.py -> [(name, Gallina text or None, reason)]"""
    tree = ast.parse(textwrap.dedent(source))
    out = []
    cls = [n for n in tree.body if isinstance(n, ast.ClassDef) and n.name == "Backend"]
    for name, sig in CORE_SIGS.items():
        node = [m for c in cls for m in c.body if isinstance(m, ast.FunctionDef) and m.name == name]
        if len(node) != 1:
            out.append((name + "_generic", None, "method Backend.%s not found in tensorly/backend/core.py" % name))
            continue
        node = node[0]
        try:
            got = [a.arg for a in node.args.args]
            if got != ["self"] + [p for p, _ in sig] or node.args.vararg or node.args.kwarg or node.args.kwonlyargs or node.args.defaults:
                raise Untranslatable(f"signature changed: {got}")
            fn = Fn(name, sig)
            body = block(node.body, fn, None)
            params = " ".join(f"({p} : {ty})" for p, ty in sig)
            out.append((name + "_generic", f"Definition ast_{name}_generic {{T : Type}} (B : backend T) {params} : res T :=\n  {body}.\n", None))
        except Untranslatable as e:
            out.append((name + "_generic", None, str(e)))
    return out


def defaults(source):
    """the default values of skip_begin / skip_end / mode / ravel_tensors / column_modes as written in the source
    (the harness passes every argument explicitly; the defaults are compared with the documented ones)"""
    tree = ast.parse(textwrap.dedent(source))
    out = {}
    for n in tree.body:
        if isinstance(n, ast.FunctionDef) and n.name in SIGS:
            names = [a.arg for a in n.args.args]
            ds = n.args.defaults
            for a, dv in zip(names[len(names) - len(ds):], ds):
                out[(n.name, a)] = dv.value if isinstance(dv, ast.Constant) else ast.dump(dv)
    return out


DOCUMENTED_DEFAULTS = {
    ("partial_unfold", "mode"): 0, ("partial_unfold", "skip_begin"): 1, ("partial_unfold", "skip_end"): 0,
    ("partial_unfold", "ravel_tensors"): False,
    ("partial_fold", "skip_begin"): 1, ("partial_fold", "skip_end"): 0,
    ("partial_tensor_to_vec", "skip_begin"): 1, ("partial_tensor_to_vec", "skip_end"): 0,
    ("partial_vec_to_tensor", "skip_begin"): 1, ("partial_vec_to_tensor", "skip_end"): 0,
    ("matricize", "column_modes"): None,
}


if __name__ == "__main__":
    import sys
    src = open(sys.argv[1] if len(sys.argv) > 1 else "/repo/tensorly/base.py").read()
    for name, text, why in translate(src):
        print(f"(* {name}: UNTRANSLATABLE: {why} *)" if text is None else text)
    print("(* defaults:", defaults(src), "*)")
    for name, text, why in translate_core(open("/repo/tensorly/backend/core.py").read()):
        print(f"(* {name}: UNTRANSLATABLE: {why} *)" if text is None else text)
