"""C02 -- multilinear products equal their textbook index formulas under either tenalg backend.
Correspondence: Model/Tenalg.v (core and einsum models, memory MTTKRP, sample_khatri_rao) vs tensorly.tenalg.<fn> under
set_backend('core') and ('einsum'), bit-exact on integer-valued float64/int64 and Gaussian-integer complex128 operands.
Predicates: explicit-loop reference formulas (written independently of the code's structure) on every implementation output,
and agreement of the two backends."""
import itertools, json, os, random
import numpy as np
from harness import common as C

HEADER = """From Coq Require Import List ZArith Bool. Import ListNotations.
From TLV Require Import Base.Tensor Model.Tenalg Corr.C02."""

BACKENDS = ("core", "einsum")


# ----------------------------------------------------------------------------- known findings (own snippet merged at run time)
def _load_known_merged(prop, _orig=C.load_known):
    known = list(_orig(prop))
    p = os.path.join(C.VERIF, "known_findings.d", f"{prop}.json")
    if os.path.exists(p):
        ids = {k.get("id") for k in known}
        for k in json.load(open(p)).get("findings", []):
            if k.get("property") == prop and k.get("id") not in ids:
                known.append(k)
    return known


# ----------------------------------------------------------------------------- reference formulas (spec side, explicit loops)
def _prod(xs):
    p = 1
    for x in xs:
        p *= int(x)
    return p


def _dtype(arrs):
    return np.complex128 if any(np.iscomplexobj(a) for a in arrs) else np.float64


def ref_mode_dot(T, M, mode, tr):
    if M.ndim == 2:
        Mp = M.conj().T if tr else M
        oshape = T.shape[:mode] + (Mp.shape[0],) + T.shape[mode + 1:]
        out = np.zeros(oshape, dtype=_dtype([T, M]))
        for idx in np.ndindex(*oshape):
            out[idx] = sum(Mp[idx[mode], i] * T[idx[:mode] + (i,) + idx[mode + 1:]] for i in range(T.shape[mode]))
        return out
    oshape = T.shape[:mode] + T.shape[mode + 1:]
    out = np.zeros(oshape, dtype=_dtype([T, M]))
    for idx in np.ndindex(*oshape):
        out[idx] = sum(M[i] * T[idx[:mode] + (i,) + idx[mode:]] for i in range(T.shape[mode]))
    return out


def ref_multi_mode_dot(T, Ms, modes, skip, tr):
    """(T x_{m1} A1 x_{m2} A2 ...)[out] = sum over the contracted indices of T[i] * prod_k A_k[out_k, i_{m_k}];
    vector operands contract their mode away.  Modes of the non-skipped operands are distinct."""
    N = T.ndim
    if modes is None:
        modes = list(range(len(Ms)))
    used = [(M, m) for i, (M, m) in enumerate(zip(Ms, modes)) if i != skip]
    mat = {m: (M.conj().T if tr else M) for M, m in used if M.ndim == 2}
    vec = {m: (M.conj() if tr else M) for M, m in used if M.ndim == 1}
    assert len(mat) + len(vec) == len(used)
    kept = [k for k in range(N) if k not in vec]
    oshape = tuple(mat[k].shape[0] if k in mat else T.shape[k] for k in kept)
    out = np.zeros(oshape, dtype=_dtype([T] + list(Ms)))
    for oidx in np.ndindex(*oshape):
        o = dict(zip(kept, oidx))
        acc = 0
        for idx in np.ndindex(*T.shape):
            if any(k not in mat and k not in vec and idx[k] != o[k] for k in range(N)):
                continue
            term = T[idx]
            for k in range(N):
                if k in mat:
                    term = term * mat[k][o[k], idx[k]]
                elif k in vec:
                    term = term * vec[k][idx[k]]
            acc = acc + term
        out[oidx] = acc
    return out


def _bw(w, R):
    """weights with a single entry act as a scalar (NumPy broadcasting of reshape(weights, (1, -1)))"""
    if w is None:
        return None
    w = np.asarray(w).reshape(-1)
    return np.repeat(w, R) if w.size == 1 and R != 1 else w


def ref_khatri_rao(Ms, w, mask):
    rows = [m.shape[0] for m in Ms]
    R = Ms[0].shape[1]
    w = _bw(w, R)
    out = np.zeros((_prod(rows), R), dtype=_dtype(list(Ms) + ([w] if w is not None else [])))
    mflat = None if mask is None else np.asarray(mask).reshape(-1)
    for row, is_ in enumerate(np.ndindex(*rows)):  # ndindex is row-major: row = ravel(is)
        for r in range(R):
            v = 1
            for A, i in zip(Ms, is_):
                v = v * A[i, r]
            if w is not None:
                v = v * w[r]
            if mflat is not None:
                v = v * mflat[row]
            out[row, r] = v
    return out


def ref_kronecker(Ms):
    rows = [m.shape[0] for m in Ms]
    cols = [m.shape[1] for m in Ms]
    out = np.zeros((_prod(rows), _prod(cols)), dtype=_dtype(Ms))
    for p, is_ in enumerate(np.ndindex(*rows)):
        for q, js in enumerate(np.ndindex(*cols)):
            v = 1
            for A, i, j in zip(Ms, is_, js):
                v = v * A[i, j]
            out[p, q] = v
    return out


def ref_inner(A, B, n):
    if n is None:
        return np.asarray(sum(A[idx] * B[idx] for idx in np.ndindex(*A.shape)), dtype=_dtype([A, B]))
    sa = A.shape[:A.ndim - n]
    sc = A.shape[A.ndim - n:]
    sb = B.shape[n:]
    out = np.zeros(sa + sb, dtype=_dtype([A, B]))
    for a in np.ndindex(*sa):
        for b in np.ndindex(*sb):
            out[a + b] = sum(A[a + c] * B[c + b] for c in np.ndindex(*sc))
    return out


def ref_outer(ts):
    oshape = tuple(d for t in ts for d in t.shape)
    out = np.zeros(oshape, dtype=_dtype(ts))
    for idx in np.ndindex(*oshape):
        v, pos = 1, 0
        for t in ts:
            v = v * t[idx[pos:pos + t.ndim]]
            pos += t.ndim
        out[idx] = v
    return out


def ref_batched_outer(ts):
    n = ts[0].shape[0]
    oshape = (n,) + tuple(d for t in ts for d in t.shape[1:])
    out = np.zeros(oshape, dtype=_dtype(ts))
    for idx in np.ndindex(*oshape):
        v, pos = 1, 1
        for t in ts:
            k = t.ndim - 1
            v = v * t[(idx[0],) + idx[pos:pos + k]]
            pos += k
        out[idx] = v
    return out


def ref_tensordot(A, B, m1, m2, b1, b2):
    """kept modes of A in their original order (batch modes stay in place), then the free modes of B;
    batch modes are shared, contracted pairs are summed."""
    freeA = [i for i in range(A.ndim) if i not in m1]
    freeB = [j for j in range(B.ndim) if j not in m2 and j not in b2]
    oshape = tuple(A.shape[i] for i in freeA) + tuple(B.shape[j] for j in freeB)
    cshape = tuple(A.shape[i] for i in m1)
    out = np.zeros(oshape, dtype=_dtype([A, B]))
    for oidx in np.ndindex(*oshape):
        a = [0] * A.ndim
        b = [0] * B.ndim
        for i, v in zip(freeA, oidx[:len(freeA)]):
            a[i] = v
        for j, v in zip(freeB, oidx[len(freeA):]):
            b[j] = v
        for i, j in zip(b1, b2):
            b[j] = a[i]
        acc = 0
        for c in np.ndindex(*cshape):
            for i, j, v in zip(m1, m2, c):
                a[i] = v
                b[j] = v
            acc = acc + A[tuple(a)] * B[tuple(b)]
        out[oidx] = acc
    return out


def ref_mttkrp(T, w, fs, mode):
    R = fs[0].shape[1]
    w = _bw(w, R)
    out = np.zeros((T.shape[mode], R), dtype=_dtype([T] + list(fs) + ([w] if w is not None else [])))
    for idx in np.ndindex(*T.shape):
        for r in range(R):
            v = 1 if w is None else w[r]
            for l, f in enumerate(fs):
                if l != mode:
                    v = v * f[idx[l], r]
            out[idx[mode], r] += T[idx] * np.conj(v)
    return out


def ref_moment_sum(T, order):
    feat = T.shape[1:]
    oshape = feat * order
    out = np.zeros(oshape, dtype=_dtype([T]))
    k = len(feat)
    for idx in np.ndindex(*oshape):
        acc = 0
        for n in range(T.shape[0]):
            v = 1
            for j in range(order):
                v = v * T[(n,) + idx[j * k:(j + 1) * k]]
            acc = acc + v
        out[idx] = acc
    return out


def skipped(l, skip):
    return [x for i, x in enumerate(l) if i != skip]


# ----------------------------------------------------------------------------- descriptors -> implementation call / reference / Coq op
def opt_nat(x):
    return "None" if x is None else f"(Some {int(x)}%nat)"


def opt_nat_list(x):
    return "None" if x is None else f"(Some {C.nat_list(x)})"


def list_of_nat_lists(xs):
    return "[" + "; ".join(C.nat_list(x) for x in xs) + "]" if xs else "(@nil (list nat))"


def _is_plain_int(x):
    return isinstance(x, int) and not isinstance(x, bool)


def _mside(x):
    if _is_plain_int(x):
        return f"(SInt ({x})%Z)"
    if isinstance(x, (list, tuple)) and all(_is_plain_int(y) for y in x):
        return "(SList [" + "; ".join(f"({y})%Z" for y in x) + "])"
    raise ValueError(f"untranslatable entry {x!r} of a tensordot modes argument")


def marg_lit(x):
    """Gallina `marg` literal (Model/Tenalg.v) of a Python modes / batched_modes argument; fails closed on any other form"""
    if _is_plain_int(x):
        return f"(MInt ({x})%Z)"
    if isinstance(x, (list, tuple)):
        return "(MSeq [" + "; ".join(_mside(y) for y in x) + "])"
    raise ValueError(f"untranslatable tensordot modes argument {x!r}")


def split_arrays(d):
    """operands of a descriptor by role"""
    a, o, fn = d["arrays"], d["opts"], d["fn"]
    if fn == "khatri_rao":
        n = o["n"]
        Ms = a[:n]
        w = a[n] if o["weights"] else None
        mask = a[-1] if o["mask"] else None
        return Ms, w, mask
    if fn == "mttkrp":
        T = a[0]
        fs = a[1:-1] if o["weights"] else a[1:]
        w = a[-1] if o["weights"] else None
        return T, fs, w
    return a


def impl_call(d, be):
    """returns a thunk calling the implementation under tenalg backend `be` (restored to 'core' afterwards)"""
    import tensorly as tl
    from tensorly import tenalg
    fn, o = d["fn"], d["opts"]
    a = [np.array(x, copy=True) for x in d["arrays"]]
    dd = dict(d, arrays=a)

    def thunk():
        tenalg.set_backend("core" if be == "memory" else be)
        try:
            if fn == "mode_dot":
                return tenalg.mode_dot(a[0], a[1], o["mode"], transpose=o["transpose"])
            if fn == "multi_mode_dot":
                return tenalg.multi_mode_dot(a[0], list(a[1:]), modes=o["modes"], skip=o["skip"], transpose=o["transpose"])
            if fn == "khatri_rao":
                Ms, w, mask = split_arrays(dd)
                return tenalg.khatri_rao(list(Ms), weights=w, skip_matrix=o["skip"], mask=mask)
            if fn == "kronecker":
                return tenalg.kronecker(list(a), skip_matrix=o["skip"], reverse=o["reverse"])
            if fn == "inner":
                return tenalg.inner(a[0], a[1], n_modes=o["n_modes"])
            if fn == "outer":
                return tenalg.outer(list(a))
            if fn == "batched_outer":
                return tenalg.batched_outer(list(a))
            if fn == "tensordot":
                # "raw_modes"/"raw_batched": the int / negative / flat forms accepted by _validate_contraction_modes;
                # o["modes"] / o["batched"] always hold the normalised explicit lists (what the model and the reference see)
                modes = o["raw_modes"] if "raw_modes" in o else (list(o["modes"][0]), list(o["modes"][1]))
                batched = o["raw_batched"] if "raw_batched" in o else (list(o["batched"][0]), list(o["batched"][1]))
                if isinstance(modes, list):
                    modes = tuple(list(x) if isinstance(x, list) else x for x in modes)
                if isinstance(batched, list):
                    batched = tuple(list(x) if isinstance(x, list) else x for x in batched)
                return tenalg.tensordot(a[0], a[1], modes=modes, batched_modes=batched)
            if fn == "mttkrp":
                T, fs, w = split_arrays(dd)
                if be == "memory":
                    from tensorly.tenalg.core_tenalg.mttkrp import unfolding_dot_khatri_rao_memory
                    return unfolding_dot_khatri_rao_memory(T, (w, list(fs)), o["mode"])
                return tenalg.unfolding_dot_khatri_rao(T, (w, list(fs)), o["mode"])
            if fn == "higher_order_moment":
                return tenalg.higher_order_moment(a[0], o["order"])
            if fn == "sample_khatri_rao":
                from tensorly.decomposition import sample_khatri_rao
                kr, il, ikr = sample_khatri_rao(list(a), o["n_samples"], skip_matrix=o["skip"],
                                                indices_list=[np.array(x, dtype=int) for x in o["indices_list"]],
                                                return_sampled_rows=True)
                return kr, np.asarray(ikr)
            raise KeyError(fn)
        finally:
            tenalg.set_backend("core")
    return thunk


def reference(d):
    """textbook value for a VALID descriptor"""
    fn, o, a = d["fn"], d["opts"], d["arrays"]
    if fn == "mode_dot":
        m = o["mode"] + (np.asarray(a[0]).ndim if o["mode"] < 0 else 0)     # negative modes count from the end
        return ref_mode_dot(a[0], a[1], m, o["transpose"])
    if fn == "multi_mode_dot" and o.get("successive"):
        # a mode named more than once (matrix operands only): the successive mode products, equal modes in listing order
        T = np.asarray(a[0]); nd = T.ndim
        trip = sorted([(m + nd if m < 0 else m, i) for i, m in enumerate(o["modes"]) if i != o["skip"]], key=lambda x: x[0])
        for m, i in trip:
            T = ref_mode_dot(T, a[1 + i], m, o["transpose"])
        return T
    if fn == "multi_mode_dot":
        ms = o["modes"]
        if ms is not None:
            ms = [m + np.asarray(a[0]).ndim if m < 0 else m for m in ms]     # negative modes count from the end
        return ref_multi_mode_dot(a[0], a[1:], ms, o["skip"], o["transpose"])
    if fn == "khatri_rao":
        Ms, w, mask = split_arrays(d)
        return ref_khatri_rao(skipped(Ms, o["skip"]), w, mask)
    if fn == "kronecker":
        Ms = skipped(a, o["skip"])
        return ref_kronecker(Ms[::-1] if o["reverse"] else Ms)
    if fn == "inner":
        return ref_inner(a[0], a[1], o["n_modes"])
    if fn == "outer":
        return ref_outer(a)
    if fn == "batched_outer":
        return ref_batched_outer(a)
    if fn == "tensordot":
        return ref_tensordot(a[0], a[1], o["modes"][0], o["modes"][1], o["batched"][0], o["batched"][1])
    if fn == "mttkrp":
        T, fs, w = split_arrays(d)
        return ref_mttkrp(T, w, fs, o["mode"])
    if fn == "higher_order_moment":
        return ref_moment_sum(a[0], o["order"])  # n_samples * moment
    if fn == "sample_khatri_rao":
        Ms = skipped(a, o["skip"])
        full = ref_khatri_rao(Ms, None, None)
        rows = [m.shape[0] for m in Ms]
        ikr = np.array([int(np.ravel_multi_index([il[s] for il in o["indices_list"]], rows)) for s in range(o["n_samples"])], dtype=int)
        return full[ikr, :].reshape(o["n_samples"], Ms[0].shape[1]), ikr
    raise KeyError(fn)


def coq_ops(d, be):
    """Gallina op literal(s) for a descriptor under a backend"""
    fn, o = d["fn"], d["opts"]
    b = C.boolc(be == "einsum")
    if fn == "mode_dot" and o["mode"] < 0:
        return f"(OModeDotZ {b} ({o['mode']})%Z {C.boolc(o['transpose'])})"
    if fn == "mode_dot":
        return f"(OModeDot {b} {o['mode']}%nat {C.boolc(o['transpose'])})"
    if fn == "multi_mode_dot" and o["modes"] is not None:      # explicit modes (negative, repeated, any order): the literal Python-int models
        zs = "[" + "; ".join(f"({m})%Z" for m in o["modes"]) + "]"
        return f"(OMultiZ {b} {zs} {opt_nat(o['skip'])} {C.boolc(o['transpose'])})"
    if fn == "multi_mode_dot":
        # modes=None: the code sets modes = range(len(matrix_or_vec_list)) (regenerated from the source by C02_coretie); the literal
        # Python-int models on that list (= the natural-number routines with modes=None by C02_multi_mode_dot_default_modes)
        zs = "[" + "; ".join(f"({m})%Z" for m in range(len(d["arrays"]) - 1)) + "]"
        return f"(OMultiZ {b} {zs} {opt_nat(o['skip'])} {C.boolc(o['transpose'])})"
    if fn == "khatri_rao":
        return f"(OKhatri {b} {C.boolc(o['weights'])} {C.boolc(o['mask'])} {opt_nat(o['skip'])})"
    if fn == "kronecker":
        return f"(OKron {b} {opt_nat(o['skip'])} {C.boolc(o['reverse'])})"
    if fn == "inner":
        return f"(OInner {b} {opt_nat(o['n_modes'])})"
    if fn == "outer":
        return f"(OOuter {b})"
    if fn == "batched_outer":
        return f"(OBOuter {b})"
    if fn == "tensordot" and ("raw_modes" in o or "raw_batched" in o):
        # the argument forms go to the model as given to the code: Model/Tenalg.v validate_contraction normalises them
        rm = o["raw_modes"] if "raw_modes" in o else [list(o["modes"][0]), list(o["modes"][1])]
        rb = o["raw_batched"] if "raw_batched" in o else [list(o["batched"][0]), list(o["batched"][1])]
        return f"(OTdotRaw {b} {marg_lit(rm)} {marg_lit(rb)})"
    if fn == "tensordot":
        return (f"(OTdot {b} {C.nat_list(o['modes'][0])} {C.nat_list(o['modes'][1])} "
                f"{C.nat_list(o['batched'][0])} {C.nat_list(o['batched'][1])})")
    if fn == "mttkrp":
        v = {"core": 0, "einsum": 1, "memory": 2}[be]
        return f"(OMttkrp {v}%nat {C.boolc(o['weights'])} {o['mode']}%nat)"
    if fn == "higher_order_moment":
        return f"(OMoment {b} {o['order']}%nat)"
    raise KeyError(fn)


# ----------------------------------------------------------------------------- literals
def is_intvalued(v):
    v = np.asarray(v)
    if np.iscomplexobj(v):
        return bool(np.all(np.isfinite(v.real)) and np.all(np.isfinite(v.imag)) and np.all(v.real == np.rint(v.real)) and np.all(v.imag == np.rint(v.imag)))
    v = v.astype(np.float64)
    return bool(np.all(np.isfinite(v)) and np.all(v == np.rint(v)))


def zt(a):
    a = np.asarray(a)
    return C.ztensor(a.shape, [int(x) for x in np.asarray(a, dtype=np.float64).ravel()])


def gt(a):
    a = np.asarray(a).astype(np.complex128)
    data = "; ".join(f"(({int(x.real)})%Z, ({int(x.imag)})%Z)" for x in a.ravel())
    return f"(mk {C.nat_list(a.shape)} ([{data}] : list GI))"


def case_lit(cid, oplit, arrays, out, cplx):
    """out: ('ok', ndarray) | ('reject'|'crash', msg)"""
    t = gt if cplx else zt
    ops = "[" + "; ".join(t(a) for a in arrays) + "]"
    exp = f"(Ok {t(out[1])})" if out[0] == "ok" else "Err"
    return f"({'CG' if cplx else 'CZ'} {cid}%nat {oplit} {ops} {exp})"


# ----------------------------------------------------------------------------- generators
class Gen:
    def __init__(self, rng):
        self.rng = rng

    def arr(self, shape, cplx=False, dtype=None, lo=-3, hi=3):
        n = _prod(shape)
        vals = [self.rng.randint(lo, hi) for _ in range(n)]
        if n and not any(vals):
            vals[self.rng.randrange(n)] = self.rng.choice([-2, -1, 1, 2, 3])
        if cplx:
            im = [self.rng.randint(lo, hi) for _ in range(n)]
            if n and not any(im):
                im[self.rng.randrange(n)] = self.rng.choice([-2, -1, 1, 2])
            return (np.array(vals, dtype=np.float64) + 1j * np.array(im, dtype=np.float64)).reshape(shape).astype(np.complex128)
        if dtype is None:
            dtype = np.int64 if self.rng.random() < 0.25 else np.float64
        return np.array(vals, dtype=dtype).reshape(shape)

    def mask(self, shape):
        n = _prod(shape)
        vals = [self.rng.randint(0, 1) for _ in range(n)]
        return np.array(vals, dtype=np.float64).reshape(shape)


def shapes(orders, dims):
    for o in orders:
        for s in itertools.product(dims, repeat=o):
            yield tuple(s)


def D(fn, arrays, valid=True, **opts):
    return {"fn": fn, "arrays": list(arrays), "opts": opts, "valid": valid}


def gen_descriptors(tier, rng):
    g = Gen(rng)
    quick = tier == "quick"
    dims = [1, 2, 3]
    all_shapes = list(shapes([2, 3, 4], dims))
    if not quick:
        all_shapes += [tuple(rng.randint(1, 5) for _ in range(5)) for _ in range(12)]
        all_shapes += [tuple(rng.randint(1, 5) for _ in range(rng.randint(2, 4))) for _ in range(60)]
    # ---- mode_dot: every shape x every mode x {matrix, vector, transposed}, real; complex on a rotating subset
    k = 0
    for s in all_shapes:
        for mode in range(len(s)):
            for kind in ("matrix", "vector", "transposed"):
                k += 1
                J = 1 + (k % 3)
                cplx_opts = [False] + ([True] if (kind == "transposed" or k % 4 == 0) and (not quick or len(s) < 4 or k % 3 == 0) else [])
                for cplx in cplx_opts:
                    T = g.arr(s, cplx)
                    if kind == "matrix":
                        M = g.arr((J, s[mode]), cplx)
                    elif kind == "vector":
                        M = g.arr((s[mode],), cplx)
                    else:
                        M = g.arr((s[mode], J), cplx)
                    yield D("mode_dot", [T, M], mode=mode, transpose=(kind == "transposed"))
        # vector with transpose=True (flag ignored for vectors), order-1 tensors, invalid requests
    for n in (1, 2, 3):
        yield D("mode_dot", [g.arr((n,)), g.arr((n,))], mode=0, transpose=False)
        yield D("mode_dot", [g.arr((n,)), g.arr((2, n))], mode=0, transpose=False)
        yield D("mode_dot", [g.arr((n, 2), True), g.arr((n,), True)], mode=0, transpose=True)
    yield D("mode_dot", [g.arr((2, 3)), g.arr((2, 2))], valid=False, mode=1, transpose=False)
    yield D("mode_dot", [g.arr((2, 3)), g.arr((3, 2))], valid=False, mode=0, transpose=True)
    yield D("mode_dot", [g.arr((2, 3)), g.arr((2,))], valid=False, mode=1, transpose=False)
    yield D("mode_dot", [g.arr((2, 3)), g.arr((2, 3, 1))], valid=False, mode=1, transpose=False)
    yield D("mode_dot", [g.arr((2, 3)), g.arr((2, 3))], valid=False, mode=2, transpose=False)
    # size-1 mismatches: einsum / broadcasting would accept them silently if a shape check were missing
    yield D("mode_dot", [g.arr((2, 1)), g.arr((2, 3))], valid=False, mode=1, transpose=False)
    yield D("mode_dot", [g.arr((2, 3)), g.arr((2, 1))], valid=False, mode=1, transpose=False)
    yield D("mode_dot", [g.arr((2, 1)), g.arr((3,))], valid=False, mode=1, transpose=False)
    yield D("mode_dot", [g.arr((2, 3)), g.arr((1,))], valid=False, mode=1, transpose=False)
    yield D("mode_dot", [g.arr((3, 2)), g.arr((1, 2))], valid=False, mode=0, transpose=True)

    # negative modes (Python convention: counted from the end) on a thinned set of shapes, every negative mode x operand kind;
    # a mode below -order is rejected (einsum + matrix operand was wrong before /repo 92eb2a5).
    neg_shapes = [s for s in all_shapes if len(s) <= 3][:: (9 if quick else 3)]
    for s in neg_shapes:
        for mode in range(len(s)):
            for kind in ("matrix", "vector", "transposed"):
                k += 1
                J = 1 + (k % 3)
                cplx = kind == "transposed" and k % 2 == 0
                M = g.arr((J, s[mode]), cplx) if kind == "matrix" else g.arr((s[mode],), cplx) if kind == "vector" else g.arr((s[mode], J), cplx)
                yield D("mode_dot", [g.arr(s, cplx), M], mode=mode - len(s), transpose=(kind == "transposed"))
    yield D("mode_dot", [g.arr((2, 3)), g.arr((2, 2))], valid=False, mode=-3, transpose=False)
    yield D("mode_dot", [g.arr((2, 3)), g.arr((2,))], valid=False, mode=-3, transpose=False)
    yield D("mode_dot", [g.arr((2, 3)), g.arr((2, 2))], valid=False, mode=-1, transpose=False)     # (2,2) on the last mode (size 3)

    # ---- multi_mode_dot
    mm_shapes = [s for s in all_shapes if len(s) <= 3 or not quick or rng.random() < 0.35]
    for s in mm_shapes:
        N = len(s)
        variants = [("none", list(range(N))), ("sorted", list(range(N))), ("reversed", list(range(N - 1, -1, -1)))]
        if N >= 2:
            sub = sorted(rng.sample(range(N), rng.randint(1, N - 1)))
            rng.shuffle(sub)
            variants.append(("partial", sub))
        if N >= 3:
            p = list(range(N)); rng.shuffle(p)
            variants.append(("shuffled", p))
        for vname, modes in variants:
            for skip in [None] + list(range(len(modes))):
                if quick and N == 4 and skip is not None and rng.random() < 0.5:
                    continue
                tr = rng.random() < 0.5
                cplx = tr or rng.random() < 0.2
                kinds = [rng.choice("mmv") for _ in modes]
                Ms = []
                for m, kd in zip(modes, kinds):
                    J = rng.randint(1, 3)
                    if kd == "v":
                        Ms.append(g.arr((s[m],), cplx))
                    elif tr:
                        Ms.append(g.arr((s[m], J), cplx))
                    else:
                        Ms.append(g.arr((J, s[m]), cplx))
                yield D("multi_mode_dot", [g.arr(s, cplx)] + Ms, modes=(None if vname == "none" else modes), skip=skip, transpose=tr)

    # negative modes (counted from the end): some or all modes written negatively, random operand kinds, skip, transpose.
    # (before /repo 92eb2a5 both backends sorted by the raw mode numbers and contracted the wrong mode after a vector operand)
    for _ in range(40 if quick else 200):
        s = tuple(rng.choice(dims) for _ in range(rng.randint(2, 3)))
        nm = rng.randint(1, len(s))
        pos = sorted(rng.sample(range(len(s)), nm)); rng.shuffle(pos)
        neg = [rng.random() < 0.6 for _ in pos]
        if not any(neg):
            neg[rng.randrange(len(neg))] = True
        tr = rng.random() < 0.3
        cplx = tr and rng.random() < 0.5
        Ms = []
        for m in pos:
            kind = rng.choice(["matrix", "vector"])
            J = rng.randint(1, 3)
            Ms.append(g.arr((s[m],), cplx) if kind == "vector" else g.arr((s[m], J) if tr else (J, s[m]), cplx))
        skip = rng.choice([None, None, rng.randrange(len(pos))])
        yield D("multi_mode_dot", [g.arr(s, cplx)] + Ms, modes=[m - len(s) if ng else m for m, ng in zip(pos, neg)], skip=skip, transpose=tr)
    yield D("multi_mode_dot", [g.arr((2, 3)), g.arr((2, 2))], valid=False, modes=[-3], skip=None, transpose=False)

    # the same mode named twice or three times (matrix operands): the textbook value is the successive product in listing order
    # (both backends since /repo a6246d0; before, the einsum backend contracted every operand with the tensor's original label).  "chain": operand k fits the size left by operand k-1 (well-formed successive
    # product); otherwise every operand has the ORIGINAL mode size (the successive product is malformed unless sizes coincide).
    for _ in range(24 if quick else 120):
        s = tuple(rng.choice([2, 3]) for _ in range(rng.randint(1, 3)))   # sizes >= 2: np.einsum broadcasts size-1 axes (outside the model)
        m = rng.randrange(len(s))
        tr = rng.random() < 0.3
        cplx = tr and rng.random() < 0.5
        reps = rng.choice([2, 2, 3])
        chain = rng.random() < 0.6
        Ms, modes, cur, ok = [], [], s[m], True
        for _k in range(reps):
            J = rng.choice([2, 3])
            cols = cur if chain else s[m]
            ok = ok and cols == cur
            Ms.append(g.arr((cols, J) if tr else (J, cols), cplx)); modes.append(m if rng.random() < 0.7 else m - len(s))
            cur = J
        if len(s) > 1 and rng.random() < 0.5:       # one more operand on another mode, listed in between
            m2 = rng.choice([x for x in range(len(s)) if x != m]); J = rng.choice([2, 3])
            pos = rng.randrange(len(Ms) + 1)
            Ms.insert(pos, g.arr((s[m2], J) if tr else (J, s[m2]), cplx)); modes.insert(pos, m2)
        yield D("multi_mode_dot", [g.arr(s, cplx)] + Ms, valid=ok, modes=modes, skip=None, transpose=tr, successive=True)

    # size-1 mismatches (malformed: the operand does not fit its mode): both backends reject (the einsum backend since /repo 8b25fc6;
    # before, np.einsum broadcast the size-1 axis - model einsum_np, regression Example C02_multi_mode_dot_einsum_size1_before_8b25fc6)
    for _ in range(16 if quick else 80):
        s = tuple(rng.choice(dims) for _ in range(rng.randint(1, 3)))
        modes = sorted(rng.sample(range(len(s)), rng.randint(1, len(s))))
        tr = rng.random() < 0.3
        which = rng.randrange(len(modes))
        Ms = []
        for j, m in enumerate(modes):
            sz = s[m]
            if j == which or rng.random() < 0.3:
                sz = 1 if s[m] != 1 else rng.choice([2, 3])
            J = rng.choice(dims)
            Ms.append(g.arr((sz,)) if rng.random() < 0.4 else g.arr((sz, J) if tr else (J, sz)))
        yield D("multi_mode_dot", [g.arr(s)] + Ms, valid=False, modes=modes, skip=None, transpose=tr)

    # repeated modes with VECTOR operands (and mixes): no textbook value is claimed (valid=None: no reference), but the two backends
    # must return the same tensor or both reject (must_agree), and both must do what the literal models do
    for _ in range(30 if quick else 150):
        s = tuple(rng.choice([2, 2, 3]) for _ in range(rng.randint(2, 3)))
        k = rng.randint(2, 4)
        base = rng.randrange(len(s))
        modes = [base if rng.random() < 0.6 else rng.randrange(len(s)) for _ in range(k)]
        modes = [m if rng.random() < 0.75 else m - len(s) for m in modes]
        tr = rng.random() < 0.3
        cplx = tr and rng.random() < 0.5
        Ms = []
        for m in modes:
            sz = s[m] if rng.random() < 0.8 else rng.choice([2, 3])
            J = rng.choice([2, 3])
            Ms.append(g.arr((sz,), cplx) if rng.random() < 0.55 else g.arr((sz, J) if tr else (J, sz), cplx))
        skip = rng.choice([None, None, rng.randrange(k)])
        yield D("multi_mode_dot", [g.arr(s, cplx)] + Ms, valid=None, modes=modes, skip=skip, transpose=tr, must_agree=True)

    # malformed multi_mode_dot requests (both backends must reject, as the model does): a size mismatch with both sizes >= 2
    # (np.einsum would broadcast a size-1 axis: outside the model), a mode beyond the order, a 3-D operand; a malformed operand
    # that is skipped is never inspected
    yield D("multi_mode_dot", [g.arr((2, 3, 2)), g.arr((2, 2)), g.arr((4, 2))], valid=False, modes=[0, 1], skip=None, transpose=False)
    yield D("multi_mode_dot", [g.arr((2, 3, 2)), g.arr((2,)), g.arr((2,))], valid=False, modes=[0, 1], skip=None, transpose=False)
    yield D("multi_mode_dot", [g.arr((2, 3, 2)), g.arr((2,)), g.arr((4, 3))], valid=False, modes=[0, 2], skip=None, transpose=False)
    yield D("multi_mode_dot", [g.arr((2, 3)), g.arr((2, 2)), g.arr((2, 3))], valid=False, modes=[0, 2], skip=None, transpose=False)
    yield D("multi_mode_dot", [g.arr((2, 3)), g.arr((2, 2, 2))], valid=False, modes=[0], skip=None, transpose=False)
    yield D("multi_mode_dot", [g.arr((2, 3, 2)), g.arr((3, 2)), g.arr((3, 4))], valid=False, modes=None, skip=None, transpose=True)
    yield D("multi_mode_dot", [g.arr((2, 3)), g.arr((2, 2)), g.arr((5, 7))], modes=None, skip=1, transpose=False)
    yield D("multi_mode_dot", [g.arr((2, 3)), g.arr((2, 2)), g.arr((5, 7, 2))], modes=[0, 4], skip=1, transpose=True)

    # ---- khatri_rao
    row_sets = list(shapes([1, 2, 3], dims)) + ([] if quick else list(shapes([4], [1, 2, 3])))
    if quick:
        row_sets += [tuple(rng.randint(1, 3) for _ in range(4)) for _ in range(6)]
    for rows in row_sets:
        n = len(rows)
        for hasw, hasm in itertools.product((False, True), repeat=2):
            for skip in [None] + list(range(n)):
                if skip is not None and n == 1:
                    continue
                if quick and n >= 3 and rng.random() < 0.5:
                    continue
                R = rng.randint(1, 3)
                cplx = rng.random() < 0.25
                Ms = [g.arr((r, R), cplx) for r in rows]
                rem = [r for i, r in enumerate(rows) if i != skip]
                arrays = list(Ms)
                if hasw:
                    arrays.append(g.arr((R,), cplx))
                if hasm:
                    arrays.append(g.mask(tuple(rem)))
                yield D("khatri_rao", arrays, n=n, weights=hasw, mask=hasm, skip=skip)
    yield D("khatri_rao", [g.arr((2, 2)), g.arr((3, 3))], valid=False, n=2, weights=False, mask=False, skip=None)
    yield D("khatri_rao", [g.arr((2, 2)), g.arr((3, 2)), g.arr((2, 3))], valid=False, n=3, weights=False, mask=False, skip=0)
    yield D("khatri_rao", [g.arr((2, 1)), g.arr((3, 2))], valid=False, n=2, weights=False, mask=False, skip=None)
    # weights / mask whose size is not the number of columns / rows: a single weight is broadcast as a scalar (valid, both backends);
    # every other size must be rejected (R >= 2 and an enlarged mask axis >= 2, so that NumPy cannot broadcast it)
    odd_rows = [(2,), (3,), (3, 2), (1, 2), (2, 2, 3), (2, 1, 3)] + ([] if quick else [(3, 3, 2), (2, 3), (1, 3, 2)])
    for rows in odd_rows:
        n = len(rows)
        for skip in [None] + ([rng.randrange(n)] if n > 1 else []):
            R = rng.choice([2, 3])
            cplx = rng.random() < 0.25
            Ms = [g.arr((r, R), cplx) for r in rows]
            rem = [r for i, r in enumerate(rows) if i != skip]
            yield D("khatri_rao", Ms + [g.arr((1,), cplx)], n=n, weights=True, mask=False, skip=skip)
            yield D("khatri_rao", Ms + [g.arr((1,), cplx), g.mask(tuple(rem))], n=n, weights=True, mask=True, skip=skip)
            yield D("khatri_rao", Ms + [g.arr((R + 1,), cplx)], valid=False, n=n, weights=True, mask=False, skip=skip)
            if R == 3:
                yield D("khatri_rao", Ms + [g.arr((2,), cplx)], valid=False, n=n, weights=True, mask=False, skip=skip)
            big = [j for j, r in enumerate(rem) if r >= 2]
            if big:
                j = rng.choice(big)
                bad = list(rem); bad[j] += 1
                yield D("khatri_rao", Ms + [g.mask(tuple(bad))], valid=False, n=n, weights=False, mask=True, skip=skip)
                yield D("khatri_rao", Ms + [g.arr((R,), cplx), g.mask(tuple(bad))], valid=False, n=n, weights=True, mask=True, skip=skip)
    yield D("khatri_rao", [g.arr((2, 2)), g.arr((3, 1)), g.arr((2, 2))], valid=False, n=3, weights=False, mask=False, skip=None)

    # ---- kronecker
    for n in (1, 2, 3, 4):
        reps = {1: 4, 2: 40, 3: 40, 4: 8}[n] * (1 if quick else 4)
        for _ in range(reps):
            cplx = rng.random() < 0.2
            Ms = [g.arr((rng.randint(1, 3), rng.randint(1, 3)), cplx) for _ in range(n)]
            for skip in [None] + (list(range(n)) if n > 1 else []):
                for rev in (False, True):
                    if n >= 3 and rng.random() < 0.5:
                        continue
                    yield D("kronecker", Ms, skip=skip, reverse=rev)

    # ---- inner
    small = list(shapes([1, 2, 3], dims))
    for s in small:
        cplx = rng.random() < 0.2
        yield D("inner", [g.arr(s, cplx), g.arr(s, cplx)], n_modes=None)
        for n in range(1, len(s) + 1):
            for tail in ([], [2], [3, 1], [1, 2]):
                if quick and len(s) == 3 and rng.random() < 0.5:
                    continue
                sb = tuple(s[len(s) - n:]) + tuple(tail)
                yield D("inner", [g.arr(s, cplx), g.arr(sb, cplx)], n_modes=n)
    yield D("inner", [g.arr((2, 3)), g.arr((3, 2))], valid=False, n_modes=None)
    yield D("inner", [g.arr((2, 3)), g.arr((2, 2))], valid=False, n_modes=1)
    yield D("inner", [g.arr((2, 1)), g.arr((3, 2))], valid=False, n_modes=1)
    yield D("inner", [g.arr((2, 3)), g.arr((1, 2))], valid=False, n_modes=1)
    yield D("inner", [g.arr((2, 1)), g.arr((2, 3))], valid=False, n_modes=None)
    yield D("inner", [g.arr((3, 1, 2)), g.arr((3, 2, 2))], valid=False, n_modes=2)
    # n_modes = 0 is the outer product
    for s, sb in (((2, 3), (2,)), ((2,), (3, 2)), ((1, 2), (3,)), ((3,), (2,))):
        yield D("inner", [g.arr(s), g.arr(sb)], n_modes=0)

    # ---- outer / batched_outer
    tiny = list(shapes([1, 2], dims)) + [(2, 1, 2), (1, 3, 2), (2, 2, 2)]
    for _ in range(60 if quick else 300):
        n = rng.randint(1, 3)
        cplx = rng.random() < 0.2
        ts = [g.arr(rng.choice(tiny), cplx) for _ in range(n)]
        if _prod([_prod(t.shape) for t in ts]) <= 216:
            yield D("outer", ts)
    for _ in range(60 if quick else 300):
        n = rng.randint(1, 3)
        b = rng.randint(1, 3)
        cplx = rng.random() < 0.2
        ts = [g.arr((b,) + tuple(rng.choice(tiny[:12] + [()])), cplx) for _ in range(n)]
        if _prod([_prod(t.shape[1:]) for t in ts]) * b <= 216:
            yield D("batched_outer", ts)
    yield D("batched_outer", [g.arr((2, 2)), g.arr((3, 2))], valid=False)
    yield D("batched_outer", [g.arr((1, 2)), g.arr((3, 2))], valid=False)
    yield D("batched_outer", [g.arr((3, 2)), g.arr((1,))], valid=False)
    yield D("batched_outer", [g.arr((2, 2)), g.arr((2,)), g.arr((1, 3))], valid=False)

    # ---- tensordot: all (contraction, batch) selections up to two modes each with every pairing order
    td_shapes = [s for s in shapes([2, 3], dims)] if not quick else [tuple(rng.choice(dims) for _ in range(rng.choice([2, 3, 3]))) for _ in range(36)]
    for sa in td_shapes:
        na = len(sa)
        for nc in (0, 1, 2):
            for nb in (0, 1, 2):
                if nc + nb > na:
                    continue
                sels = list(itertools.permutations(range(na), nc + nb))
                rng.shuffle(sels)
                for sel in sels[: (2 if quick else 6)]:
                    m1, b1 = list(sel[:nc]), list(sel[nc:])
                    nfree = rng.randint(0, 2 if nc + nb < 3 else 1)
                    nb_total = nc + nb + nfree
                    pos = list(range(nb_total)); rng.shuffle(pos)
                    m2, b2 = pos[:nc], pos[nc:nc + nb]
                    sb = [rng.choice(dims) for _ in range(nb_total)]
                    for i, j in zip(m1 + b1, m2 + b2):
                        sb[j] = sa[i]
                    cplx = rng.random() < 0.15
                    yield D("tensordot", [g.arr(sa, cplx), g.arr(tuple(sb), cplx)], modes=[m1, m2], batched=[b1, b2])
    yield D("tensordot", [g.arr((2, 3)), g.arr((2, 3))], valid=False, modes=[[0], [1]], batched=[[], []])
    yield D("tensordot", [g.arr((2, 3)), g.arr((2, 3))], valid=False, modes=[[0], [0]], batched=[[1], []])
    yield D("tensordot", [g.arr((2, 3)), g.arr((3, 3))], valid=False, modes=[[1], [0]], batched=[[0], [1]])
    yield D("tensordot", [g.arr((1, 3)), g.arr((3, 3))], valid=False, modes=[[1], [0]], batched=[[0], [1]])
    yield D("tensordot", [g.arr((3, 3)), g.arr((3, 1))], valid=False, modes=[[1], [0]], batched=[[0], [1]])
    yield D("tensordot", [g.arr((2, 1)), g.arr((3, 2))], valid=False, modes=[[1], [0]], batched=[[], []])
    yield D("tensordot", [g.arr((2, 3)), g.arr((1, 2))], valid=False, modes=[[1], [0]], batched=[[0], [1]])
    # a mode of one tensor named twice: no textbook value (valid=None: model-vs-code correspondence only, the backends are NOT required
    # to agree).  The core backend rejects (transpose with a repeated axis); the einsum backend builds an equation with a repeated
    # label and np.einsum takes the diagonal - both are what the models do.
    for (sa, sb, m, b) in (((2, 3), (2, 2, 3), ([0, 0], [0, 1]), ([], [])), ((2, 3), (2, 2), ([0, 0], [0, 1]), ([], [])),
                           ((2, 2, 3), (2, 3), ([0, 1], [0, 0]), ([], [])), ((3, 2), (3, 3, 2), ([], []), ([0, 0], [0, 1])),
                           ((2, 3), (2, 2, 3), ([0], [0]), ([0], [1])), ((2, 2), (2, 3), ([0, 1], [0, 0]), ([], [])),
                           ((2, 3, 2), (2, 3), ([0, 2], [0, 0]), ([1], [1]))):
        yield D("tensordot", [g.arr(sa), g.arr(sb)], valid=None, modes=[list(m[0]), list(m[1])], batched=[list(b[0]), list(b[1])])
    # modes=k (int): every (order1, order2, k); with k >= 2 also equal common sizes, where a mis-paired contraction changes values only
    for na in (1, 2, 3):
        for nb_ in (1, 2, 3):
            for k in range(0, min(na, nb_) + 1):
                for equal in ((False, True) if k >= 2 else (False,)):
                    sa = [rng.choice(dims) for _ in range(na)]
                    if equal:
                        sa[na - k:] = [2] * k
                    elif k >= 2:
                        sa[na - k:] = rng.sample(dims, k)   # distinct sizes: a mis-paired contraction is rejected
                    sb = sa[na - k:] + [rng.choice(dims) for _ in range(nb_ - k)]
                    yield D("tensordot", [g.arr(tuple(sa)), g.arr(tuple(sb))], modes=[list(range(na - k, na)), list(range(k))], batched=[[], []],
                            raw_modes=k, raw_batched=())
    # the int / negative / flat argument forms of tenalg_utils._validate_contraction_modes (normalised lists go to model and reference)
    for _ in range(24 if quick else 120):
        na, nb_ = rng.randint(1, 3), rng.randint(1, 3)
        form = rng.choice(["int_modes", "neg_modes", "int_batched", "flat_same", "scalar_pair"])
        sa = [rng.choice(dims) for _ in range(na)]
        cplx = rng.random() < 0.15
        if form == "int_modes":          # modes=k: last k modes of tensor1 with the first k modes of tensor2
            k = rng.randint(0, min(na, nb_))
            sb = sa[na - k:] + [rng.choice(dims) for _ in range(nb_ - k)]
            yield D("tensordot", [g.arr(tuple(sa), cplx), g.arr(tuple(sb), cplx)], modes=[list(range(na - k, na)), list(range(k))], batched=[[], []],
                    raw_modes=k, raw_batched=())
        elif form == "neg_modes":        # negative modes count from the end
            i, j = rng.randrange(na), rng.randrange(nb_)
            sb = [rng.choice(dims) for _ in range(nb_)]; sb[j] = sa[i]
            yield D("tensordot", [g.arr(tuple(sa), cplx), g.arr(tuple(sb), cplx)], modes=[[i], [j]], batched=[[], []],
                    raw_modes=[[i - na], [j - nb_]], raw_batched=())
        elif form == "int_batched":      # batched_modes=b: mode b of both tensors
            b = rng.randrange(min(na, nb_))
            sb = [rng.choice(dims) for _ in range(nb_)]; sb[b] = sa[b]
            free1 = [i for i in range(na) if i != b]; free2 = [j for j in range(nb_) if j != b]
            if free1 and free2 and rng.random() < 0.6:
                i, j = rng.choice(free1), rng.choice(free2)
                sb[j] = sa[i]
                yield D("tensordot", [g.arr(tuple(sa), cplx), g.arr(tuple(sb), cplx)], modes=[[i], [j]], batched=[[b], [b]],
                        raw_modes=[[i], [j]], raw_batched=b)
            else:
                yield D("tensordot", [g.arr(tuple(sa), cplx), g.arr(tuple(sb), cplx)], modes=[[], []], batched=[[b], [b]],
                        raw_modes=(), raw_batched=b)
        elif form == "flat_same":        # modes=[i, j] (not a pair of lists): the same modes of both tensors
            n = min(na, nb_)
            sel = sorted(rng.sample(range(n), rng.randint(1, n)))
            if len(sel) == 2:
                continue                 # a 2-element flat list is read as the pair (modes1, modes2)
            sb = [rng.choice(dims) for _ in range(nb_)]
            for i in sel:
                sb[i] = sa[i]
            yield D("tensordot", [g.arr(tuple(sa), cplx), g.arr(tuple(sb), cplx)], modes=[sel, sel], batched=[[], []],
                    raw_modes=list(sel), raw_batched=())
        else:                            # modes=(i, j): a pair of scalars
            i, j = rng.randrange(na), rng.randrange(nb_)
            sb = [rng.choice(dims) for _ in range(nb_)]; sb[j] = sa[i]
            yield D("tensordot", [g.arr(tuple(sa), cplx), g.arr(tuple(sb), cplx)], modes=[[i], [j]], batched=[[], []],
                    raw_modes=[i, j], raw_batched=())

    # further argument forms: negative batched ints / entries, a scalar paired with a list, two pairs with mixed signs
    for _ in range(20 if quick else 100):
        na, nb_ = rng.randint(1, 3), rng.randint(1, 3)
        form = rng.choice(["neg_int_batched", "neg_list_batched", "mixed_pair", "two_pairs_mixed_signs"])
        sa = [rng.choice(dims) for _ in range(na)]
        sb = [rng.choice(dims) for _ in range(nb_)]
        cplx = rng.random() < 0.15
        if form == "neg_int_batched":      # batched_modes=-k: mode na-k of tensor1 with mode nb-k of tensor2
            k = rng.randint(1, min(na, nb_))
            sb[nb_ - k] = sa[na - k]
            yield D("tensordot", [g.arr(tuple(sa), cplx), g.arr(tuple(sb), cplx)], modes=[[], []], batched=[[na - k], [nb_ - k]],
                    raw_modes=(), raw_batched=-k)
        elif form == "neg_list_batched":
            i, j = rng.randrange(na), rng.randrange(nb_)
            sb[j] = sa[i]
            yield D("tensordot", [g.arr(tuple(sa), cplx), g.arr(tuple(sb), cplx)], modes=[[], []], batched=[[i], [j]],
                    raw_modes=(), raw_batched=[[i - na], [j]])
        elif form == "mixed_pair":         # modes=(i, [j]): a scalar with a one-element list
            i, j = rng.randrange(na), rng.randrange(nb_)
            sb[j] = sa[i]
            yield D("tensordot", [g.arr(tuple(sa), cplx), g.arr(tuple(sb), cplx)], modes=[[i], [j]], batched=[[], []],
                    raw_modes=[i - na, [j]], raw_batched=())
        else:
            if na < 2 or nb_ < 2:
                continue
            i1, i2 = rng.sample(range(na), 2); j1, j2 = rng.sample(range(nb_), 2)
            sb[j1], sb[j2] = sa[i1], sa[i2]
            yield D("tensordot", [g.arr(tuple(sa), cplx), g.arr(tuple(sb), cplx)], modes=[[i1, i2], [j1, j2]], batched=[[], []],
                    raw_modes=[[i1 - na, i2], [j1, j2 - nb_]], raw_batched=())
    # malformed requests in raw form: the model's validate_contraction and the code must both reject
    A23, B32, B23 = (2, 3), (3, 2), (2, 3)
    yield D("tensordot", [g.arr(A23), g.arr(B32)], valid=False, modes=None, batched=None, raw_modes=[[-3], [0]], raw_batched=())   # -3 is no mode of an order-2 tensor
    yield D("tensordot", [g.arr(A23), g.arr(B32)], valid=False, modes=None, batched=None, raw_modes=[[1], [-3]], raw_batched=())
    yield D("tensordot", [g.arr(A23), g.arr(B32)], valid=False, modes=None, batched=None, raw_modes=3, raw_batched=())              # more modes than the orders
    yield D("tensordot", [g.arr(A23), g.arr(B23)], valid=False, modes=None, batched=None, raw_modes=1, raw_batched=())              # last of A (3) with first of B (2)
    yield D("tensordot", [g.arr(A23), g.arr(B32)], valid=False, modes=None, batched=None, raw_modes=[[1, 0], [0]], raw_batched=())  # different numbers of modes
    yield D("tensordot", [g.arr(A23), g.arr(B23)], valid=False, modes=None, batched=None, raw_modes=[0, [1], 1], raw_batched=())    # flat form with a nested list
    yield D("tensordot", [g.arr(A23), g.arr(B23)], valid=False, modes=None, batched=None, raw_modes=(), raw_batched=2)              # batched int out of range
    yield D("tensordot", [g.arr(A23), g.arr(B23)], valid=False, modes=None, batched=None, raw_modes=(), raw_batched=-3)
    yield D("tensordot", [g.arr(A23), g.arr(B32)], valid=False, modes=None, batched=None, raw_modes=[[-1], [-1]], raw_batched=())   # sizes 3 and 2
    yield D("tensordot", [g.arr(A23), g.arr(B32)], valid=False, modes=None, batched=None, raw_modes=[[1], [0]], raw_batched=[[0], [-1], [0]])
    # modes=-k (a negative int) contracts nothing: the outer product
    yield D("tensordot", [g.arr((2, 3)), g.arr((3,))], modes=[[], []], batched=[[], []], raw_modes=-1, raw_batched=())

    # ---- MTTKRP: every shape x every mode x weights on/off (complex on a subset); three variants
    for s in all_shapes:
        for mode in range(len(s)):
            for hasw in (False, True):
                if quick and len(s) == 4 and rng.random() < 0.6:
                    continue
                R = rng.randint(1, 3)
                cplx = rng.random() < 0.3
                fs = [g.arr((d_, R), cplx) for d_ in s]
                arrays = [g.arr(s, cplx)] + fs + ([g.arr((R,), cplx)] if hasw else [])
                yield D("mttkrp", arrays, weights=hasw, mode=mode)

    # MTTKRP with a single weight (broadcast, valid) and malformed requests: weights of another length, factors of different
    # rank (order >= 3: two used factors disagree; the memory variant reads only the first columns, so it is not called there),
    # a factor whose row count is not the mode size (mode size >= 2, so that einsum cannot broadcast it)
    for s_ in [(2, 3), (3, 2, 2), (2, 1, 3), (2, 2, 2, 2)] + ([] if quick else [(3, 3), (2, 3, 2), (3, 1, 2)]):
        for mode in range(len(s_)):
            R = rng.choice([2, 3])
            cplx = rng.random() < 0.3
            fs = [g.arr((d_, R), cplx) for d_ in s_]
            T_ = g.arr(s_, cplx)
            yield D("mttkrp", [T_] + fs + [g.arr((1,), cplx)], weights=True, mode=mode)
            yield D("mttkrp", [T_] + fs + [g.arr((R + 1,), cplx)], valid=False, weights=True, mode=mode)
            others = [l for l in range(len(s_)) if l != mode]
            if len(others) >= 2:
                l = rng.choice(others)
                fs2 = list(fs); fs2[l] = g.arr((s_[l], R + 1), cplx)
                yield D("mttkrp", [T_] + fs2, valid=False, weights=False, mode=mode, no_memory=True)
            big = [l for l in others if s_[l] >= 2]
            if big:
                l = rng.choice(big)
                fs3 = list(fs); fs3[l] = g.arr((s_[l] + 1, R), cplx)
                yield D("mttkrp", [T_] + fs3, valid=False, weights=rng.random() < 0.5 and False, mode=mode)

    # ---- higher_order_moment (the mean divides by n_samples: n_samples * result is compared)
    for ns in (1, 2, 3, 4):
        for feat in ((1,), (2,), (3,), (2, 2), (1, 3), (2, 1, 2)):
            for order in (1, 2, 3):
                if _prod(feat) ** order > 216:
                    continue
                yield D("higher_order_moment", [g.arr((ns,) + feat, dtype=np.float64)], order=order)

    # ---- sample_khatri_rao: given index lists and lists drawn by the implementation from a seed
    for _ in range(40 if quick else 200):
        n = rng.randint(1, 4)
        R = rng.randint(1, 3)
        rows = [rng.randint(1, 4) for _ in range(n)]
        Ms = [g.arr((r, R), dtype=np.float64) for r in rows]
        skip = rng.choice([None] + list(range(n))) if n > 1 else None
        ns = rng.randint(1, 5)
        rem = skipped(rows, skip)
        if rng.random() < 0.5:
            il = [[rng.randrange(r) for _ in range(ns)] for r in rem]
            yield D("sample_khatri_rao", Ms, skip=skip, n_samples=ns, indices_list=il, seed=None)
        else:
            yield D("sample_khatri_rao", Ms, skip=skip, n_samples=ns, indices_list=None, seed=rng.randrange(10 ** 6))

    # ---- inner with n_modes beyond the order L of tensor1 (malformed: there are no n_modes last modes).  Both backends must reject.
    # The core code slices shape_t1 with L - n_modes < 0 (Python counts from the end) and so ACCEPTS the request exactly when
    # tensor2's shape is the wrapped-around slice shape_t1[max(2L - n, 0):] (known finding core_inner_n_modes_beyond_order; model of
    # the code as it is: Model/TenalgRaw.v inner_as_is); every other tensor2 is rejected by both (appended last: earlier streams unchanged)
    for s in [(2,), (3,), (2, 3), (3, 2), (1, 2), (2, 2), (2, 3, 2), (3, 1, 2)]:
        L = len(s)
        for n in range(L + 1, 2 * L + 2):
            if quick and L == 3 and n % 2 == 0:
                continue
            k = max(2 * L - n, 0)
            yield D("inner", [g.arr(s), g.arr(tuple(s[k:]))], valid=False, n_modes=n)                    # the wrapped-around slice
            yield D("inner", [g.arr(s), g.arr(tuple(s[k:]) + (2,))], valid=False, n_modes=n)             # one mode more: rejected
            if L >= 2:
                yield D("inner", [g.arr(s), g.arr(tuple(s[L - 1:]) + (2,) * (n - 1))], valid=False, n_modes=n)   # n modes, first one fitting
            if n >= L + 2 and tuple(s[k:]) != (s[-1],):
                yield D("inner", [g.arr(s), g.arr((s[-1],))], valid=False, n_modes=n)    # only the last mode: rejected (another slice rule would accept)
    # inner whose common modes are a permutation of each other (sizes compared as sets would pair the wrong modes)
    for s, sb in (((2, 3), (3, 2)), ((2, 2, 3), (3, 2, 2)), ((3, 2), (2, 3, 2)), ((1, 2), (2, 1))):
        yield D("inner", [g.arr(s), g.arr(sb)], valid=False, n_modes=2)
    # outer / batched_outer of four and five operands of different orders (a book-keeping variable that is not refreshed in every
    # iteration shows only from the fourth operand on)
    for _ in range(8 if quick else 40):
        n = rng.choice([4, 4, 5])
        b = rng.randint(1, 2)
        feats = [rng.choice([(), (2,), (1, 2), (2, 1), (3,)]) for _ in range(n)]
        feats[2] = rng.choice([(2,), (1, 2), (2, 1)])
        if _prod([_prod(f) for f in feats]) <= 48:
            yield D("batched_outer", [g.arr((b,) + f) for f in feats])
            yield D("outer", [g.arr(f if f else (rng.choice([1, 2]),)) for f in feats])


def backends_of(d):
    if d["fn"] == "mttkrp":
        return ("core", "einsum") if d["opts"].get("no_memory") else ("core", "einsum", "memory")
    if d["fn"] == "sample_khatri_rao":
        return ("core",)
    return BACKENDS


def resolve_sample(d):
    """draw the index lists through the implementation itself when a seed is given (answer tape)"""
    o = d["opts"]
    if d["fn"] == "sample_khatri_rao" and o["indices_list"] is None:
        from tensorly.decomposition import sample_khatri_rao
        st, v = C.call_impl(lambda: sample_khatri_rao([np.array(x) for x in d["arrays"]], o["n_samples"], skip_matrix=o["skip"],
                                                      random_state=np.random.RandomState(o["seed"]), return_sampled_rows=True))
        if st != "ok":
            return st, v
        kr, il, ikr = v
        o["indices_list"] = [[int(x) for x in l] for l in il]
        o["drawn"] = (np.asarray(kr), np.asarray(ikr))
    return "ok", None


def canon(d, out):
    """canonical output array(s) of an implementation call: 0-d array vs NumPy scalar is not a difference"""
    st, v = out
    if st != "ok":
        return out
    if d["fn"] == "higher_order_moment":
        n = d["arrays"][0].shape[0]
        v = np.asarray(v) * n
        r = np.rint(v)
        if not np.all(np.abs(v - r) <= 1e-9 * (1 + np.abs(r))):
            return ("ok", v)  # not integer valued: reported by the predicate
        return ("ok", r)
    if d["fn"] == "sample_khatri_rao":
        return ("ok", (np.asarray(v[0]), np.asarray(v[1])))
    return ("ok", np.asarray(v))


def same(a, b):
    a, b = np.asarray(a), np.asarray(b)
    return a.shape == b.shape and bool(np.array_equal(a, b))


def predicate(d, be, out):
    """the property on ONE implementation output: equals the textbook formula (valid input) / is rejected (invalid input)"""
    st, v = out
    if d["valid"] is None:      # a request the property does not speak about (no textbook value): correspondence only
        return None
    if not d["valid"]:
        return None if st != "ok" else f"{d['fn']}[{be}]: malformed operands were accepted"
    if st != "ok":
        return f"{d['fn']}[{be}]: raised on valid operands: {v}"
    ref = reference(d)
    if d["fn"] == "sample_khatri_rao":
        if not same(v[1], ref[1]):
            return f"sample_khatri_rao: sampled row indices {np.asarray(v[1]).tolist()} != row-major index of the sampled tuples {ref[1].tolist()}"
        if not same(v[0], ref[0]):
            return "sample_khatri_rao: sampled rows are not the rows of the full Khatri-Rao product at the returned indices"
        return None
    if np.asarray(v).shape != ref.shape:
        return f"{d['fn']}[{be}]: result shape {np.asarray(v).shape} != {ref.shape}"
    if not np.array_equal(np.asarray(v), ref):
        bad = np.argwhere(np.asarray(v) != ref)
        i = tuple(int(x) for x in bad[0]) if len(bad) else ()
        return f"{d['fn']}[{be}]: entry {i} is {np.asarray(v)[i]} but the index formula gives {ref[i]}"
    return None


def describe(d, be):
    return {"fn": d["fn"], "backend": be, "opts": {k: v for k, v in d["opts"].items() if k != "drawn"},
            "arrays": [np.asarray(a) for a in d["arrays"]], "valid": d["valid"]}


# ----------------------------------------------------------------------------- known-finding classifiers
# none: the two findings of round 1 (core inner n_modes=0; core tensordot with unsorted batched modes) were repaired in /repo
# (f5f06aa, 8cd4a39); their witnesses are regression cases in corpus/C02 and any recurrence is a VIOLATION.
# one open finding (round 9): core inner accepts n_modes beyond the order of tensor1 (classifier below; fix candidate
# build/fix_candidates/C02_inner_n_modes_beyond_order.diff).  All earlier findings were repaired in /repo (a6246d0 einsum multi_mode_dot repeated modes, 8b25fc6 size-1 broadcast, f5f06aa inner n_modes=0, 8cd4a39 tensordot batch order, 92eb2a5 negative modes of
# einsum mode_dot and of both multi_mode_dot); their witnesses are regression Examples / corpus cases and any recurrence is a VIOLATION.
def _clf_core_inner_beyond_order(f):
    """core inner accepting n_modes larger than the order of tensor1 (the wrapped-around slice); every other failing input of inner
    (a wrong value within the order, the einsum backend accepting, a malformed request of another kind) stays a VIOLATION"""
    inp = f.get("inputs") or {}
    o = inp.get("opts") or {}
    arrs = inp.get("arrays") or []
    n = o.get("n_modes")
    if not (inp.get("fn") == "inner" and inp.get("backend") == "core" and isinstance(n, int) and not isinstance(n, bool) and len(arrs) == 2):
        return False
    s1, s2 = tuple(np.asarray(arrs[0]).shape), tuple(np.asarray(arrs[1]).shape)
    L = len(s1)
    return n > L and s2 == s1[max(2 * L - n, 0):] and f.get("predicate") == "C02_index_formula"


CLASSIFIERS = {"core_inner_n_modes_beyond_order": _clf_core_inner_beyond_order}


def entry_point(d, be):
    if d["fn"] == "mttkrp":
        return "tensorly.tenalg.core_tenalg.mttkrp.unfolding_dot_khatri_rao_memory" if be == "memory" else "tensorly.tenalg.unfolding_dot_khatri_rao"
    if d["fn"] == "sample_khatri_rao":
        return "tensorly.decomposition.sample_khatri_rao"
    return f"tensorly.tenalg.{d['fn']}"


# ----------------------------------------------------------------------------- shards (local helper around common.run_case_shards)
SHARD = 300
RESOURCE_RCS = (-9, 137, 124, -15, 143)   # SIGKILL (OOM killer), timeout(1) exit codes, SIGTERM


def run_shards_robust(cases, shard=SHARD):
    """common.run_case_shards, plus: a shard whose coqc was killed by the OS (out of memory on the shared machine) or hit
    the shell timeout is re-run alone, up to two more times; if it still cannot be evaluated for lack of resources it is
    skipped (a timeout is never a violation).  A shard failing with a Coq error stays broken."""
    import re
    failing, n_eval, broken = C.run_case_shards("C02", HEADER, "case", cases, shard=shard)
    hard, skipped = [], []
    for b in broken:
        m = re.search(r"S(\d+)\.v$", b.get("shard", ""))
        if b.get("rc") not in RESOURCE_RCS or not m:
            hard.append(b)
            continue
        k = int(m.group(1))
        chunk = cases[k * shard:(k + 1) * shard]
        done = False
        for attempt in (1, 2):
            f2, n2, b2 = C.run_case_shards("C02", HEADER, "case", chunk, shard=shard, timeout=900, tag=f"retry{k}_{attempt}")
            if not b2:
                failing |= f2
                n_eval += n2
                done = True
                break
            if any(x.get("rc") not in RESOURCE_RCS for x in b2):
                hard.extend(b2)
                done = True
                break
        if not done:
            skipped.append(k)
    return failing, n_eval, hard, skipped


# ----------------------------------------------------------------------------- source tie (ast -> Gallina, every run)
def source_tie(chk):
    """regenerate the final_modes loop of core tensordot from the current tensorly source (harness/props/C02_ast.py) and re-prove,
    for all orders and mode lists, that it is Model.Tenalg.final_modes_loop; fail closed: a failed lemma or a source the
    translator cannot read is a broken tie (verdict); a coqc killed by the loaded machine is retried once, then noted"""
    import shutil, subprocess
    from harness.props import C02_ast
    d = os.path.join(C.BUILD, "gen", f"C02_{os.getpid()}"); os.makedirs(d, exist_ok=True)

    def coqc(name, text):
        fn = os.path.join(d, name)
        open(fn, "w").write(text)
        r = subprocess.run(["timeout", "300", "coqc", "-w", "none", "-R", os.path.join(C.COQ, "theories"), "TLV", fn], capture_output=True, text=True, cwd=d)
        if r.returncode == 0:
            return "proved", ""
        if r.returncode == 1 and "Error" in (r.stdout + r.stderr):
            return "failed", (r.stdout + r.stderr)[-900:]
        return "skipped", f"coqc rc {r.returncode} (killed / timeout)"
    try:
        status, detail, text = "failed", "", ""
        try:
            for swap in (False, True):     # the source may declare its two counters in either order
                text = C02_ast.generate(C.REPO, swap=swap)
                st, det = coqc(f"FinalModes{int(swap)}.v", text)
                if st == "skipped":
                    st, det = coqc(f"FinalModes{int(swap)}.v", text)
                if st == "proved":
                    status = "proved"; break
                if st == "skipped":
                    status = "skipped"; detail = det; break
                detail = det
        except C02_ast.Untranslatable as e:
            status = "broken (untranslatable source)"
            chk.broken.append({"what": "source tie final_modes_source_is_model broken: the ast -> Gallina translator does not cover the current "
                                       "for-loop building final_modes in core_tenalg/_batched_tensordot.py", "detail": str(e)})
        chk.checker_cmds.append("coqc on generated build/gen/C02_*/FinalModes*.v: final_modes_source_is_model (tensorly source -> Gallina)")
        if status == "failed":
            chk.broken.append({"what": "source-derived lemma final_modes_source_is_model failed: the final_modes loop of core tensordot in the tensorly "
                                       "source no longer computes Model.Tenalg.final_modes_loop (the final transpose C02_tensordot_core is proved about)",
                               "detail": detail + "\n--- generated ---\n" + "\n".join(l for l in text.splitlines() if l.startswith("  let '")) })
        elif status == "skipped":
            chk.notes.append("source tie final_modes_source_is_model skipped: " + detail)
        chk.cov["source_derived_lemmas"] = {"final_modes_source_is_model": status}
        # second tie: the einsum equation strings of every einsum-backend routine, regenerated from the current source (ast rewrite of
        # the routine's einsum call into a recorder, harness/props/C02_eqtie.py), equal the model's equations up to label renaming
        from harness.props import C02_eqtie
        est = "failed"
        try:
            inst, text = C02_eqtie.generate(C.REPO)
            fn = os.path.join(d, "EqTie.v"); open(fn, "w").write(text)
            for attempt in (1, 2):
                r = subprocess.run(["timeout", "300", "coqc", "-w", "none", "-R", os.path.join(C.COQ, "theories"), "TLV", fn], capture_output=True, text=True, cwd=d)
                if r.returncode in (0, 1):
                    break
            import re
            m = re.search(r"=\s*\((\d+)(?:%nat)?\s*,\s*\[([^\]]*)\]", r.stdout.replace("\n", " "))
            if r.returncode == 0 and m and int(m.group(1)) == len(inst):
                bad = [int(x.replace("%nat", "")) for x in m.group(2).split(";") if x.strip()]
                if not bad:
                    est = "checked"
                else:
                    chk.broken.append({"what": "source tie einsum_equations broken: the equation built by the current source differs from the model's equation "
                                               "(the one the index-formula theorems are proved about)", "detail": [inst[i][0] for i in bad[:8]]})
            elif r.returncode not in (0, 1):
                est = "skipped"; chk.notes.append(f"source tie einsum_equations skipped: coqc rc {r.returncode} (killed / timeout)")
            else:
                chk.broken.append({"what": "source tie einsum_equations: generated file rejected by coqc", "detail": (r.stdout + r.stderr)[-600:]})
            chk.cov["einsum_equation_instances"] = len(inst)
        except C02_eqtie.Untranslatable as e:
            est = "broken (untranslatable source)"
            chk.broken.append({"what": "source tie einsum_equations broken: the ast rewrite does not cover the current source of an einsum-backend routine", "detail": str(e)})
        chk.checker_cmds.append("coqc on generated build/gen/C02_*/EqTie.v: source einsum equations = model equations up to renaming (Proofs/TenalgProofsEq.v)")
        chk.cov["source_derived_lemmas"]["einsum_equations"] = est
        # third tie: the bodies of the core backend's mode_dot, multi_mode_dot, khatri_rao, kronecker, unfolding_dot_khatri_rao (+ memory), outer, batched_outer,
        # higher_order_moment and inner, translated from the current
        # source into Gallina (harness/props/C02_coretie.py), are proved equal to the model routines for all inputs
        from harness.props import C02_coretie
        from concurrent.futures import ThreadPoolExecutor
        texts = {}
        for _, routine, _, _ in C02_coretie.ROUTINES:
            thm = C02_coretie.THEOREMS[routine]
            try:
                texts[routine] = C02_coretie.generate(C.REPO, routine)
            except C02_coretie.Untranslatable as e:
                chk.cov["source_derived_lemmas"][thm] = "broken (untranslatable source)"
                chk.broken.append({"what": f"source tie {thm} broken: the ast -> Gallina translator does not cover the current source of core_tenalg {routine}",
                                   "detail": str(e)})

        def prove(routine):
            st, det = coqc(f"Core_{routine}.v", texts[routine])
            if st == "skipped":
                st, det = coqc(f"Core_{routine}.v", texts[routine])
            return routine, st, det
        with ThreadPoolExecutor(max_workers=max(1, min(4, C.NPROC))) as ex:
            outcomes = list(ex.map(prove, list(texts)))
        for routine, st, det in outcomes:
            thm = C02_coretie.THEOREMS[routine]
            chk.cov["source_derived_lemmas"][thm] = st
            if st == "failed":
                chk.broken.append({"what": f"source-derived theorem {thm} failed: core_tenalg {routine} in the tensorly source is no longer (provably) the model routine "
                                           "of Model/Tenalg.v that the index-formula theorems are about", "detail": det})
            elif st == "skipped":
                chk.notes.append(f"source tie {thm} skipped: {det}")
        # routing: under each tenalg backend every routine of the property is routed to the function of that name in the backend's
        # own file of the checked tree (the files the ties parse), and the callee names inside the translated core functions are
        # bound to the routines the translator reads them as
        try:
            rp = C02_coretie.routing(C.REPO)
        except Exception as e:          # fail closed
            rp = [f"routing check raised {type(e).__name__}: {e}"]
        chk.cov["source_derived_lemmas"]["routing"] = "checked" if not rp else "broken"
        if rp:
            chk.broken.append({"what": "source tie routing broken: a routine of the property is not routed to the source the ties translate", "detail": rp[:6]})
        chk.checker_cmds.append("coqc on generated build/gen/C02_*/Core_*.v: core mode_dot / multi_mode_dot / khatri_rao / kronecker / unfolding_dot_khatri_rao (+ memory variant on valid inputs) / outer / batched_outer (operands of order >= 1) / higher_order_moment (order >= 1, mean read as the sum) / inner (= the as-is model inner_as_is for every n_modes, or the documented routine once n_modes is validated) source = model routine, all inputs (tensorly source -> Gallina)")
    finally:
        shutil.rmtree(d, ignore_errors=True)


# ----------------------------------------------------------------------------- run
TIMEOUTS = []


def evaluate(d, chk=None):
    """run one descriptor under all its backends; returns [(backend, canonical output, predicate message)]"""
    res = []
    st, v = resolve_sample(d)
    if st != "ok":
        return [("core", (st, v), f"sample_khatri_rao raised: {v}")]
    for be in backends_of(d):
        out = canon(d, C.call_impl(impl_call(d, be), timeout=60))
        if out[0] == "crash" and out[1] == "timeout":
            TIMEOUTS.append((d["fn"], be))      # overloaded machine: skipped, never a verdict
            continue
        msg = predicate(d, be, out)
        if msg is None and out[0] == "ok" and d["fn"] != "sample_khatri_rao" and not is_intvalued(out[1]):
            msg = f"{d['fn']}[{be}]: non-integer output on integer operands"
        if msg is None and d["fn"] == "sample_khatri_rao" and d["opts"].get("drawn") is not None:
            kr, ikr = d["opts"]["drawn"]
            if not (same(kr, out[1][0]) and same(ikr, out[1][1])):
                msg = "sample_khatri_rao: the seeded call and the call with its returned indices_list disagree"
        res.append((be, out, msg))
    return res


def run(chk):
    C.load_known = _load_known_merged
    rng = random.Random(chk.seed)
    chk.build_proofs()
    source_tie(chk)
    C.reset_backends()
    cases, meta = [], []
    descs = []
    cdir = os.path.join(C.VERIF, "corpus", "C02")
    if os.path.isdir(cdir):
        for fn in sorted(os.listdir(cdir)):
            if fn.endswith(".json"):
                descs.append(from_payload_inputs(json.load(open(os.path.join(cdir, fn)))))
    descs += list(gen_descriptors(chk.tier, rng))
    for di, d in enumerate(descs):
        results = evaluate(d)
        if not results:
            continue
        cplx = any(np.iscomplexobj(a) for a in d["arrays"])
        nontrivial = any(np.asarray(a).size > 1 for a in d["arrays"])
        agree_ok = True
        for be, out, msg in results:
            key = (d["fn"], be, tuple(np.asarray(a).shape for a in d["arrays"]),
                   json.dumps({k: v for k, v in d["opts"].items() if k not in ("drawn", "seed")}, sort_keys=True, default=str), cplx)
            chk.count(key=key, nontrivial=nontrivial)
            chk.hist("function", d["fn"]); chk.hist("backend", be); chk.hist("outcome", out[0])
            chk.hist("values", "gaussian-integer complex128" if cplx else str(np.asarray(d["arrays"][0]).dtype))
            chk.hist("max_order", max(np.asarray(a).ndim for a in d["arrays"]))
            if msg:
                agree_ok = False
                chk.finding(entry_point(d, be), describe(d, be), msg, "C02_index_formula",
                            observed=(out[1] if out[0] == "ok" and not isinstance(out[1], tuple) else str(out[1])[:200]))
            # correspondence case(s): only integer-valued outputs can be written as literals
            if out[0] == "ok" and d["fn"] != "sample_khatri_rao" and not is_intvalued(out[1]):
                continue
            if d["fn"] == "sample_khatri_rao":
                o = d["opts"]
                il = list_of_nat_lists(o["indices_list"])
                if out[0] == "ok":
                    cid = len(cases)
                    cases.append(case_lit(cid, f"(OSampleRows {opt_nat(o['skip'])} {il} {o['n_samples']}%nat)", d["arrays"], ("ok", out[1][0]), False))
                    meta.append((d, be))
                    cid = len(cases)
                    cases.append(case_lit(cid, f"(OSampleIdx {opt_nat(o['skip'])} {il} {o['n_samples']}%nat)", d["arrays"], ("ok", out[1][1]), False))
                    meta.append((d, be))
                continue
            cid = len(cases)
            c_out = out
            if out[0] == "ok" and cplx and not np.iscomplexobj(out[1]):
                c_out = ("ok", np.asarray(out[1]).astype(np.complex128))
            try:
                oplit = coq_ops(d, be)
                if (d["fn"] == "inner" and be == "core" and out[0] == "ok" and isinstance(d["opts"]["n_modes"], int)
                        and d["opts"]["n_modes"] > np.asarray(d["arrays"][0]).ndim):
                    # the code accepted n_modes beyond the order of tensor1 (known finding): the returned tensor must then be what the
                    # model of the code AS IT IS computes; a rejection (the repaired behaviour) goes to the documented routine above
                    oplit = f"(OInnerAsIs {d['opts']['n_modes']}%nat)"
            except ValueError as e:   # a broken tie, never ignored
                chk.broken.append({"what": "corr:C02 argument form not translatable to the model", "detail": str(e)})
                continue
            cases.append(case_lit(cid, oplit, d["arrays"], c_out, cplx or (out[0] == "ok" and np.iscomplexobj(out[1]))))
            meta.append((d, be))
            if d["fn"] == "multi_mode_dot" and d["opts"]["modes"] is None and di % 3 == 0:
                # a third of the modes=None calls also go to the natural-number routines (modes = None) of the index-formula theorems
                cid = len(cases)
                nat_lit = f"(OMulti {C.boolc(be == 'einsum')} None {opt_nat(d['opts']['skip'])} {C.boolc(d['opts']['transpose'])})"
                cases.append(case_lit(cid, nat_lit, d["arrays"], c_out, cplx or (out[0] == "ok" and np.iscomplexobj(out[1]))))
                meta.append((d, be))
        # the two backends (and the memory variant) return the same tensor
        oks = [(be, out[1]) for be, out, _ in results if out[0] == "ok" and not isinstance(out[1], tuple)]
        sts = {out[0] == "ok" for _, out, _ in results}
        chk.cov["evaluations"] += 1
        if agree_ok and (d["valid"] is not None or d["opts"].get("must_agree")) and (len(sts) > 1 or any(not same(oks[0][1], v) for _, v in oks[1:])):
            chk.finding(entry_point(d, "core"), describe(d, "all"), f"{d['fn']}: backends {[b for b, _ in oks]} disagree", "C02_backends_agree")
        if di % 701 == 0:
            be, out, msg = results[0]
            chk.sample({"function": d["fn"], "backend": be, "options": {k: v for k, v in d["opts"].items() if k != "drawn"},
                        "operand_shapes": [list(np.asarray(a).shape) for a in d["arrays"]], "outcome": out[0],
                        "output": (np.asarray(out[1]).tolist() if out[0] == "ok" and not isinstance(out[1], tuple) and np.asarray(out[1]).size <= 12 and not np.iscomplexobj(out[1]) else str(out[1])[:120])})
    C.reset_backends()
    failing, n_eval, broken, skipped_shards = run_shards_robust(cases, shard=SHARD)
    if skipped_shards:
        chk.notes.append(f"{len(skipped_shards)} correspondence shard(s) of {SHARD} cases were killed by the OS / timed out three times "
                         f"(machine out of memory or overloaded) and are counted as skipped, not as disagreements: {skipped_shards}")
    chk.cov["shards_skipped_for_resources"] = len(skipped_shards)
    chk.cov["implementation_calls_skipped_for_timeout"] = len(TIMEOUTS)
    chk.checker_cmds.append("coqc (vm_compute) on generated build/cases/C02/*.v: Corr.C02.failing")
    chk.cov["traces_validated_against_impl"] = n_eval
    chk.cov["exhaustive"] = False
    chk.cov["rule"] = ("mode_dot and MTTKRP: every shape of order 2-4 over mode sizes {1,2,3} x every mode x {matrix, vector, transposed} / weights on-off "
                       "(quick thins order-4 MTTKRP); multi_mode_dot: those shapes x modes in {None, sorted, reversed, partial, shuffled} x skip in {None, each operand} "
                       "with random matrix/vector kinds and transpose; khatri_rao: every row tuple of 1-3 matrices over {1,2,3} x weights x mask x skip; kronecker, inner, "
                       "outer, batched_outer, batched tensordot (all contraction/batch selections up to two modes each, paired in arbitrary order; the int / negative / scalar-pair / flat argument forms and malformed requests in those forms), higher_order_moment, "
                       "sample_khatri_rao: structured random streams from the single seeded PRNG; operands are integer valued (float64/int64) or Gaussian integers (complex128), "
                       "every case under the core and the einsum backend (MTTKRP also the memory variant); distinct key = (function, backend, operand shapes, options, real/complex); "
                       "non-trivial = some operand has more than one entry")
    for b in broken:
        chk.broken.append({"what": "correspondence corr:C02 shard not evaluated", "detail": b})
    for i in sorted(failing):
        d, be = meta[i]
        chk.disagreement("corr:C02 (Model/Tenalg.v vs tensorly/tenalg)", describe(d, be))
    chk.assumptions = ["np.dot / np.kron / np.einsum / broadcasting multiply / reshape / transpose behave as modelled at index level in Model/Tenalg.v and Base/Tensor.v (checked on this run's cases)",
                       "floating-point rounding is outside the model; integer-valued operands keep every partial sum far below 2^53 so the comparison is exact",
                       "size-0 modes, khatri_rao of 1-D operands, higher_order_moment of order 0 (the code returns the mean, the model rejects), weights / masks that NumPy broadcasts in a degenerate way (weights longer than a single column R = 1, masks with size-1 axes or a flat mask under the einsum backend, which the core backend accepts and np.einsum rejects) are outside the model and not generated; the int / negative / scalar / flat forms of tensordot's modes and batched_modes go to the model in the form given to the code (Model/Tenalg.v validate_contraction mirrors tenalg_utils._validate_contraction_modes; an untranslatable form is reported as a broken tie); repeated modes ARE generated on every run: multi_mode_dot naming a mode on several matrix operands (successive product, with a reference value), on vector operands and mixes (no textbook value is claimed: the literal Python-int models of both backends must reproduce the code and the two backends must agree), and tensordot naming a mode of one tensor twice (seven fixed requests, correspondence only: the core backend rejects, np.einsum takes the diagonal, the backends are not required to agree); inner with n_modes beyond the order of tensor1 is generated as a malformed request (core's acceptance of the wrapped-around slice is the known finding core_inner_n_modes_beyond_order; a returned tensor is compared with Model/TenalgRaw.v inner_as_is); negative n_modes of inner, bool / NumPy-integer mode arguments are not generated"]
    chk.trusted = ["explicit-loop NumPy reference formulas in harness/props/C02.py (spec-side transcription used by the Python predicate)",
                   "higher_order_moment is compared as n_samples * moment (the division by n_samples is checked to be integer-exact to 1e-9)"]
    return chk.finish(CLASSIFIERS)


# ----------------------------------------------------------------------------- replay
def from_payload_inputs(p):
    inp = p["inputs"] if "inputs" in p else p
    arrays = [C.from_jsonable_array(a) for a in inp["arrays"]]
    return {"fn": inp["fn"], "arrays": arrays, "opts": dict(inp["opts"]), "valid": inp.get("valid", True)}


def replay(payload):
    if payload.get("kind") != "failing-input":
        print("replay file names a broken theorem/correspondence, not an input:", payload.get("theorem_or_correspondence"))
        return 1
    d = from_payload_inputs(payload)
    want = payload["inputs"].get("backend", "all")
    C.reset_backends()
    results = evaluate(d)
    bad = [(be, msg) for be, out, msg in results if msg and want in ("all", be)]
    oks = [(be, out[1]) for be, out, _ in results if out[0] == "ok" and not isinstance(out[1], tuple)]
    if not bad and want == "all" and (len({o[0] == "ok" for _, o, _ in results}) > 1 or any(not same(oks[0][1], v) for _, v in oks[1:])):
        bad = [("all", "backends disagree")]
    C.reset_backends()
    for be, msg in bad:
        print("replay:", msg)
    if not bad:
        print("replay: holds")
    return 1 if bad else 0
