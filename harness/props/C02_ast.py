"""C02 source tie: the final_modes loop of core_tenalg._batched_tensordot.tensordot is translated from the CURRENT Python source
(ast) into a Gallina step function on every run, and a generated lemma re-proves, for ALL orders and mode lists (induction over
the range), that it computes Model.Tenalg.final_modes_loop - the book-keeping C02_tensordot_core's final transpose is proved
about.  Fail closed: a construct the translator does not cover raises Untranslatable (reported as a broken tie)."""
import ast, os

# spellings of "the order of tensor1" accepted as the loop bound; list-valued names of the source and their model counterparts
ORDER_SPELLINGS = {"tl.ndim(tensor1)", "T.ndim(tensor1)", "tensor1.ndim", "len(tl.shape(tensor1))", "len(tensor1.shape)",
                   "len(T.shape(tensor1))", "order_t1", "ndim1"}
LIST_PARAMS = {"modes1": "m1", "batch_modes1": "b1"}


class Untranslatable(Exception):
    pass


def _u(node):
    return ast.unparse(node)


class Translator:
    def __init__(self, fn):
        self.fn = fn
        loops = [s for s in fn.body if isinstance(s, ast.For)
                 and any(isinstance(c, ast.Call) and isinstance(c.func, ast.Attribute) and c.func.attr == "append" for c in ast.walk(s))]
        if len(loops) != 1:
            raise Untranslatable(f"expected exactly one top-level for-loop appending to a list in tensordot, found {len(loops)}")
        self.loop = loops[0]
        if self.loop.orelse:
            raise Untranslatable("for ... else")
        if not isinstance(self.loop.target, ast.Name):
            raise Untranslatable("loop target " + _u(self.loop.target))
        self.ivar = self.loop.target.id
        it = self.loop.iter
        if not (isinstance(it, ast.Call) and isinstance(it.func, ast.Name) and it.func.id == "range" and len(it.args) == 1 and not it.keywords):
            raise Untranslatable("loop iterator " + _u(it))
        self.before = fn.body[:fn.body.index(self.loop)]
        bound = it.args[0]
        if _u(bound) not in ORDER_SPELLINGS:
            raise Untranslatable("loop bound " + _u(bound))
        if isinstance(bound, ast.Name):       # a name: it must have been bound to one of the spellings
            src = self._last_assign(bound.id)
            if src is None or _u(src) not in ORDER_SPELLINGS - {bound.id}:
                raise Untranslatable("loop bound name " + bound.id)
        # state variables: everything assigned / appended to inside the loop
        self.lists, self.counters = [], []
        for n in ast.walk(self.loop):
            if isinstance(n, ast.Call) and isinstance(n.func, ast.Attribute) and n.func.attr == "append" and isinstance(n.func.value, ast.Name):
                self._add(self.lists, n.func.value.id)
        for n in ast.walk(self.loop):
            if isinstance(n, (ast.Assign, ast.AugAssign)):
                for t in (n.targets if isinstance(n, ast.Assign) else [n.target]):
                    if not isinstance(t, ast.Name):
                        raise Untranslatable("assignment target " + _u(t))
                    if t.id not in self.lists:
                        self._add(self.counters, t.id)
        if len(self.lists) != 1 or len(self.counters) != 2:
            raise Untranslatable(f"state variables: lists {self.lists}, counters {self.counters} (expected one list and two counters)")
        self.state = self.lists + self.counters

    @staticmethod
    def _add(l, x):
        if x not in l:
            l.append(x)

    def _last_assign(self, name):
        val = None
        for s in self.before:
            for n in ast.walk(s):
                if isinstance(n, ast.Assign) and any(isinstance(t, ast.Name) and t.id == name for t in n.targets):
                    if s is not n:
                        raise Untranslatable(f"{name} assigned inside a compound statement before the loop")
                    val = n.value
                elif isinstance(n, ast.AugAssign) and isinstance(n.target, ast.Name) and n.target.id == name:
                    raise Untranslatable(f"{name} updated before the loop")
        return val

    # ---- expressions (nat valued) over an environment {python name -> Gallina text}
    def nat(self, e, env, depth=0):
        if depth > 8:
            raise Untranslatable("let chain too deep")
        if isinstance(e, ast.Constant) and isinstance(e.value, int) and not isinstance(e.value, bool) and e.value >= 0:
            return f"{e.value}"
        if isinstance(e, ast.Name):
            if e.id in env:
                return env[e.id]
            if e.id == self.ivar:
                return "i"
            src = self._last_assign(e.id)     # a name bound once before the loop (e.g. n_batches = len(batch_modes1)): inlined
            if src is None:
                raise Untranslatable("free name " + e.id)
            return self.nat(src, {}, depth + 1)
        if isinstance(e, ast.BinOp) and isinstance(e.op, (ast.Add, ast.Mult)):
            op = "+" if isinstance(e.op, ast.Add) else "*"
            return f"({self.nat(e.left, env, depth)} {op} {self.nat(e.right, env, depth)})"
        if isinstance(e, ast.Call) and isinstance(e.func, ast.Name) and e.func.id == "len" and len(e.args) == 1 and not e.keywords:
            return f"(length {self.lst(e.args[0])})"
        raise Untranslatable("expression " + _u(e))

    def lst(self, e):
        if isinstance(e, ast.Name) and e.id in LIST_PARAMS:
            return LIST_PARAMS[e.id]
        if isinstance(e, ast.BinOp) and isinstance(e.op, ast.Add):
            return f"({self.lst(e.left)} ++ {self.lst(e.right)})"
        raise Untranslatable("list expression " + _u(e))

    def cond(self, e):
        if isinstance(e, ast.Compare) and len(e.ops) == 1 and isinstance(e.left, ast.Name) and e.left.id == self.ivar:
            if isinstance(e.ops[0], ast.In):
                return f"(memb i {self.lst(e.comparators[0])})"
            if isinstance(e.ops[0], ast.NotIn):
                return f"(negb (memb i {self.lst(e.comparators[0])}))"
        if isinstance(e, ast.UnaryOp) and isinstance(e.op, ast.Not):
            return f"(negb {self.cond(e.operand)})"
        if isinstance(e, ast.BoolOp):
            op = "&&" if isinstance(e.op, ast.And) else "||"
            return "(" + f" {op} ".join(self.cond(v) for v in e.values) + ")"
        raise Untranslatable("condition " + _u(e))

    # ---- one iteration: path-splitting symbolic execution (continue ends the path)
    def run(self, stmts, env):
        if not stmts:
            return self.tuple_of(env)
        s, rest = stmts[0], stmts[1:]
        if isinstance(s, ast.Continue):
            return self.tuple_of(env)
        if isinstance(s, ast.Pass):
            return self.run(rest, env)
        if isinstance(s, ast.If):
            return f"(if {self.cond(s.test)} then {self.run(list(s.body) + rest, dict(env))} else {self.run(list(s.orelse) + rest, dict(env))})"
        if isinstance(s, ast.Expr) and isinstance(s.value, ast.Call) and isinstance(s.value.func, ast.Attribute) and s.value.func.attr == "append":
            c = s.value
            if not (isinstance(c.func.value, ast.Name) and c.func.value.id in self.lists and len(c.args) == 1 and not c.keywords):
                raise Untranslatable("append " + _u(s))
            env = dict(env); env[c.func.value.id] = f"({env[c.func.value.id]} ++ [{self.nat(c.args[0], env)}])"
            return self.run(rest, env)
        if isinstance(s, ast.AugAssign) and isinstance(s.op, ast.Add) and isinstance(s.target, ast.Name) and s.target.id in self.counters:
            env = dict(env); env[s.target.id] = f"({env[s.target.id]} + {self.nat(s.value, env)})"
            return self.run(rest, env)
        if isinstance(s, ast.Assign) and len(s.targets) == 1 and isinstance(s.targets[0], ast.Name) and s.targets[0].id in self.counters:
            env = dict(env); env[s.targets[0].id] = self.nat(s.value, env)
            return self.run(rest, env)
        raise Untranslatable("statement " + _u(s))

    def tuple_of(self, env):
        return "(" + ", ".join(env[v] for v in self.state) + ")"

    def init(self):
        out = []
        for v in self.state:
            src = self._last_assign(v)
            if src is None:
                raise Untranslatable(f"{v} is not initialised before the loop")
            if v in self.lists:
                if not (isinstance(src, ast.List) and not src.elts):
                    raise Untranslatable(f"initial value of {v}: " + _u(src))
                out.append("[]")
            else:
                out.append(self.nat(src, {}))
        return out


HEADER = """From Coq Require Import List Arith Lia Bool. Import ListNotations.
From TLV Require Import Base.PyList Model.Tenalg.
"""


def generate(repo, swap=False):
    """Gallina text: the regenerated step function + the lemma tying it to Model.Tenalg.final_modes_loop.
    swap: which of the two counters plays the batch counter (the source may declare them in either order)."""
    path = os.path.join(repo, "tensorly", "tenalg", "core_tenalg", "_batched_tensordot.py")
    tree = ast.parse(open(path).read())
    fn = next((n for n in tree.body if isinstance(n, ast.FunctionDef) and n.name == "tensordot"), None)
    if fn is None:
        raise Untranslatable("no function tensordot in " + path)
    tr = Translator(fn)
    names = {tr.state[0]: "fm", tr.state[1]: "c1", tr.state[2]: "c2"}
    body = tr.run(list(tr.loop.body), dict(names))
    init = tr.init()
    if init[0] != "[]" or init[1] != "0" or init[2] != "0":
        raise Untranslatable(f"initial state {init}")
    bc, fc = ("c2", "c1") if swap else ("c1", "c2")
    return HEADER + f"""
(* regenerated from the for-loop over {_u(tr.loop.iter)} in tensorly/tenalg/core_tenalg/_batched_tensordot.py;
   state = ({', '.join(tr.state)}) *)
Definition fm_step (m1 b1 : list nat) (st : list nat * nat * nat) (i : nat) : list nat * nat * nat :=
  let '(fm, c1, c2) := st in {body}.
Definition final_modes_py (n : nat) (m1 b1 : list nat) : list nat :=
  fst (fst (fold_left (fm_step m1 b1) (seq 0 n) ([], 0, 0))).
Lemma fm_step_eq m1 b1 fm c1 c2 i : fm_step m1 b1 (fm, c1, c2) i = {body}.
Proof. reflexivity. Qed.
Lemma fm_fold m1 b1 : forall l fm c1 c2,
  fst (fst (fold_left (fm_step m1 b1) l (fm, c1, c2))) = fm ++ final_modes_loop l m1 b1 (length b1) {bc} {fc}.
Proof.
  induction l as [|i l IH]; intros fm c1 c2; [cbn; now rewrite app_nil_r|].
  cbn [fold_left final_modes_loop]. rewrite fm_step_eq.
  repeat match goal with |- context [memb ?a ?b] => destruct (memb a b) eqn:? end; cbn [negb andb orb];
    try discriminate; rewrite IH; rewrite <- ?app_assoc; cbn [app]; rewrite ?Nat.add_1_r, ?Nat.add_0_r;
    try reflexivity; repeat (f_equal; try lia).
Qed.
Theorem final_modes_source_is_model : forall n m1 b1,
  final_modes_py n m1 b1 = final_modes_loop (seq 0 n) m1 b1 (length b1) 0 0.
Proof. intros. unfold final_modes_py. now rewrite fm_fold. Qed.
"""
