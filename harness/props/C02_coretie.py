"""C02 source tie for the core backend: the bodies of core_tenalg.multi_mode_dot, kronecker and unfolding_dot_khatri_rao are
translated from the CURRENT Python source (ast) into Gallina over the vocabulary of Model/Tenalg.v + Proofs/TenalgProofsSrc.v on
every run (symbolic execution with path splitting: assignments -> let, raising calls -> the result monad, a for-loop -> fold_res
of a regenerated step function over the loop state, `x is None` -> match), and generated theorems re-prove, for ALL inputs, that
the regenerated routine is the hand-written model routine the index-formula theorems are about.  Fail closed: a construct the
translator does not cover raises Untranslatable (reported as a broken tie); a regenerated term the proof script cannot identify
with the model is a failed lemma (broken tie)."""
import ast, os

T, LT, Z, N, B, ON, OT, OLZ, LZ, LN, L3, PAIR_OT_LT = "T", "LT", "Z", "N", "B", "ON", "OT", "OLZ", "LZ", "LN", "L3", "CP"
GT = {T: "tensor F", LT: "list (tensor F)", Z: "Z", N: "nat", B: "bool", ON: "option nat", OT: "option (tensor F)",
      OLZ: "option (list Z)", LZ: "list Z", LN: "list nat", L3: "list (tensor F * Z * nat)", PAIR_OT_LT: "(option (tensor F) * list (tensor F))"}
OPTION_OF = {ON: N, OT: T, OLZ: LZ}
ELEM = {LT: T, LZ: Z, LN: N}
BACKEND_ALIASES = ("T", "tl")


class Untranslatable(Exception):
    pass


def _u(n):
    return ast.unparse(n)


def V(name):
    return "v_" + name


class Var:
    def __init__(self, ty, const=None, maybe=False, cell=None, present=False, absent=False, sym=None):
        self.ty, self.const, self.maybe, self.cell = ty, const, maybe, cell
        self.absent, self.sym = absent, sym    # absent: an optional parameter known to be None here; sym: a symbolic value (no Gallina term)
        self.present = present
        self.alias = None          # Gallina name holding the value once a possibly-unbound local has been read (py_get)    # an optional parameter inside the branch where it is known not to be None   # maybe: the Gallina variable holds an option (possibly unbound local)

    def copy(self):
        return Var(self.ty, self.const, self.maybe, self.cell)


class Fn:
    def __init__(self, fn, params, ret):
        self.fn, self.params, self.ret = fn, params, ret
        self.n = 0

    def fresh(self):
        self.n += 1
        return f"h{self.n}"

    # ------------------------------------------------------------------ coercions
    def coerce(self, text, ty, want):
        if ty == want:
            return text
        if (ty, want) == (N, Z):
            return f"(Z.of_nat {text})"
        if (ty, want) == (LN, LZ):
            return f"(map Z.of_nat {text})"
        if (ty, want) == (N, ON):
            return f"(Some {text})"
        if ty == "NONE" and want in OPTION_OF:
            return "None"
        if ty == "EMPTY" and want in (LN, LZ, LT):
            return "[]"
        raise Untranslatable(f"type {ty} where {want} is needed: {text}")

    def is_backend(self, f, name):
        return isinstance(f, ast.Attribute) and isinstance(f.value, ast.Name) and f.value.id in BACKEND_ALIASES and f.attr == name

    def is_name_call(self, e, name):
        return isinstance(e, ast.Call) and isinstance(e.func, ast.Name) and e.func.id == name

    # ------------------------------------------------------------------ expressions: (text, type); raising calls are hoisted into pre
    def expr(self, e, env, pre):
        if isinstance(e, ast.Constant):
            if e.value is None:
                return "None", "NONE"
            if isinstance(e.value, bool):
                return ("true" if e.value else "false"), B
            if isinstance(e.value, int):
                return f"({e.value})%Z", Z
            raise Untranslatable("constant " + _u(e))
        if isinstance(e, ast.Name):
            if e.id not in env:
                raise Untranslatable("free name " + e.id)
            v = env[e.id]
            if v.sym is not None:
                return v.sym, "SYM"
            if v.absent:
                return "None", "NONE"
            if v.maybe:
                if v.cell.get("ty") is None:
                    raise Untranslatable(f"{e.id} read before its type is known")
                h = self.fresh()
                pre.append((h, f"py_get {V(e.id)}"))
                nv = Var(v.cell["ty"], None, False, v.cell); nv.alias = h
                env[e.id] = nv             # later reads on this path reuse the value
                return h, v.cell["ty"]
            return (v.alias or V(e.id)), v.ty
        if isinstance(e, ast.UnaryOp) and isinstance(e.op, ast.USub):
            if isinstance(e.operand, ast.Constant) and isinstance(e.operand.value, int) and not isinstance(e.operand.value, bool):
                return f"(-{e.operand.value})%Z", Z
            t, ty = self.expr(e.operand, env, pre)
            return f"(- {self.coerce(t, ty, Z)})%Z", Z
        if isinstance(e, ast.UnaryOp) and isinstance(e.op, ast.Not):
            t, ty = self.expr(e.operand, env, pre)
            if ty == B:
                return f"(negb {t})", B
            if ty == N:
                return f"(Nat.eqb {t} 0)", B
            if ty == Z:
                return f"(Z.eqb {t} 0)", B
            raise Untranslatable("truth value of " + _u(e.operand))
        if isinstance(e, ast.Tuple) and e.elts and not any(isinstance(x, ast.Starred) for x in e.elts):
            # a tuple of natural numbers (a shape): (1,), (n_samples,)
            items = []
            for x in e.elts:
                t, ty = self.expr(x, env, pre)
                if ty == Z and t.startswith("(") and t.endswith(")%Z") and t[1:-3].isdigit():
                    t, ty = t[1:-3], N
                if ty != N:
                    raise Untranslatable("tuple element " + _u(x))
                items.append(t)
            return "[" + "; ".join(items) + "]", LN
        if isinstance(e, ast.BinOp) and isinstance(e.op, (ast.Add, ast.Sub, ast.Mult)):
            a, ta = self.expr(e.left, env, pre)
            b, tb = self.expr(e.right, env, pre)
            if isinstance(e.op, ast.Mult) and ta == LN and isinstance(e.left, ast.Tuple) and len(e.left.elts) == 1 and tb in (N, Z):
                # (x,) * n: n copies, none when n <= 0
                return f"(repeat {a[1:-1]} {b if tb == N else '(Z.to_nat ' + b + ')'})", LN
            if isinstance(e.op, ast.Add) and ta == LN and tb == LN:
                return f"({a} ++ {b})", LN
            if isinstance(e.op, ast.Mult) and ta == T and tb == T:
                h = self.fresh(); pre.append((h, f"bcast_mul Op {a} {b}"))       # NumPy's broadcasting multiply (same rank), may raise
                return h, T
            if isinstance(e.op, ast.Mult) and ta == T and tb == "SYM" and b[0] in ("ROWVEC", "COLVEC"):
                # X * reshape(w, (1, -1)) / X * reshape(m, (-1, 1)) for a 2-D X: the model's broadcasts apply_w / apply_mask
                h = self.fresh(); pre.append((h, f"{'apply_w' if b[0] == 'ROWVEC' else 'apply_mask'} Op (Some {b[1]}) {a}"))
                return h, T
            if isinstance(e.op, ast.Mult) and ta == T and tb == Z and (b == "(1)%Z" or (isinstance(e.right, ast.Name) and env[e.right.id].const == 1)):
                return a, T
            if isinstance(e.op, ast.Mult) and ta == "SYM" and tb == "SYM" and a[0] == "COLBLOCK" and b[0] == "ROWBLOCK":
                return ("KRPROD", a[1], b[1]), "SYM"
            if ta == N and tb == N and not isinstance(e.op, ast.Sub):
                return f"({a} {'+' if isinstance(e.op, ast.Add) else '*'} {b})", N
            op = {ast.Add: "+", ast.Sub: "-", ast.Mult: "*"}[type(e.op)]
            return f"({self.coerce(a, ta, Z)} {op} {self.coerce(b, tb, Z)})%Z", Z
        if isinstance(e, ast.BoolOp):
            parts = []
            for v in e.values:
                t, ty = self.expr(v, env, pre)
                if ty != B:
                    raise Untranslatable("non-boolean operand of and/or: " + _u(v))
                parts.append(t)
            return "(" + (" && " if isinstance(e.op, ast.And) else " || ").join(parts) + ")", B
        if isinstance(e, ast.Compare):
            return self.compare(e, env, pre)
        if isinstance(e, ast.IfExp):
            c, tc = self.expr(e.test, env, pre)
            if tc != B:
                raise Untranslatable("condition " + _u(e.test))
            if c in ("true", "false"):
                return self.expr(e.body if c == "true" else e.orelse, env, pre)
            p2, p3 = [], []
            a, ta = self.expr(e.body, env, p2)
            b, tb = self.expr(e.orelse, env, p3)
            if p2 or p3:
                raise Untranslatable("raising call inside a conditional expression: " + _u(e))
            ty = ta if ta == tb else Z
            return f"(if {c} then {self.coerce(a, ta, ty)} else {self.coerce(b, tb, ty)})", ty
        if isinstance(e, ast.Attribute) and e.attr == "shape":
            t, ty = self.expr(e.value, env, pre)
            if ty != T:
                raise Untranslatable("shape of " + _u(e.value))
            return f"(shape {t})", LN
        if isinstance(e, ast.List) and e.elts and not any(isinstance(x, ast.Starred) for x in e.elts):
            items = [self.arg(x, env, pre, T) for x in e.elts]       # a list of arrays
            return "[" + "; ".join(items) + "]", LT
        if isinstance(e, (ast.Tuple, ast.List)) and not e.elts:
            return "[]", "EMPTY"
        if isinstance(e, ast.Call):
            return self.call(e, env, pre)
        if isinstance(e, ast.Subscript):
            return self.subscript(e, env, pre)
        if isinstance(e, ast.ListComp):
            return self.listcomp(e, env, pre)
        raise Untranslatable("expression " + _u(e))

    def compare(self, e, env, pre):
        parts = []
        left = e.left
        for op, right in zip(e.ops, e.comparators):
            if isinstance(op, (ast.Is, ast.IsNot)):
                if (isinstance(right, ast.Constant) and right.value is None and isinstance(left, ast.Name)
                        and left.id in env and (env[left.id].present or env[left.id].absent)):
                    parts.append(("false" if isinstance(op, ast.Is) else "true") if env[left.id].present else ("true" if isinstance(op, ast.Is) else "false"))
                    left = right
                    continue
                if not (isinstance(right, ast.Constant) and right.value is None and isinstance(left, ast.Name)
                        and left.id in env and env[left.id].ty in OPTION_OF and not env[left.id].maybe):
                    raise Untranslatable("identity test " + _u(e))
                parts.append(f"({'py_is_none' if isinstance(op, ast.Is) else 'py_is_not_none'} {V(left.id)})")
                left = right
                continue
            a, ta = self.expr(left, env, pre)
            b, tb = self.expr(right, env, pre)
            if isinstance(op, (ast.Eq, ast.NotEq)) and ta == LN and tb == LN:
                parts.append(f"(nat_list_eq {a} {b})" if isinstance(op, ast.Eq) else f"(negb (nat_list_eq {a} {b}))")    # shapes compared entry by entry
                left = right
                continue
            if isinstance(op, (ast.Eq, ast.NotEq)) and {ta, tb} == {N, ON}:
                i, o = (a, b) if ta == N else (b, a)
                parts.append(f"({'py_eq_opt' if isinstance(op, ast.Eq) else 'py_ne_opt'} {i} {o})")
            elif ta in (N, Z) and tb in (N, Z):
                if ta == N and tb == Z and b.startswith("(") and b.endswith(")%Z") and b[1:-3].isdigit():
                    b, tb = b[1:-3], N              # a non-negative literal compared with a nat
                if tb == N and ta == Z and a.startswith("(") and a.endswith(")%Z") and a[1:-3].isdigit():
                    a, ta = a[1:-3], N
                if ta == N and tb == N:
                    f = {ast.Eq: "Nat.eqb {a} {b}", ast.NotEq: "negb (Nat.eqb {a} {b})", ast.Lt: "Nat.ltb {a} {b}", ast.LtE: "Nat.leb {a} {b}",
                         ast.Gt: "Nat.ltb {b} {a}", ast.GtE: "Nat.leb {b} {a}"}.get(type(op))
                else:
                    a, b = self.coerce(a, ta, Z), self.coerce(b, tb, Z)
                    f = {ast.Eq: "Z.eqb {a} {b}", ast.NotEq: "negb (Z.eqb {a} {b})", ast.Lt: "Z.ltb {a} {b}", ast.LtE: "Z.leb {a} {b}",
                         ast.Gt: "Z.ltb {b} {a}", ast.GtE: "Z.leb {b} {a}"}.get(type(op))
                if f is None:
                    raise Untranslatable("comparison " + _u(e))
                parts.append("(" + f.format(a=a, b=b) + ")")
            else:
                raise Untranslatable("comparison " + _u(e))
            left = right
        return parts[0] if len(parts) == 1 else "(" + " && ".join(parts) + ")", B

    def kwargs(self, c, names, required):
        """positional + keyword arguments of a call by parameter name"""
        out = {}
        if len(c.args) > len(names):
            raise Untranslatable("too many arguments: " + _u(c))
        for n, a in zip(names, c.args):
            out[n] = a
        for k in c.keywords:
            if k.arg not in names or k.arg in out:
                raise Untranslatable("keyword argument: " + _u(c))
            out[k.arg] = k.value
        for n in names[:required]:
            if n not in out:
                raise Untranslatable("missing argument " + n + ": " + _u(c))
        return out

    def arg(self, node, env, pre, want, default=None):
        if node is None:
            return default
        t, ty = self.expr(node, env, pre)
        return self.coerce(t, ty, want)

    def call(self, c, env, pre):
        f = c.func
        if self.is_backend(f, "ndim") and len(c.args) == 1 and not c.keywords:
            return f"(ndim {self.arg(c.args[0], env, pre, T)})", N
        if self.is_backend(f, "shape") and len(c.args) == 1 and not c.keywords:
            return f"(shape {self.arg(c.args[0], env, pre, T)})", LN
        if self.is_backend(f, "conj") and len(c.args) == 1 and not c.keywords:
            return f"(conj_t Op {self.arg(c.args[0], env, pre, T)})", T
        if self.is_backend(f, "transpose") and len(c.args) == 1 and not c.keywords:
            return f"(transpose_rev Op {self.arg(c.args[0], env, pre, T)})", T
        if (self.is_backend(f, "tensor") and len(c.args) == 1 and len(c.keywords) == 1 and c.keywords[0].arg is None
                and isinstance(c.keywords[0].value, ast.Call) and self.is_backend(c.keywords[0].value.func, "context")
                and len(c.keywords[0].value.args) == 1 and not c.keywords[0].value.keywords):
            self.arg(c.keywords[0].value.args[0], env, pre, T)          # evaluated (may raise), value = dtype / device only
            return self.arg(c.args[0], env, pre, T), T
        if self.is_backend(f, "reshape") and len(c.args) == 2 and not c.keywords and not isinstance(c.args[1], ast.Tuple):
            x = self.arg(c.args[0], env, pre, T)
            sh = self.arg(c.args[1], env, pre, LN)
            h = self.fresh(); pre.append((h, f"np_reshape {x} {sh}"))          # ValueError unless the sizes agree
            return h, T
        if self.is_backend(f, "reshape") and len(c.args) == 2 and not c.keywords and isinstance(c.args[1], ast.Tuple):
            x, tx = self.expr(c.args[0], env, pre)
            dims = c.args[1].elts
            lit = [(-d.operand.value if isinstance(d, ast.UnaryOp) and isinstance(d.op, ast.USub) and isinstance(d.operand, ast.Constant) else
                    d.value if isinstance(d, ast.Constant) else None) for d in dims]
            if tx == T and lit == [1, -1]:
                return ("ROWVEC", x), "SYM"
            if tx == T and lit == [-1, 1]:
                return ("COLVEC", x), "SYM"

            def dim_of(d):
                return env[d.id].sym if isinstance(d, ast.Name) and d.id in env and env[d.id].sym is not None and env[d.id].sym[0] == "DIM" else None
            if tx == T and len(dims) == 3 and lit[1] == 1 and dim_of(dims[0]) == ("DIM", x, 0) and dim_of(dims[2]) == ("DIM", x, 1):
                return ("COLBLOCK", x), "SYM"
            if tx == T and len(dims) == 3 and lit[0] == 1 and dim_of(dims[1]) == ("DIM", x, 0) and dim_of(dims[2]) == ("DIM", x, 1):
                return ("ROWBLOCK", x), "SYM"
            if tx == "SYM" and x[0] == "KRPROD" and len(dims) == 2 and lit[0] == -1:
                n, tn = self.expr(dims[1], env, pre)
                if tn == N:
                    h = self.fresh(); pre.append((h, f"kr_step_n Op {x[1]} {x[2]} {n}"))
                    return h, T
            if tx == T and len(dims) == 2 and lit.count(-1) == 1 and lit.count(None) == 1:
                other = dims[0] if lit[1] == -1 else dims[1]
                n, tn = self.expr(other, env, pre)
                if tn == N:
                    spec = f"[Some {n}; None]" if lit[1] == -1 else f"[None; Some {n}]"
                    h = self.fresh(); pre.append((h, f"reshape_spec {spec} {x}"))
                    return h, T
            raise Untranslatable("reshape idiom " + _u(c))
        if self.is_backend(f, "kron") and len(c.args) == 2 and not c.keywords:
            return f"(kron2 Op {self.arg(c.args[0], env, pre, T)} {self.arg(c.args[1], env, pre, T)})", T
        if self.is_backend(f, "dot") and len(c.args) == 2 and not c.keywords:
            a = self.arg(c.args[0], env, pre, T); b = self.arg(c.args[1], env, pre, T)
            h = self.fresh(); pre.append((h, f"np_dot Op {a} {b}"))
            return h, T
        if isinstance(f, ast.Name) and f.id == "len" and len(c.args) == 1 and not c.keywords:
            t, ty = self.expr(c.args[0], env, pre)
            if ty not in (LT, LZ, LN, L3):
                raise Untranslatable("len of " + _u(c.args[0]))
            return f"(length {t})", N
        if isinstance(f, ast.Name) and f.id == "list" and len(c.args) == 1 and not c.keywords:
            t, ty = self.expr(c.args[0], env, pre)
            if ty not in (LT, LZ, LN):
                raise Untranslatable("list of " + _u(c.args[0]))
            return t, ty
        if isinstance(f, ast.Name) and f.id == "range" and len(c.args) == 1 and not c.keywords:
            t, ty = self.expr(c.args[0], env, pre)
            if ty == Z:
                return f"(seq 0 (Z.to_nat {t}))", LN          # range(k) is empty for k <= 0
            if ty != N:
                raise Untranslatable("range bound " + _u(c.args[0]))
            return f"(seq 0 {t})", LN
        if isinstance(f, ast.Name) and f.id == "unfold":
            a = self.kwargs(c, ["tensor", "mode"], 2)
            t = self.arg(a["tensor"], env, pre, T)
            m, tm = self.expr(a["mode"], env, pre)
            h = self.fresh()
            if tm == N:
                pre.append((h, f"unfold (r0 Op) {t} {m}"))
            elif tm == Z:
                pre.append((h, f"unfold_z Op {t} {m}"))       # np.moveaxis resolves a negative mode from the end
            else:
                raise Untranslatable("mode of unfold: " + _u(c))
            return h, T
        if isinstance(f, ast.Name) and f.id == "fold":
            a = self.kwargs(c, ["unfolded_tensor", "mode", "shape"], 3)
            u = self.arg(a["unfolded_tensor"], env, pre, T); m = self.arg(a["mode"], env, pre, Z); sh = self.arg(a["shape"], env, pre, LN)
            h = self.fresh(); pre.append((h, f"fold_z Op {u} {m} {sh}"))
            return h, T
        if isinstance(f, ast.Name) and f.id == "vec_to_tensor":
            a = self.kwargs(c, ["vec", "shape"], 2)
            u = self.arg(a["vec"], env, pre, T); sh = self.arg(a["shape"], env, pre, LN)
            h = self.fresh(); pre.append((h, f"vec_to_tensor {u} {sh}"))
            return h, T
        if isinstance(f, ast.Name) and f.id == "mode_dot":
            a = self.kwargs(c, ["tensor", "matrix_or_vector", "mode", "transpose"], 3)
            t = self.arg(a["tensor"], env, pre, T); m = self.arg(a["matrix_or_vector"], env, pre, T)
            z = self.arg(a["mode"], env, pre, Z); tr = self.arg(a.get("transpose"), env, pre, B, "false")
            h = self.fresh(); pre.append((h, f"mode_dot_z Op {t} {m} {z} {tr}"))
            return h, T
        if isinstance(f, ast.Name) and f.id == "multi_mode_dot":
            a = self.kwargs(c, ["tensor", "matrix_or_vec_list", "modes", "skip", "transpose"], 2)
            if "modes" in a:
                raise Untranslatable("multi_mode_dot with explicit modes: " + _u(c))
            t = self.arg(a["tensor"], env, pre, T); l = self.arg(a["matrix_or_vec_list"], env, pre, LT)
            sk = self.arg(a.get("skip"), env, pre, ON, "None"); tr = self.arg(a.get("transpose"), env, pre, B, "false")
            h = self.fresh()       # modes=None is range(len(list)) by multi_mode_dot_source_is_model
            pre.append((h, f"multi_mode_dot_z Op {t} {l} (map Z.of_nat (seq 0 (length {l}))) {sk} {tr}"))
            return h, T
        if self.is_backend(f, "stack") and len(c.args) == 1 and len(c.keywords) == 1 and c.keywords[0].arg == "axis" \
                and isinstance(c.keywords[0].value, ast.Constant) and c.keywords[0].value.value == 1:
            l = self.arg(c.args[0], env, pre, LT)
            h = self.fresh(); pre.append((h, f"np_stack1 Op {l}"))
            return h, T
        if isinstance(f, ast.Name) and f.id == "khatri_rao":
            a = self.kwargs(c, ["matrices", "weights", "skip_matrix", "mask"], 1)
            ms = self.arg(a["matrices"], env, pre, LT); w = self.arg(a.get("weights"), env, pre, OT, "None")
            sk = self.arg(a.get("skip_matrix"), env, pre, ON, "None"); mk = self.arg(a.get("mask"), env, pre, OT, "None")
            h = self.fresh(); pre.append((h, f"khatri_rao Op {ms} {w} {mk} {sk}"))
            return h, T
        if self.is_backend(f, "sum") and len(c.args) == 1 and not c.keywords:
            return f"(np_sum_all Op {self.arg(c.args[0], env, pre, T)})", T
        if (isinstance(f, ast.Name) and f.id == "int" and len(c.args) == 1 and not c.keywords and isinstance(c.args[0], ast.Call)
                and _u(c.args[0].func) == "np.prod" and len(c.args[0].args) == 1 and not c.args[0].keywords):
            return f"(prod {self.arg(c.args[0].args[0], env, pre, LN)})", N
        if isinstance(f, ast.Name) and f.id == "batched_outer" and len(c.args) == 1 and not c.keywords:
            l = self.arg(c.args[0], env, pre, LT)
            h = self.fresh(); pre.append((h, f"batched_outer Op {l}"))      # the model routine [batched_outer_source_is_model]
            return h, T
        if (self.is_backend(f, "mean") and len(c.args) == 1 and len(c.keywords) == 1 and c.keywords[0].arg == "axis"
                and isinstance(c.keywords[0].value, ast.Constant) and c.keywords[0].value.value == 0):
            # the mean over the samples divides by n_samples, which the ring model cannot: an opaque function argument of the regenerated
            # routine (the model computes n_samples * mean = the sum over axis 0, which is what the correspondence compares)
            self.uses_mean0 = True
            return f"(np_mean0 {self.arg(c.args[0], env, pre, T)})", T
        if isinstance(f, ast.Name) and f.id == "sorted":
            # sorted(zip(A, B, range(len(A))), key=lambda x: x[1]): Python's sort is stable, like the model's insertion sort
            ok = (len(c.args) == 1 and len(c.keywords) == 1 and c.keywords[0].arg == "key" and self.is_name_call(c.args[0], "zip")
                  and len(c.args[0].args) == 3 and not c.args[0].keywords)
            if ok:
                k = c.keywords[0].value
                ok = (isinstance(k, ast.Lambda) and len(k.args.args) == 1 and not k.args.defaults and isinstance(k.body, ast.Subscript)
                      and isinstance(k.body.value, ast.Name) and k.body.value.id == k.args.args[0].arg
                      and isinstance(k.body.slice, ast.Constant) and k.body.slice.value == 1)
            if ok:
                za, zb, zc = c.args[0].args
                a, ta = self.expr(za, env, pre)
                b, tb = self.expr(zb, env, pre)
                cc, tc = self.expr(zc, env, pre)
                if ta == LT and tb in (LZ, LN) and tc == LN and cc == f"(seq 0 (length {a}))":
                    return f"(sort_by_mode_z (zip3z {a} {self.coerce(b, tb, LZ)}))", L3
            raise Untranslatable("sorted call " + _u(c))
        raise Untranslatable("call " + _u(c))

    def subscript(self, e, env, pre):
        t, ty = self.expr(e.value, env, pre)
        s = e.slice
        if isinstance(s, ast.Slice):
            if ty not in (LT, LZ, LN):
                raise Untranslatable("slice of " + _u(e.value))
            if (s.upper is None and s.step is None and isinstance(s.lower, ast.Constant) and s.lower.value == 1):
                return f"(tl {t})", ty
            if s.step is None and (s.lower is None) != (s.upper is None):
                bnd, tb_ = self.expr(s.lower if s.lower is not None else s.upper, env, pre)
                if tb_ == Z and bnd.startswith("(") and bnd.endswith(")%Z") and bnd[1:-3].isdigit():
                    bnd, tb_ = bnd[1:-3], N
                if tb_ == N:
                    return f"({'skipn' if s.lower is not None else 'firstn'} {bnd} {t})", ty
                if tb_ == Z:         # a negative bound counts from the end
                    return f"({'py_slice_from' if s.lower is not None else 'py_slice_to'} {t} {bnd})", ty
            if s.lower is None and s.upper is None and s.step is not None:
                step = None
                if isinstance(s.step, ast.Name) and s.step.id in env and env[s.step.id].const is not None:
                    step = env[s.step.id].const
                elif isinstance(s.step, ast.Constant) and isinstance(s.step.value, int):
                    step = s.step.value
                elif isinstance(s.step, ast.UnaryOp) and isinstance(s.step.op, ast.USub) and isinstance(s.step.operand, ast.Constant):
                    step = -s.step.operand.value
                if step == 1:
                    return t, ty
                if step == -1:
                    return f"(rev {t})", ty
            raise Untranslatable("slice " + _u(e))
        if (ty == T and isinstance(s, ast.Tuple) and len(s.elts) == 2 and isinstance(s.elts[0], ast.Slice)
                and s.elts[0].lower is None and s.elts[0].upper is None and s.elts[0].step is None):
            r, tr_ = self.expr(s.elts[1], env, pre)
            if tr_ == N:
                return f"(column Op {t} {r})", T
            raise Untranslatable("column index " + _u(e))
        i, ti = self.expr(s, env, pre)
        if ty == LT and ti == Z and i.startswith("(") and i.endswith(")%Z") and i[1:-3].isdigit():
            h = self.fresh(); pre.append((h, f"py_item {t} {i[1:-3]}"))      # IndexError when the list is too short
            return h, T
        if ty == LN and ti == N:
            return f"(nth {i} {t} 0)", N
        if ty == LN and ti == Z:
            h = self.fresh(); pre.append((h, f"py_nth_z {t} {i}"))     # IndexError when out of range
            return h, N
        raise Untranslatable("subscript " + _u(e))

    def listcomp(self, e, env, pre):
        if len(e.generators) != 1 or e.generators[0].is_async or not isinstance(e.generators[0].target, ast.Name):
            raise Untranslatable("comprehension " + _u(e))
        g = e.generators[0]
        x = g.target.id
        # [L[i] for i in range(len(L)) if i != s]
        if (len(g.ifs) == 1 and isinstance(e.elt, ast.Subscript) and isinstance(e.elt.value, ast.Name) and isinstance(e.elt.slice, ast.Name)
                and e.elt.slice.id == x and _u(g.iter) == f"range(len({e.elt.value.id}))" and isinstance(g.ifs[0], ast.Compare)
                and len(g.ifs[0].ops) == 1 and isinstance(g.ifs[0].ops[0], ast.NotEq)):
            c = g.ifs[0]
            other = c.comparators[0] if (isinstance(c.left, ast.Name) and c.left.id == x) else (c.left if isinstance(c.comparators[0], ast.Name) and c.comparators[0].id == x else None)
            if other is not None:
                l, tl_ = self.expr(e.elt.value, env, pre)
                s, ts = self.expr(other, env, pre)
                if tl_ == LT and ts == N:
                    return f"(comp_skip (mk [] []) {s} {l})", LT
        if g.ifs:
            raise Untranslatable("comprehension filter " + _u(e))
        l, tl_ = self.expr(g.iter, env, pre)
        if tl_ not in ELEM:
            raise Untranslatable("comprehension over " + _u(g.iter))
        env2 = dict(env); env2[x] = Var(ELEM[tl_])
        p2 = []
        b, tb = self.expr(e.elt, env2, p2)
        if p2:
            raise Untranslatable("raising call inside a comprehension: " + _u(e))
        out = {T: LT, Z: LZ, N: LN}.get(tb)
        if out is None:
            raise Untranslatable("comprehension element " + _u(e.elt))
        return f"(map (fun {V(x)} => {b}) {l})", out

    # ------------------------------------------------------------------ statements
    @staticmethod
    def wrap(pre, body):
        for h, t in reversed(pre):
            body = f"rbind ({t}) (fun {h} => {body})"
        return body

    def assign(self, name, text, ty, env, const=None):
        """returns (let-binding text, new env)"""
        env = dict(env)
        old = env.get(name)
        if old is not None and old.maybe:
            if old.cell.get("ty") not in (None, ty):
                raise Untranslatable(f"{name} changes type")
            old.cell["ty"] = ty
            env[name] = Var(ty, const, False, old.cell)
            return f"let {V(name)} := {text} in ", env
        if old is not None and old.cell is not None:      # a loop-state local bound on this path
            env[name] = Var(ty, const, False, old.cell)
            return f"let {V(name)} := {text} in ", env
        if old is not None and ty == "EMPTY" and old.ty in (LN, LZ, LT):
            ty = old.ty
        if old is not None and old.ty != ty:
            if old.ty in OPTION_OF and OPTION_OF[old.ty] == ty:
                pass                                       # an optional parameter replaced by its default
            elif (ty, old.ty) in ((N, Z), (LN, LZ)):
                text, ty = self.coerce(text, ty, old.ty), old.ty
            elif old.ty in OPTION_OF and (ty, OPTION_OF[old.ty]) in ((N, Z), (LN, LZ)):
                text, ty = self.coerce(text, ty, OPTION_OF[old.ty]), OPTION_OF[old.ty]
            else:
                raise Untranslatable(f"{name} changes type from {old.ty} to {ty}")
        env[name] = Var(ty, const, present=bool(old is not None and old.present and old.ty == ty))
        return f"let {V(name)} := {text} in ", env

    def run(self, stmts, env, k):
        if not stmts:
            return k(env)
        s, rest = stmts[0], list(stmts[1:])
        if isinstance(s, ast.Expr) and isinstance(s.value, ast.Constant) and isinstance(s.value.value, str):
            return self.run(rest, env, k)
        if isinstance(s, ast.Pass):
            return self.run(rest, env, k)
        if isinstance(s, ast.Continue):
            if not getattr(k, "is_loop", False):
                raise Untranslatable("continue outside a loop")
            return k(env)
        if isinstance(s, ast.Raise):
            return "Err"
        if isinstance(s, ast.Return):
            if getattr(k, "is_loop", False):
                raise Untranslatable("return inside a loop")
            if s.value is None:
                raise Untranslatable("return without a value")
            pre = []
            t, ty = self.expr(s.value, env, pre)
            return self.wrap(pre, f"Ok {self.coerce(t, ty, self.ret)}")
        if isinstance(s, ast.Assign) and len(s.targets) == 1 and isinstance(s.targets[0], ast.Name):
            pre = []
            t, ty = self.expr(s.value, env, pre)
            const = None
            if isinstance(s.value, ast.Constant) and isinstance(s.value.value, int) and not isinstance(s.value.value, bool):
                const = s.value.value
            if isinstance(s.value, ast.UnaryOp) and isinstance(s.value.op, ast.USub) and isinstance(s.value.operand, ast.Constant):
                const = -s.value.operand.value
            if ty == Z and isinstance(t, str) and t.startswith("(") and t.endswith(")%Z") and t[1:-3].lstrip("-").isdigit():
                const = int(t[1:-3])
            if ty == "EMPTY" and s.targets[0].id not in env:
                if not any(isinstance(n, ast.Call) and isinstance(n.func, ast.Attribute) and n.func.attr == "append" and isinstance(n.func.value, ast.Name)
                           and n.func.value.id == s.targets[0].id for n in ast.walk(self.fn)):
                    raise Untranslatable("empty list never appended to: " + _u(s))
                t, ty = "(@nil (tensor F))", LT       # the routines only collect arrays
            if ty == "SYM":
                env2 = dict(env); env2[s.targets[0].id] = Var("SYM", sym=t)
                return self.wrap(pre, self.run(rest, env2, k))
            let, env2 = self.assign(s.targets[0].id, t, ty, env, const)
            return self.wrap(pre, let + self.run(rest, env2, k))
        if (isinstance(s, ast.Assign) and len(s.targets) == 1 and isinstance(s.targets[0], ast.Tuple) and len(s.targets[0].elts) == 2
                and all(isinstance(x, ast.Name) for x in s.targets[0].elts) and isinstance(s.value, ast.Call)
                and (self.is_backend(s.value.func, "shape")) and len(s.value.args) == 1 and not s.value.keywords):
            pre = []
            x = self.arg(s.value.args[0], env, pre, T)
            h = self.fresh(); pre.append((h, f"py_shape2 {x}"))       # ValueError unless the array is 2-D
            env2 = dict(env)
            for j, nm in enumerate(s.targets[0].elts):
                env2[nm.id] = Var("SYM", sym=("DIM", x, j))
            return self.wrap(pre, self.run(rest, env2, k))
        if isinstance(s, ast.Assign) and len(s.targets) == 1 and isinstance(s.targets[0], ast.Tuple) and isinstance(s.value, ast.Name):
            v = env.get(s.value.id)
            names = [x.id for x in s.targets[0].elts if isinstance(x, ast.Name)]
            if v is None or v.ty != PAIR_OT_LT or len(names) != 2 or len(s.targets[0].elts) != 2:
                raise Untranslatable("tuple assignment " + _u(s))
            env2 = dict(env); env2[names[0]] = Var(OT); env2[names[1]] = Var(LT)
            return f"let '({V(names[0])}, {V(names[1])}) := {V(s.value.id)} in " + self.run(rest, env2, k)
        if (isinstance(s, ast.Assign) and len(s.targets) == 1 and isinstance(s.targets[0], ast.Subscript)
                and isinstance(s.targets[0].value, ast.Name) and not isinstance(s.targets[0].slice, ast.Slice)):
            x = s.targets[0].value.id
            if x not in env or env[x].ty != LN or env[x].maybe or getattr(k, "is_loop", False):
                raise Untranslatable("item assignment " + _u(s))
            pre = []
            v = self.arg(s.value, env, pre, N)
            i = self.arg(s.targets[0].slice, env, pre, Z)
            h = self.fresh(); pre.append((h, f"py_set_z {V(x)} {i} {v}"))
            let, env2 = self.assign(x, h, LN, env)
            return self.wrap(pre, let + self.run(rest, env2, k))
        if (isinstance(s, ast.Expr) and isinstance(s.value, ast.Call) and isinstance(s.value.func, ast.Attribute) and s.value.func.attr == "pop"
                and isinstance(s.value.func.value, ast.Name) and len(s.value.args) == 1 and not s.value.keywords):
            x = s.value.func.value.id
            if x not in env or env[x].ty != LN or env[x].maybe or getattr(k, "is_loop", False):
                raise Untranslatable("pop " + _u(s))
            pre = []
            i = self.arg(s.value.args[0], env, pre, Z)
            h = self.fresh(); pre.append((h, f"py_pop_z {V(x)} {i}"))
            let, env2 = self.assign(x, h, LN, env)
            return self.wrap(pre, let + self.run(rest, env2, k))
        if (isinstance(s, ast.Expr) and isinstance(s.value, ast.Call) and isinstance(s.value.func, ast.Attribute) and s.value.func.attr == "append"
                and isinstance(s.value.func.value, ast.Name) and len(s.value.args) == 1 and not s.value.keywords):
            x = s.value.func.value.id
            if x not in env or env[x].ty != LT or env[x].maybe:
                raise Untranslatable("append " + _u(s))
            pre = []
            v = self.arg(s.value.args[0], env, pre, T)
            let, env2 = self.assign(x, f"({env[x].alias or V(x)} ++ [{v}])", LT, env)
            return self.wrap(pre, let + self.run(rest, env2, k))
        if isinstance(s, ast.AugAssign) and isinstance(s.target, ast.Name) and isinstance(s.op, (ast.Add, ast.Sub)):
            return self.run([ast.Assign(targets=[ast.Name(id=s.target.id, ctx=ast.Store())],
                                        value=ast.BinOp(left=ast.Name(id=s.target.id, ctx=ast.Load()), op=s.op, right=s.value))] + rest, env, k)
        if isinstance(s, ast.If):
            return self.if_(s, rest, env, k)
        if isinstance(s, ast.For):
            return self.for_(s, rest, env, k)
        raise Untranslatable("statement " + _u(s))

    def if_(self, s, rest, env, k):
        t = s.test
        # `x is None` / `x is not None` on an optional parameter: the branch where it is present sees its content
        if (isinstance(t, ast.Compare) and len(t.ops) == 1 and isinstance(t.ops[0], (ast.Is, ast.IsNot)) and isinstance(t.left, ast.Name)
                and isinstance(t.comparators[0], ast.Constant) and t.comparators[0].value is None
                and t.left.id in env and (env[t.left.id].present or env[t.left.id].absent)):
            none_body, some_body = (s.body, s.orelse) if isinstance(t.ops[0], ast.Is) else (s.orelse, s.body)
            return self.run(list(none_body if env[t.left.id].absent else some_body) + rest, dict(env), k)
        if (isinstance(t, ast.Compare) and len(t.ops) == 1 and isinstance(t.ops[0], (ast.Is, ast.IsNot)) and isinstance(t.left, ast.Name)
                and isinstance(t.comparators[0], ast.Constant) and t.comparators[0].value is None
                and t.left.id in env and env[t.left.id].ty in OPTION_OF and not env[t.left.id].maybe):
            x = t.left.id
            none_body, some_body = (s.body, s.orelse) if isinstance(t.ops[0], ast.Is) else (s.orelse, s.body)
            env_some = dict(env); env_some[x] = Var(OPTION_OF[env[x].ty], present=True)
            env_none = dict(env); env_none[x] = Var(env[x].ty, absent=True)
            return (f"(match {V(x)} with None => {self.run(list(none_body) + rest, env_none, k)} "
                    f"| Some {V(x)} => {self.run(list(some_body) + rest, env_some, k)} end)")
        def unmodelled(body):
            return any(isinstance(n, ast.Call) and _u(n.func) == "warnings.warn" for st_ in body for n in ast.walk(st_))
        pre = []
        c, tc = self.expr(t, env, pre)
        if unmodelled(s.body) or unmodelled(s.orelse):
            # a branch that warns it is outside the documented inputs (khatri_rao of 1-D operands): an opaque argument of the regenerated routine
            self.uses_unmodelled = True
            a = "unmodelled" if unmodelled(s.body) else self.run(list(s.body) + rest, dict(env), k)
            b = "unmodelled" if unmodelled(s.orelse) else self.run(list(s.orelse) + rest, dict(env), k)
            return self.wrap(pre, f"(if {c} then {a} else {b})")
        if tc == N:
            c, tc = f"(negb (Nat.eqb {c} 0))", B
        if tc != B:
            raise Untranslatable("condition " + _u(t))
        try:
            a = self.run(list(s.body) + rest, dict(env), k)
            b = self.run(list(s.orelse) + rest, dict(env), k)
        except Untranslatable as e:
            if "before its type is known" not in str(e):
                raise
            b = self.run(list(s.orelse) + rest, dict(env), k)      # the other branch binds the local first
            a = self.run(list(s.body) + rest, dict(env), k)
        return self.wrap(pre, f"(if {c} then {a} else {b})")

    def for_(self, s, rest, env, k, temps=None):
        if s.orelse:
            raise Untranslatable("for ... else")
        for n in ast.walk(s):
            if isinstance(n, (ast.Break, ast.Return, ast.While)) or (isinstance(n, ast.For) and n is not s):
                raise Untranslatable("break / return / nested loop inside a for-loop")
        pre = []
        it = s.iter
        if self.is_name_call(it, "enumerate") and len(it.args) == 1 and not it.keywords:
            l, tl_ = self.expr(it.args[0], env, pre)
            if tl_ not in ELEM:
                raise Untranslatable("enumerate over " + _u(it.args[0]))
            itext, etys = f"(py_enumerate {l})", [N, ELEM[tl_]]
        else:
            l, tl_ = self.expr(it, env, pre)
            if tl_ == L3:
                itext, etys = l, [T, Z, N]
            elif tl_ in ELEM:
                itext, etys = l, [ELEM[tl_]]
            else:
                raise Untranslatable("loop over " + _u(it))
        tg = s.target
        names = [tg.id] if isinstance(tg, ast.Name) else [x.id for x in tg.elts if isinstance(x, ast.Name)] if isinstance(tg, ast.Tuple) else None
        if names is None or len(names) != len(etys) or (isinstance(tg, ast.Tuple) and len(tg.elts) != len(names)):
            raise Untranslatable("loop target " + _u(tg))
        # loop state: every name (re)bound in the body
        state = []
        for n in ast.walk(s):
            tgt = None
            if isinstance(n, ast.Assign):
                for t_ in n.targets:
                    if isinstance(t_, ast.Tuple) and all(isinstance(x, ast.Name) for x in t_.elts):
                        for x in t_.elts:
                            if x.id not in state and x.id not in names:
                                state.append(x.id)
                        continue
                    if not isinstance(t_, ast.Name):
                        raise Untranslatable("assignment target inside a loop: " + _u(t_))
                    tgt = t_.id
                    if tgt not in state and tgt not in names:
                        state.append(tgt)
            elif isinstance(n, ast.AugAssign):
                if not isinstance(n.target, ast.Name):
                    raise Untranslatable("assignment target inside a loop: " + _u(n.target))
                if n.target.id not in state and n.target.id not in names:
                    state.append(n.target.id)
            elif (isinstance(n, ast.Call) and isinstance(n.func, ast.Attribute) and n.func.attr == "append" and isinstance(n.func.value, ast.Name)
                  and n.func.value.id in env and env[n.func.value.id].ty == LT):
                if n.func.value.id not in state:
                    state.append(n.func.value.id)
            elif isinstance(n, ast.Call) and isinstance(n.func, ast.Attribute) and n.func.attr in ("append", "pop", "insert", "extend"):
                raise Untranslatable("list mutation inside a loop: " + _u(n))
        if not state:
            # a loop that only checks (raises or not): the state is unit
            env_in = dict(env)
            for n_, ty in zip(names, etys):
                env_in[n_] = Var(ty)

            def unit(_):
                return "Ok tt"
            unit.is_loop = True
            body = self.run(list(s.body), env_in, unit)
            xpat = "'(" + ", ".join(V(x) for x in names) + ")" if len(names) > 1 else V(names[0])
            return self.wrap(pre, f"rbind (fold_res (fun (st : unit) x => let {xpat} := x in {body}) {itext} tt) (fun _ => {self.run(rest, dict(env), k)})")
        # a local that is first bound inside the body and not used after the loop is a temporary of one iteration, not loop state
        # (if some path of the body reads it before binding it, the translation below fails with "free name" and it becomes state)
        if temps is None:
            rest_names = {n.id for st_ in rest for n in ast.walk(st_) if isinstance(n, ast.Name)}
            temps = [x for x in state if x not in env and x not in rest_names]
            first = True
            while temps and len(temps) < len(state):
                try:
                    return self.for_(s, rest, env, k, temps=list(temps))
                except Untranslatable as e:
                    bad = [x for x in temps if str(e) == "free name " + x]
                    if not bad:
                        raise
                    # a local read before it is bound on some path of the body is loop state (possibly unbound), the others stay temporaries;
                    # routines translated before this refinement keep their all-or-nothing state (their proof scripts name it)
                    if first and self.fn.name in LEGACY_STATE:
                        break
                    first = False
                    temps = [x for x in temps if x not in bad]
            temps = []
        state = [x for x in state if x not in temps]
        env_in = dict(env)
        init = []
        for x in state:
            if x in env and not env[x].maybe:
                env_in[x] = Var(env[x].ty, None, False, {"ty": env[x].ty, "opt": False})
                init.append(V(x))
            elif x in env:
                env_in[x] = env[x].copy(); init.append(V(x))
            else:
                env_in[x] = Var(None, None, True, {"ty": None, "opt": True})
                init.append("None")
        for n_, ty in zip(names, etys):
            env_in[n_] = Var(ty)

        def pack(e2):
            out = []
            for x in state:
                v = e2[x]
                if env_in[x].cell["opt"]:
                    out.append(V(x) if v.maybe else f"(Some {v.alias or V(x)})")
                else:
                    out.append(v.alias or V(x))
            return "Ok (" + ", ".join(out) + ")" if len(out) > 1 else "Ok " + out[0]
        pack.is_loop = True
        body = self.run(list(s.body), env_in, pack)
        for x in state:
            if env_in[x].cell["opt"] and env_in[x].cell["ty"] is None:
                raise Untranslatable(f"loop local {x} never assigned a typed value")
        pat = "'(" + ", ".join(V(x) for x in state) + ")" if len(state) > 1 else V(state[0])
        xpat = "'(" + ", ".join(V(x) for x in names) + ")" if len(names) > 1 else V(names[0])
        step = f"(fun st x => let {pat} := st in let {xpat} := x in {body})"
        env_out = dict(env)
        for x in state:
            c = env_in[x].cell
            env_out[x] = Var(c["ty"], None, True, c) if c["opt"] else Var(c["ty"])
        ini = "(" + ", ".join(init) + ")" if len(init) > 1 else init[0]
        return self.wrap(pre, f"rbind (fold_res {step} {itext} {ini}) (fun st => let {pat} := st in {self.run(rest, env_out, k)})")

    def definition(self, name):
        args = [a.arg for a in self.fn.args.args]
        if args != list(self.params) or self.fn.args.vararg or self.fn.args.kwarg or self.fn.args.kwonlyargs:
            raise Untranslatable(f"parameters of {self.fn.name}: {args}")
        env = {p: Var(t) for p, t in self.params.items()}

        def end(_):
            raise Untranslatable(f"{self.fn.name} may fall off its end")
        self.uses_unmodelled = False
        self.uses_mean0 = False
        body = self.run(list(self.fn.body), env, end)
        ps = " ".join(f"({V(p)} : {GT[t]})" for p, t in self.params.items())
        if self.uses_unmodelled:
            ps = f"(unmodelled : res ({GT[self.ret]})) " + ps
        if self.uses_mean0:
            ps = "(np_mean0 : tensor F -> tensor F) " + ps
        return f"Definition {name} {ps} : res ({GT[self.ret]}) :=\n  {body}."


def _function(repo, rel, name):
    path = os.path.join(repo, "tensorly", "tenalg", "core_tenalg", rel)
    tree = ast.parse(open(path).read())
    fn = next((n for n in tree.body if isinstance(n, ast.FunctionDef) and n.name == name), None)
    if fn is None:
        raise Untranslatable(f"no function {name} in {path}")
    return fn


HEADER = """From Coq Require Import List Arith ZArith Lia Bool. Import ListNotations.
From Coq Require Import Ring_theory.
From TLV Require Import Base.Shape Base.PyList Base.Tensor Base.BigSum Model.Base Proofs.BaseProofs Model.Tenalg Proofs.TenalgProofs Proofs.TenalgProofsKR Proofs.TenalgProofsValidate
  Proofs.TenalgProofsMulti Proofs.TenalgProofsMultiGen Proofs.TenalgProofsMemory Proofs.TenalgProofsDefault Proofs.TenalgProofsSrc Proofs.TenalgProofsBcast Model.TenalgRaw Proofs.TenalgProofsInner Proofs.TenalgProofsInnerRaw Proofs.TenalgProofsSrcInner.
Ltac split_all :=
  repeat (cbn [rbind fst snd negb andb orb py_get Nat.eqb Nat.ltb Nat.leb];
          first [ match goal with |- context [if ?b then _ else _] => is_var b; destruct b end
                | match goal with |- context [match ?o with Some _ => _ | None => _ end] => is_var o; destruct o end
                | match goal with |- context [if ?b then _ else _] => destruct b eqn:? end
                | match goal with |- context [rbind ?x _] => destruct x eqn:? end ]);
  cbn [rbind fst snd negb andb orb py_get Nat.eqb Nat.ltb Nat.leb];
  try solve [cbn [negb andb orb] in *; congruence].
Ltac kill_rbind :=
  repeat (rewrite ?rbind_ok_id; cbn [rbind py_get];
          match goal with |- context [rbind ?x _] =>
            lazymatch x with rbind _ _ => fail | Ok _ => fail | Err => fail | _ => destruct x eqn:? end end);
  rewrite ?rbind_ok_id; cbn [rbind py_get].
Section G. Context {F : Type} (Op : rops F).
"""

PROOFS = {
    "unfolding_dot_khatri_rao_memory": """
(* on the inputs of C02_mttkrp_memory (well-formed tensor with non-empty index space, one well-formed R-column factor per mode, R > 0):
   the list-building loop is collect over the components, every component is the all-vector multi_mode_dot with modes=None
   [C02_multi_mode_dot_default_modes], np.stack sees R one-dimensional arrays of the mode's length *)
Section Mem.
Hypothesis Rth : ring_theory (r0 Op) (r1 Op) (radd Op) (rmul Op) (rsub Op) (ropp Op) (@eq F).
Theorem mttkrp_memory_source_is_model : forall T w fs k R,
  wf T -> k < ndim T -> 0 < prod (shape T) -> 0 < R -> map nrows fs = shape T -> mats R fs ->
  unfolding_dot_khatri_rao_memory_py T (w, fs) k = mttkrp_memory Op T w fs k.
Proof.
  intros T w fs k R WT Hk Hpos HR Hrows Hm.
  assert (Hlen : length fs = ndim T) by (unfold ndim; rewrite <- Hrows; now rewrite map_length).
  destruct fs as [|f0 fs0] eqn:Efs; [unfold ndim in *; simpl in Hlen; lia|]. rewrite <- Efs in *.
  assert (Hs0 : shape f0 = [nrows f0; R]).
  { rewrite Efs in Hm. inversion Hm as [|? ? [_ Hs0] _]; subst. exact Hs0. }
  assert (Hc0 : ncols f0 = R) by (unfold ncols; now rewrite Hs0).
  set (sk := nth k (shape T) 0).
  set (g := fun r => tabulate [sk] (fun idx => ssum Op (remove_nth k (shape T))
               (fun is_ => rmul Op (vprod Op (remove_nth k (map (ccol Op r) fs)) is_) (get (r0 Op) T (insert_at k (nth 0 idx 0) is_))))).
  assert (Hparts : forall r, multi_mode_dot Op T (map (ccol Op r) fs) None (Some k) false = Ok (g r)).
  { intros r. apply (mmd_all_vectors_skip Op Rth); auto.
    - now rewrite map_length.
    - unfold allvec. apply Forall_forall. intros v Hv. apply in_map_iff in Hv. destruct Hv as [f [<- _]]. reflexivity.
    - intros j Hj. rewrite map_length in Hj. rewrite (nth_map' (ccol Op r) _ _ (mk [] [])) by exact Hj. split.
      + unfold ccol. apply (wf_conj_t Op). apply wf_tabulate.
      + unfold ccol, conj_t, tmap, column, tabulate. cbn [shape]. f_equal. rewrite <- Hrows. symmetry. apply nth_map'. exact Hj. }
  assert (Hz : forall r, multi_mode_dot_z Op T (map (fun f => conj_t Op (column Op f r)) fs)
                           (map Z.of_nat (seq 0 (length (map (fun f => conj_t Op (column Op f r)) fs)))) (Some k) false = Ok (g r)).
  { intros r. rewrite (proj1 (multi_mode_dot_default_modes Op T _ (Some k) false)). exact (Hparts r). }
  assert (Hmodel : mttkrp_memory Op T w fs k = apply_w Op (match w with None => None | Some w0 => Some (conj_t Op w0) end) (stack_cols Op sk (map g (seq 0 R)))).
  { unfold mttkrp_memory. rewrite Efs. rewrite <- Efs. rewrite Hc0.
    rewrite (collect_map_ok (fun r => multi_mode_dot Op T (map (fun f => conj_t Op (column Op f r)) fs) None (Some k) false) g) by (intros; apply Hparts).
    reflexivity. }
  rewrite Hmodel. unfold unfolding_dot_khatri_rao_memory_py. cbv zeta.
  assert (Hit : py_item fs 0 = Ok f0) by (rewrite Efs; reflexivity). rewrite Hit. cbn [rbind].
  rewrite Hs0, py_nth_z_1. cbn [rbind].
  rewrite (fold_res_append_sim (fun r => multi_mode_dot_z Op T (map (fun f => conj_t Op (column Op f r)) fs)
                           (map Z.of_nat (seq 0 (length (map (fun f => conj_t Op (column Op f r)) fs)))) (Some k) false)) by (intros; reflexivity).
  rewrite (collect_map_ok _ g) by (intros; apply Hz). cbn [rbind app].
  rewrite (np_stack1_ok Op g sk R HR) by (intros; reflexivity).
  destruct w as [w0|]; cbn [rbind apply_w]; rewrite ?rbind_ok_id; reflexivity.
Qed.
End Mem.
""",
    "khatri_rao": """
(* every path: skip (comp_skip = remove_nth), mask cast, the single-matrix branch, the validation loop (= kr_valid), the main loop
   (= fold_left kr_step from the weighted first matrix), the final mask; `unmodelled` is what the code does with 1-D operands
   (a warning and a reshape), outside the model and excluded by the hypothesis on the first operand *)
Lemma kr_valid_shapes (M0 : tensor F) l a n : shape M0 = [a; n] -> kr_valid (M0 :: l) = true ->
  Forall (fun M => exists b, shape M = [b; n]) l.
Proof.
  intros H0 Hv. unfold kr_valid in Hv. cbn [forallb] in Hv. apply andb_true_iff in Hv. destruct Hv as [_ Hv].
  rewrite forallb_forall in Hv. apply Forall_forall. intros M HM. specialize (Hv M HM). apply andb_true_iff in Hv.
  destruct Hv as [H2 Hc]. apply Nat.eqb_eq in H2. apply Nat.eqb_eq in Hc. unfold ndim in H2. unfold ncols in Hc. rewrite H0 in Hc. cbn [nth] in Hc.
  destruct (shape M) as [|b [|c [|? ?]]]; cbn in H2; try discriminate. cbn [nth] in Hc. subst c. now exists b.
Qed.
Lemma kr_core (unm : res (tensor F)) (L : list (tensor F)) (w mask : option (tensor F)) :
  match L with M0 :: _ :: _ => ndim M0 = 2 | _ => True end ->
  khatri_rao_py unm L w None mask = khatri_rao Op L w mask None.
Proof.
  intros Hnd. unfold khatri_rao_py, khatri_rao. cbn [skipl].
  destruct L as [|M0 [|M1 rest]].
  - destruct mask; reflexivity.
  - assert (Hw0 : forall M : tensor F, apply_w Op None M = Ok M) by reflexivity.
    assert (Hm0 : forall M : tensor F, apply_mask Op None M = Ok M) by reflexivity.
    destruct mask, w; cbn [length Nat.eqb py_item nth_error rbind]; rewrite ?Hw0, ?Hm0; cbn [rbind];
      repeat (rewrite ?rbind_ok_id, ?Hw0, ?Hm0; try reflexivity; match goal with |- context [rbind ?x _] => destruct x eqn:?; cbn [rbind] end);
      rewrite ?rbind_ok_id, ?Hw0, ?Hm0; try reflexivity.
  - set (L := M0 :: M1 :: rest) in *.
    destruct (shape M0) as [|a [|n [|? ?]]] eqn:E0; unfold ndim in Hnd; rewrite E0 in Hnd; cbn in Hnd; try discriminate. clear Hnd.
    assert (Hn2 : Nat.eqb (ndim M0) 2 = true) by (unfold ndim; now rewrite E0).
    assert (Hval : forall step, (forall x, step tt x = if (fun p : nat * tensor F => (ndim (snd p) =? 2) && (ncols (snd p) =? n)) x then Ok tt else Err) ->
                   fold_res step (py_enumerate L) tt = if kr_valid L then Ok tt else Err).
    { intros step Hs. rewrite (fold_res_check _ step Hs). unfold py_enumerate.
      rewrite (forallb_enumerate (fun M => (ndim M =? 2) && (ncols M =? n)) L 0). unfold kr_valid, L, ncols. rewrite E0. reflexivity. }
    destruct mask as [mk|], w as [w0|];
      cbn [length Nat.eqb py_item nth_error rbind L]; rewrite ?Hn2; cbn [rbind]; rewrite ?E0, ?py_nth_z_1; cbn [rbind];
      (rewrite Hval by (intros [i M]; cbn [snd]; unfold ndim, ncols; destruct (shape M) as [|b [|c [|? ?]]];
                        cbn [length Nat.eqb negb andb nth]; rewrite ?py_nth_z_1, ?py_nth_z_1_short, ?py_nth_z_nil; cbn [rbind];
                        split_all; reflexivity));
      (destruct (kr_valid L) eqn:Ev; cbn [rbind]; [|reflexivity]);
      pose proof (kr_valid_shapes M0 (M1 :: rest) a n E0 Ev) as Hsh;
      unfold L; cbn [tl];
      match goal with |- context [fold_res ?st (py_enumerate (M1 :: rest)) None] =>
        first [ rewrite (kr_loop Op st (apply_w Op (Some w0) M0) n) with (l := M1 :: rest)
              | rewrite (kr_loop Op st (apply_w Op None M0) n) with (l := M1 :: rest) ]
      end; try discriminate; try exact Hsh;
      try (intros R0 HR0; exists a; first [injection HR0 as <-; exact E0 | rewrite (apply_w_shape Op _ _ _ HR0); exact E0]);
      try (intros; cbn [Nat.eqb apply_w]; unfold kr_step_chk; split_all; reflexivity);
      try (cbn [apply_w]; kill_rbind; reflexivity).
Qed.
Theorem khatri_rao_source_is_model : forall unm Ms w skip mask,
  match skipl skip Ms with M0 :: _ :: _ => ndim M0 = 2 | _ => True end ->
  khatri_rao_py unm Ms w skip mask = khatri_rao Op Ms w mask skip.
Proof.
  intros unm Ms w skip mask H. destruct skip as [s|].
  - cbn [skipl] in H. transitivity (khatri_rao_py unm (remove_nth s Ms) w None mask).
    + unfold khatri_rao_py. now rewrite comp_skip_remove_nth.
    + rewrite (kr_core unm (remove_nth s Ms) w mask H). reflexivity.
  - exact (kr_core unm Ms w mask H).
Qed.
""",
    "mode_dot": """
Lemma py_index_lt n z k : py_index n z = Some k -> k < n.
Proof. intros H. exact (proj1 (py_index_spec _ _ _ H)). Qed.
Theorem mode_dot_source_is_model : forall T M z tr, mode_dot_py T M z tr = mode_dot_z Op T M z tr.
Proof.
  intros T M z tr. unfold mode_dot_py, mode_dot_z, mode_dot, unfold_z, fold_z, py_set_z, py_pop_z, ndim. cbv zeta.
  rewrite ?rbind_ok_id.
  destruct (py_index (length (shape T)) z) as [k|] eqn:Ez.
  2:{ rewrite (py_nth_z_none _ _ Ez). destruct (shape M) as [|a [|b [|c s]]]; cbn [length Nat.eqb]; try reflexivity;
      destruct tr; rewrite ?py_nth_z_0, ?py_nth_z_1; reflexivity. }
  rewrite (py_nth_z_some _ _ _ Ez).
  pose proof (py_index_lt _ _ _ Ez) as Hk. apply Nat.ltb_lt in Hk. rewrite Hk. cbn [andb].
  destruct (shape M) as [|a [|b [|c s]]] eqn:EM; cbn [length Nat.eqb]; try reflexivity.
  - (* vector *)
    rewrite py_nth_z_0. cbn [rbind]. destruct (Nat.eqb a (nth k (shape T) 0)) eqn:Ea; cbn [negb]; [|reflexivity].
    apply Nat.eqb_eq in Ea.
    assert (Hpop : (if Nat.ltb 1 (length (shape T)) then Ok (remove_nth k (shape T)) else Ok []) = Ok (remove_nth k (shape T))).
    { apply Nat.ltb_lt in Hk. destruct (shape T) as [|x [|y r]]; cbn in *; try lia; [|reflexivity]. destruct k; [reflexivity|lia]. }
    destruct (Nat.ltb 1 (length (shape T))) eqn:El; cbn [rbind];
      (destruct (unfold (r0 Op) T k) as [U|] eqn:EU; cbn [rbind]; [|reflexivity]);
      rewrite (np_dot_vec Op M U a EM) by (rewrite (unfold_nrows Op T U k EU); congruence); cbn [rbind];
      rewrite ?rbind_ok_id; first [reflexivity | injection Hpop as <-; reflexivity].
  - (* matrix *)
    destruct tr; cbn [negb]; rewrite ?py_nth_z_0, ?py_nth_z_1; cbn [rbind];
      (destruct (Nat.eqb _ (nth k (shape T) 0)) eqn:Ea; cbn [negb]; [|reflexivity]); apply Nat.eqb_eq in Ea.
    + rewrite (shape_conj_transpose Op M a b EM), py_nth_z_0. cbn [rbind]. rewrite set_nth_length, Ez.
      destruct (unfold (r0 Op) T k) as [U|] eqn:EU; cbn [rbind]; [|reflexivity].
      rewrite (np_dot_mat Op _ U b a (shape_conj_transpose Op M a b EM)) by (rewrite (unfold_nrows Op T U k EU); congruence).
      cbn [rbind]. rewrite ?rbind_ok_id. unfold nrows. rewrite (shape_conj_transpose Op M a b EM). reflexivity.
    + rewrite ?EM, ?py_nth_z_0. cbn [rbind]. rewrite set_nth_length, Ez.
      destruct (unfold (r0 Op) T k) as [U|] eqn:EU; cbn [rbind]; [|reflexivity].
      rewrite (np_dot_mat Op M U a b EM) by (rewrite (unfold_nrows Op T U k EU); congruence).
      cbn [rbind]. rewrite ?rbind_ok_id. unfold nrows. rewrite EM. reflexivity.
Qed.
""",
    # the loop is mmd_loop_z (base case + one unrolling, every branch); the statements before it are the model's by conversion
    "multi_mode_dot": """
Theorem multi_mode_dot_source_is_model : forall T Ms modes skip tr,
  multi_mode_dot_py T Ms modes skip tr
  = multi_mode_dot_z Op T Ms (match modes with None => map Z.of_nat (seq 0 (length Ms)) | Some m => m end) skip tr.
Proof.
  intros T Ms modes skip tr. unfold multi_mode_dot_py, multi_mode_dot_z. destruct modes as [ms|]; cbv zeta;
  (refine (fold_res_sim _ _ (fun l st => mmd_loop_z Op l skip tr (snd st) (fst st)) _ _ _ (T, 0%Z));
   [ intros [r dd]; reflexivity
   | intros [[M z] i] r [acc dd]; cbn [mmd_loop_z fst snd]; unfold py_is_not_none, py_is_none, py_eq_opt, py_ne_opt, is_skip;
     split_all; try reflexivity; try congruence ]).
Qed.
""",
    # the loop is the model's fold of outer2: first iteration binds the accumulator, every later one reshapes both operands with
    # size-1 axes and multiplies with NumPy broadcasting - literally outer2 [C02_outer_step_is_broadcast]; no hypothesis
    "outer": """
Theorem outer_source_is_model : forall ts, outer_py ts = outer Op ts.
Proof.
  intros ts. unfold outer_py.
  etransitivity.
  - apply (fold_first_then_state (fun a x => Ok (outer2 Op a x)) (fun a => shape a) (fun a => length (shape a)) _ _ (fun a => Ok a)).
    + intros [[b1 b2] o] x. reflexivity.
    + intros a i x. cbn [Nat.eqb negb py_get rbind]. cbv zeta. unfold np_reshape.
      exact (rbind_chain2 _ _ _ _ _ (outer_step_is_broadcast Op a x)).
    + intros b1 b2 [a|]; reflexivity.
  - unfold outer. destruct ts as [|t0 r]; [reflexivity|]. now rewrite fold_res_total.
Qed.
""",
    # tensors of order >= 1 (each has the batch mode): the loop is the model's bouter_loop - batch sizes compared, then the reshape /
    # broadcast step, literally bouter2 [C02_batched_outer_step_is_broadcast]; a 0-d operand (IndexError in the code) is outside
    "batched_outer": """
Lemma bouter_loop_fold (r : list (tensor F)) : forall a,
  fold_res (fun a x => if nth 0 (shape x) 0 =? nth 0 (shape a) 0 then Ok (bouter2 Op a x) else Err) r a = bouter_loop Op r a.
Proof.
  induction r as [|x r IH]; intros a; cbn [fold_res bouter_loop]; [reflexivity|].
  destruct (nth 0 (shape x) 0 =? nth 0 (shape a) 0); cbn [rbind]; [apply IH | reflexivity].
Qed.
Theorem batched_outer_source_is_model : forall ts, Forall (fun t : tensor F => shape t <> []) ts -> batched_outer_py ts = batched_outer Op ts.
Proof.
  intros ts Hts. unfold batched_outer_py.
  etransitivity.
  - apply (fold_first_then_state_inv (fun t : tensor F => shape t <> [])
             (fun a x => if nth 0 (shape x) 0 =? nth 0 (shape a) 0 then Ok (bouter2 Op a x) else Err)
             (fun a => shape a) (fun a => (Z.of_nat (length (shape a)) - 1)%Z) _ _ (fun a => Ok a)); [ | | | | exact Hts].
    + intros [[b1 b2] o] x. reflexivity.
    + intros a i x Pa Px. cbn [Nat.eqb negb py_get rbind]. cbv zeta.
      destruct (shape_nonempty a Pa) as (n & ra & Ea). destruct (shape_nonempty x Px) as (m & rb & Ex).
      rewrite Ea, Ex. rewrite !py_nth_z_0. cbn [rbind nth length tl].
      destruct (m =? n) eqn:E; cbn [negb rbind]; [|reflexivity].
      apply Nat.eqb_eq in E. subst m.
      pose proof (batched_outer_step_is_broadcast Op a x n ra rb Ea Ex) as Hstep.
      unfold ndim in Hstep. rewrite Ea, Ex in Hstep. cbn [length tl Nat.sub] in Hstep. rewrite !Nat.sub_0_r in Hstep.
      replace (Z.to_nat (Z.of_nat (S (length rb)) - 1)) with (length rb) by lia.
      replace (Z.to_nat (Z.of_nat (S (length ra)) - 1)) with (length ra) by lia.
      unfold np_reshape. rewrite <- app_assoc.
      exact (rbind_chain2 _ _ _ _ _ Hstep).
    + intros a x a' Pa Px. destruct (nth 0 (shape x) 0 =? nth 0 (shape a) 0); [|discriminate].
      intros H; injection H as <-. unfold bouter2, tabulate. cbn [shape]. destruct (shape a); [congruence | discriminate].
    + intros b1 b2 [a|]; reflexivity.
  - unfold batched_outer. destruct ts as [|t0 r]; [reflexivity|]. rewrite bouter_loop_fold. apply rbind_ok_id.
Qed.
""",
    # the loop applies batched_outer([moment, tensor]) order - 1 times (not at all for order <= 1); with the mean over the samples read
    # as the sum it is the model's higher_order_moment_sum for every order >= 1
    "higher_order_moment": """
Lemma fold_res_iter {A X} (step : A -> X -> res A) (g : A -> res A) : (forall st x, step st x = g st) ->
  forall (l : list X) st, fold_res step l st = iter_res (length l) g st.
Proof. intros H. induction l as [|x l IH]; intros st; cbn [fold_res iter_res length]; [reflexivity|]. rewrite H. destruct (g st); cbn [rbind]; [apply IH | reflexivity]. Qed.
Theorem higher_order_moment_loop_source_is_model : forall mean0 T order,
  higher_order_moment_py mean0 T order
  = rbind (iter_res (Z.to_nat (order - 1)) (fun m => batched_outer Op [m; T]) T) (fun m => Ok (mean0 m)).
Proof.
  intros mean0 T order. unfold higher_order_moment_py. cbv zeta.
  rewrite (fold_res_iter _ (fun m => batched_outer Op [m; T])) by (intros st x; apply rbind_ok_id).
  now rewrite seq_length.
Qed.
Theorem higher_order_moment_source_is_model : forall T order, 1 <= order ->
  higher_order_moment_py (sum_axis0 Op) T (Z.of_nat order) = higher_order_moment_sum Op T order.
Proof.
  intros T order Ho. rewrite higher_order_moment_loop_source_is_model. unfold higher_order_moment_sum, moment_sum.
  destruct order as [|k]; [lia|]. cbn [Nat.eqb]. replace (Z.to_nat (Z.of_nat (S k) - 1)) with (S k - 1) by lia. reflexivity.
Qed.
""",
    # both branches, every n_modes: the traditional inner product is T.sum of the broadcasting product of equal shapes; with n_modes the
    # code is inner_as_is (Model/TenalgRaw.v: the slices with len - n_modes, negative beyond the order, read with Python's slice rule),
    # which within the order of tensor1 is the documented routine [C02_inner_core_as_is_in_range_partial]; no hypothesis
    "inner": """
(* the source is EITHER the code as it is today (inner_as_is) OR, once n_modes is validated against the order of tensor1 (fix candidate
   C02_inner_n_modes_beyond_order), the documented routine `inner` itself; any other body is a broken tie *)
Ltac inner_as_is_script :=
  intros A B [n|]; unfold inner_py; cbv zeta;
  [ unfold inner_as_is, py_slice_from, py_slice_to; rewrite !py_clip_inner;
    destruct (nat_list_eq (skipn (inner_cut (length (shape A)) n) (shape A)) (firstn n (shape B))); cbn [negb]; [|reflexivity];
    destruct (reshape_spec [None; Some (prod (skipn (inner_cut (length (shape A)) n) (shape A)))] A) as [A2|] eqn:EA; cbn [rbind]; [|reflexivity];
    destruct (reshape_spec [Some (prod (skipn (inner_cut (length (shape A)) n) (shape A))); None] B) as [B2|] eqn:EB; cbn [rbind]; [|reflexivity];
    rewrite (np_dot_reshaped Op A B A2 B2 _ EA EB); cbn [rbind]; unfold np_reshape; apply rbind_ok_id
  | unfold inner; destruct (nat_list_eq (shape A) (shape B)) eqn:E; cbn [negb]; [|reflexivity];
    apply nat_list_eq_true in E; exact (sum_of_product_same_shape Op A B E) ].
Ltac inner_documented_script :=
  intros A B [n|]; unfold inner_py; cbv zeta;
  [ unfold inner, lastn', py_slice_from, py_slice_to; cbn [Nat.leb andb];
    destruct (n <=? length (shape A)) eqn:En; cbn [negb andb]; [|reflexivity];
    rewrite !py_clip_inner; rewrite !(inner_cut_in_range _ _ (proj1 (Nat.leb_le _ _) En));
    destruct (nat_list_eq (skipn (length (shape A) - n) (shape A)) (firstn n (shape B))); cbn [negb]; [|reflexivity];
    destruct (reshape_spec [None; Some (prod (skipn (length (shape A) - n) (shape A)))] A) as [A2|] eqn:EA; cbn [rbind]; [|reflexivity];
    destruct (reshape_spec [Some (prod (skipn (length (shape A) - n) (shape A))); None] B) as [B2|] eqn:EB; cbn [rbind]; [|reflexivity];
    rewrite (np_dot_reshaped Op A B A2 B2 _ EA EB); cbn [rbind]; unfold np_reshape; apply rbind_ok_id
  | unfold inner; destruct (nat_list_eq (shape A) (shape B)) eqn:E; cbn [negb]; [|reflexivity];
    apply nat_list_eq_true in E; exact (sum_of_product_same_shape Op A B E) ].
Theorem inner_source_is_model :
  (forall A B nm, inner_py A B nm = match nm with None => inner Op A B None | Some n => inner_as_is Op A B n end)
  \\/ (forall A B nm, inner_py A B nm = inner Op A B nm).
Proof. first [ left; inner_as_is_script | right; inner_documented_script ]. Qed.
""",

    "kronecker": """
Theorem kronecker_source_is_model : forall Ms skip reverse,
  kronecker_py Ms skip reverse = kronecker Op Ms skip reverse.
Proof.
  intros Ms skip reverse. unfold kronecker_py, kronecker. destruct skip as [s|]; destruct reverse; cbv zeta;
    cbn [skipl]; rewrite ?comp_skip_remove_nth;
    (refine (fold_first_then (kron2 Op) _ _ (fun a => Ok a) _ _ _ _);
     [ intros st x; split_all; reflexivity
     | intros a i x; split_all; reflexivity
     | intros [a|]; reflexivity ]).
Qed.
""",
    "unfolding_dot_khatri_rao": """
Theorem mttkrp_source_is_model : forall T w fs mode,
  unfolding_dot_khatri_rao_py T (w, fs) mode = mttkrp Op T w fs mode.
Proof.
  intros T w fs mode. unfold unfolding_dot_khatri_rao_py, mttkrp. cbv zeta.
  destruct (khatri_rao Op fs w None (Some mode)) as [KR|]; destruct (unfold (r0 Op) T mode) as [U|] eqn:E; cbn [rbind]; try reflexivity.
  destruct (unfold_shape2 Op T U mode E) as [c Es]. unfold np_dot, ncols, nrows. rewrite Es. cbn [nth shape conj_t tmap rbind].
  destruct (Nat.eqb c (nth 0 (shape KR) 0)); reflexivity.
Qed.
""",
}

LEGACY_STATE = ("mode_dot", "multi_mode_dot", "khatri_rao", "kronecker", "unfolding_dot_khatri_rao", "unfolding_dot_khatri_rao_memory")
ROUTINES = [
    ("n_mode_product.py", "mode_dot", {"tensor": T, "matrix_or_vector": T, "mode": Z, "transpose": B}, T),
    ("n_mode_product.py", "multi_mode_dot", {"tensor": T, "matrix_or_vec_list": LT, "modes": OLZ, "skip": ON, "transpose": B}, T),
    ("_khatri_rao.py", "khatri_rao", {"matrices": LT, "weights": OT, "skip_matrix": ON, "mask": OT}, T),
    ("_kronecker.py", "kronecker", {"matrices": LT, "skip_matrix": ON, "reverse": B}, T),
    ("mttkrp.py", "unfolding_dot_khatri_rao", {"tensor": T, "cp_tensor": PAIR_OT_LT, "mode": N}, T),
    ("mttkrp.py", "unfolding_dot_khatri_rao_memory", {"tensor": T, "cp_tensor": PAIR_OT_LT, "mode": N}, T),
    ("outer_product.py", "outer", {"tensors": LT}, T),
    ("outer_product.py", "batched_outer", {"tensors": LT}, T),
    ("moments.py", "higher_order_moment", {"tensor": T, "order": Z}, T),
    ("generalised_inner_product.py", "inner", {"tensor1": T, "tensor2": T, "n_modes": ON}, T),
]
THEOREMS = {"mode_dot": "mode_dot_source_is_model", "khatri_rao": "khatri_rao_source_is_model", "multi_mode_dot": "multi_mode_dot_source_is_model", "kronecker": "kronecker_source_is_model",
            "unfolding_dot_khatri_rao": "mttkrp_source_is_model", "unfolding_dot_khatri_rao_memory": "mttkrp_memory_source_is_model",
            "outer": "outer_source_is_model", "batched_outer": "batched_outer_source_is_model",
            "higher_order_moment": "higher_order_moment_source_is_model", "inner": "inner_source_is_model"}


def generate(repo, routine):
    """Gallina text for one routine: regenerated definition + the theorem tying it to the model"""
    rel, name, params, ret = next(r for r in ROUTINES if r[1] == routine)
    fn = _function(repo, rel, name)
    d = Fn(fn, params, ret).definition(name + "_py")
    return (HEADER + f"(* regenerated from {name} in tensorly/tenalg/core_tenalg/{rel} *)\n" + d + "\n" + PROOFS[name] + "End G.\n")


if __name__ == "__main__":
    import sys
    repo = sys.argv[1] if len(sys.argv) > 1 else "/repo"
    for _, name, _, _ in ROUTINES:
        print(generate(repo, name))


# ----------------------------------------------------------------------------- routing: the translated sources are the code that runs
BACKEND_FILES = {"mode_dot": "n_mode_product", "multi_mode_dot": "n_mode_product", "kronecker": "_kronecker", "khatri_rao": "_khatri_rao",
                 "inner": "generalised_inner_product", "outer": "outer_product", "batched_outer": "outer_product",
                 "higher_order_moment": "moments", "tensordot": "_batched_tensordot", "unfolding_dot_khatri_rao": "mttkrp"}
# names the translator reads as model routines, per translated function: they must be bound to exactly these objects
CALLEES = {"khatri_rao": {},
           "mode_dot": {"unfold": "tensorly.base:unfold", "fold": "tensorly.base:fold", "vec_to_tensor": "tensorly.base:vec_to_tensor"},
           "multi_mode_dot": {"mode_dot": "tensorly.tenalg.core_tenalg.n_mode_product:mode_dot"},
           "kronecker": {},
           "unfolding_dot_khatri_rao": {"khatri_rao": "tensorly.tenalg.core_tenalg._khatri_rao:khatri_rao", "unfold": "tensorly.base:unfold"},
           "unfolding_dot_khatri_rao_memory": {"multi_mode_dot": "tensorly.tenalg.core_tenalg.n_mode_product:multi_mode_dot"},
           "outer": {}, "batched_outer": {},
           "higher_order_moment": {"batched_outer": "tensorly.tenalg.core_tenalg.outer_product:batched_outer"},
           "inner": {}}


def routing(repo):
    """Problems (strings) with the routing of the property's routines: under each tenalg backend the registered method of every routine
    must be the function of that name defined in tensorly/tenalg/<backend>_tenalg/<file>.py of the checked tree (the file the
    source ties parse), and inside the translated core functions the names read as model routines (mode_dot, khatri_rao, unfold,
    fold, vec_to_tensor, the backend alias T) must be bound to the intended objects."""
    import importlib, inspect
    problems = []
    import tensorly
    from tensorly.tenalg.base_tenalg import TenalgBackend
    for be in ("core", "einsum"):
        importlib.import_module(f"tensorly.tenalg.{be}_tenalg")
        cls = TenalgBackend._available_tenalg_backends.get(be)
        if cls is None:
            problems.append(f"tenalg backend {be} is not registered")
            continue
        for name, stem in BACKEND_FILES.items():
            f = getattr(cls, name, None)
            want = os.path.realpath(os.path.join(repo, "tensorly", "tenalg", f"{be}_tenalg", stem + ".py"))
            try:
                got = os.path.realpath(inspect.getsourcefile(f))
            except TypeError:
                got = None
            if f is None or got != want or getattr(f, "__name__", None) != name:
                problems.append(f"{be} backend: {name} is routed to {getattr(f, '__qualname__', f)} in {got}, not to {name} in {want}")
    for rel, name, _, _ in ROUTINES:
        mod = importlib.import_module("tensorly.tenalg.core_tenalg." + rel[:-3])
        f = getattr(mod, name, None)
        node = _function(repo, rel, name)
        if f is None or f.__code__.co_firstlineno != node.lineno:
            problems.append(f"core {name}: the loaded function is not the definition parsed from {rel}")
            continue
        for callee, target in CALLEES[name].items():
            m, a = target.split(":")
            if f.__globals__.get(callee) is not getattr(importlib.import_module(m), a, None):
                problems.append(f"core {name}: the name {callee} is not bound to {target}")
        for alias in BACKEND_ALIASES:
            if alias in f.__globals__ and alias in {n.id for n in ast.walk(node) if isinstance(n, ast.Name)} and f.__globals__[alias] is not tensorly.backend:
                # `import tensorly as tl`: the top-level package re-exports the backend's dispatched functions; every attribute the
                # function reads through the alias must be that same object
                used = {n.attr for n in ast.walk(node) if isinstance(n, ast.Attribute) and isinstance(n.value, ast.Name) and n.value.id == alias}
                obj = f.__globals__[alias]
                if not (obj is tensorly and all(getattr(obj, a, None) is getattr(tensorly.backend, a, object()) for a in used)):
                    problems.append(f"core {name}: the backend alias {alias} is not tensorly.backend")
    return problems
