"""C02 source tie for the einsum equation builders.  For every einsum-backend routine the CURRENT Python source is parsed (ast), the
single call `<backend>.einsum(<equation>, ...)` of the routine is rewritten into a recorder that captures the equation string, and
the rewritten routine is run on dummy operands over a box of requests (orders, modes, operand kinds, options).  The captured
strings are parsed into label lists and Coq (vm_compute) checks that each equals - up to a renaming of the labels - the equation
the model hands to `einsum` (Proofs/TenalgProofsEq.v eq_*; lemmas *_uses_eq), about which the index-formula theorems of
Props/C02.v are proved.  Fail closed: a routine without exactly one rewritable einsum call, an equation that cannot be parsed or a
mismatch is a broken tie."""
import ast, copy, importlib, itertools, os
import numpy as np


class Untranslatable(Exception):
    pass


class _Captured(Exception):
    def __init__(self, eq):
        self.eq = eq


def _rec(eq, *ops, **kw):
    raise _Captured(eq)


ROUTINES = {  # name -> (module under tensorly.tenalg.einsum_tenalg, function)
    "mode_dot": ("n_mode_product", "mode_dot"), "multi_mode_dot": ("n_mode_product", "multi_mode_dot"),
    "tensordot": ("_batched_tensordot", "tensordot"), "inner": ("generalised_inner_product", "inner"),
    "kronecker": ("_kronecker", "kronecker"), "khatri_rao": ("_khatri_rao", "khatri_rao"),
    "mttkrp": ("mttkrp", "unfolding_dot_khatri_rao"),
}


def rewritten(repo, name):
    """the routine with its einsum call turned into the recorder, compiled in the namespace of its own module"""
    modname, fname = ROUTINES[name]
    path = os.path.join(repo, "tensorly", "tenalg", "einsum_tenalg", modname + ".py")
    tree = ast.parse(open(path).read())
    fn = next((n for n in tree.body if isinstance(n, ast.FunctionDef) and n.name == fname), None)
    if fn is None:
        raise Untranslatable(f"no function {fname} in {path}")
    fn = copy.deepcopy(fn)
    calls = [n for n in ast.walk(fn) if isinstance(n, ast.Call) and isinstance(n.func, ast.Attribute) and n.func.attr == "einsum"]
    if len(calls) != 1:
        raise Untranslatable(f"{fname}: expected exactly one einsum call, found {len(calls)}")
    c = calls[0]
    if not c.args or isinstance(c.args[0], ast.Constant):
        raise Untranslatable(f"{fname}: the einsum call has no computed equation argument")
    c.func = ast.Name(id="__c02_rec", ctx=ast.Load())
    fn.decorator_list = []
    mod = ast.Module(body=[fn], type_ignores=[])
    ast.fix_missing_locations(mod)
    real = importlib.import_module(f"tensorly.tenalg.einsum_tenalg.{modname}")
    if os.path.realpath(real.__file__) != os.path.realpath(path):
        raise Untranslatable(f"imported module {real.__file__} is not the checked-out source {path}")
    ns = dict(vars(real)); ns["__c02_rec"] = _rec
    exec(compile(mod, path, "exec"), ns)
    return ns[fname]


def capture(f, *a, **kw):
    try:
        f(*a, **kw)
    except _Captured as e:
        return e.eq
    raise Untranslatable("the routine returned without reaching its einsum call")


def parse(eq):
    if not isinstance(eq, str) or eq.count("->") != 1 or not all(ch.isalpha() or ch in ",->" for ch in eq):
        raise Untranslatable(f"equation {eq!r}")
    lhs, out = eq.split("->")
    lab = lambda s: "[" + "; ".join(str(ord(ch) - ord("a")) if ch.islower() else str(26 + ord(ch) - ord("A")) for ch in s) + "]"
    return "([" + "; ".join(lab(t) for t in lhs.split(",")) + "], " + lab(out) + ")"


def nl(xs):
    return "[" + "; ".join(str(int(x)) for x in xs) + "]"


def onl(xs):
    return "None" if xs is None else f"(Some {nl(xs)})"


def instances(repo):
    """[(description, Gallina bool term)] over the box"""
    out = []
    z = lambda s: np.zeros(s)
    f = rewritten(repo, "mode_dot")
    for N in range(1, 5):
        for mode in range(N):
            for vec in (False, True):
                s = tuple(range(2, 2 + N))
                eq = capture(f, z(s), z((s[mode],)) if vec else z((3, s[mode])), mode)
                out.append((f"mode_dot N={N} mode={mode} vec={vec}: {eq}", f"eq_same (eq_mode_dot {N} {mode} {str(vec).lower()}) {parse(eq)}"))
    f = rewritten(repo, "multi_mode_dot")
    for N in range(1, 5):
        s = tuple(range(2, 2 + N))
        for k in range(1, N + 1):
            for modes in itertools.permutations(range(N), k):
                if N == 4 and (sum(modes) + k) % 3:
                    continue
                for kinds in itertools.product((False, True), repeat=k):
                    for skip in (None,) + tuple(range(k) if N <= 3 else ()):
                        if N >= 3 and ((sum(modes) * 7 + sum(kinds) * 3 + (0 if skip is None else 5 + skip)) % 4):
                            continue
                        ops = [z((s[m],)) if v else z((2, s[m])) for m, v in zip(modes, kinds)]
                        eq = capture(f, z(s), ops, modes=list(modes), skip=skip)
                        kl = "[" + "; ".join(str(v).lower() for v in kinds) + "]"
                        out.append((f"multi_mode_dot N={N} modes={modes} vec={kinds} skip={skip}: {eq}",
                                    f"oeq_same (eq_multi {N} {kl} (Some {nl(modes)}) {'None' if skip is None else f'(Some {skip})'}) {parse(eq)}"))
        eq = capture(f, z(s), [z((2, d)) for d in s], modes=None)
        out.append((f"multi_mode_dot N={N} modes=None: {eq}", f"oeq_same (eq_multi {N} {'[' + '; '.join(['false'] * N) + ']'} None None) {parse(eq)}"))
    f = rewritten(repo, "tensordot")
    for n1 in range(1, 4):
        for n2 in range(1, 4):
            for nc in range(0, 3):
                for nb in range(0, 2):
                    if nc + nb > min(n1, n2):
                        continue
                    for sel1 in itertools.permutations(range(n1), nc + nb):
                        for sel2 in itertools.permutations(range(n2), nc + nb):
                            if ((sum(sel1) * 5 + sum(sel2) * 3 + len(sel1)) % 3) and n1 + n2 > 4:
                                continue
                            m1, b1, m2, b2 = list(sel1[:nc]), list(sel1[nc:]), list(sel2[:nc]), list(sel2[nc:])
                            eq = capture(f, z((2,) * n1), z((2,) * n2), modes=(m1, m2), batched_modes=(b1, b2))
                            out.append((f"tensordot {n1},{n2} modes=({m1},{m2}) batched=({b1},{b2}): {eq}",
                                        f"eq_same (eq_tensordot {n1} {n2} {nl(m1)} {nl(m2)} {nl(b1)} {nl(b2)}) {parse(eq)}"))
    f = rewritten(repo, "inner")
    for n1 in range(1, 4):
        for n2 in range(1, 4):
            for n in range(0, min(n1, n2) + 1):
                eq = capture(f, z((2,) * n1), z((2,) * n2), n_modes=n)
                out.append((f"inner {n1},{n2} n_modes={n}: {eq}", f"eq_same (eq_inner {n1} {n2} {n}) {parse(eq)}"))
    f = rewritten(repo, "kronecker")
    for n in range(1, 5):
        for rev in (False, True):
            eq = capture(f, [z((2, 3))] * n, reverse=rev)
            out.append((f"kronecker n={n} reverse={rev}: {eq}", f"eq_same (eq_kronecker {n}) {parse(eq)}"))
    f = rewritten(repo, "khatri_rao")
    for n in range(2, 5):
        for hw in (False, True):
            for hm in (False, True):
                eq = capture(f, [z((2, 3))] * n, weights=(z((3,)) if hw else None), mask=(z((2,) * n) if hm else None))
                out.append((f"khatri_rao n={n} weights={hw} mask={hm}: {eq}", f"eq_same (eq_khatri_rao {n} {str(hw).lower()} {str(hm).lower()}) {parse(eq)}"))
    f = rewritten(repo, "mttkrp")
    for N in range(1, 5):
        for mode in range(N):
            s = tuple(range(2, 2 + N))
            for hw in (False, True):
                eq = capture(f, z(s), ((z((3,)) if hw else None), [z((d, 3)) for d in s]), mode)
                out.append((f"mttkrp N={N} mode={mode} weights={hw}: {eq}", f"eq_same (eq_mttkrp {N} {mode}) {parse(eq)}"))
    return out


HEADER = """From Coq Require Import List Bool. Import ListNotations.
From TLV Require Import Model.Tenalg Proofs.TenalgProofsEq.
"""


def generate(repo):
    inst = instances(repo)
    body = ";\n".join(f"  ({i}, {t})" for i, (_, t) in enumerate(inst))
    text = HEADER + f"Definition checks : list (nat * bool) := [\n{body}\n].\n" \
                    "Eval vm_compute in (length checks, map fst (filter (fun p => negb (snd p)) checks)).\n"
    return inst, text
