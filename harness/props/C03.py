"""C03 -- factorised tensors reconstruct to their defining contraction; views agree; invalid factor sets are rejected.
Correspondence: Model/Factorized.v (at Zops, inside Coq) vs tensorly/{cp,tucker,tt,tr,parafac2}_tensor.py, tt_matrix.py and
tenalg/*/_tt_matrix.py, bit-exact on integer-valued factors (cp_norm toleranced), under both tenalg backends, for tuple and
wrapper-object inputs, along multi-step view sequences on one and the same decomposition object.
Predicates (independent of the Coq model): every view equals the corresponding re-arrangement of the defining contraction
computed here with plain integer loops; reported shape/rank; stored factors untouched by taking views; malformed factor sets
are rejected by the validators / wrapper constructors and well-formed ones are accepted."""
import itertools, random
import numpy as np
from harness import common as C

HEADER = """From Coq Require Import List ZArith QArith Bool. Import ListNotations.
From TLV Require Import Base.Tensor Corr.C03.
Close Scope Q_scope."""

SKIPPED = {"timeouts": 0}

EP = {"cp": "tensorly.cp_tensor", "tucker": "tensorly.tucker_tensor", "tt": "tensorly.tt_tensor", "tr": "tensorly.tr_tensor",
      "ttm": "tensorly.tt_matrix", "p2": "tensorly.parafac2_tensor"}


# ----------------------------------------------------------------------------- literals
def arr_lit(a):
    a = np.asarray(a)
    return C.ztensor(a.shape, [int(x) for x in a.ravel().tolist()])


def arrs_lit(l):
    return "[" + "; ".join(arr_lit(a) for a in l) + "]" if len(l) else "(@nil (tensor Z))"


def is_integral(a):
    a = np.asarray(a)
    if a.dtype.kind not in "fiu":
        return False
    if a.dtype.kind == "f":
        return bool(np.all(np.isfinite(a)) and np.all(a == np.round(a)) and np.all(np.abs(a) < 2 ** 52))
    return True


def decomp_lit(d):
    k = d["kind"]
    if k == "cp":
        return f"(DCp {C.opt(d['w'], arr_lit)} {arrs_lit(d['fs'])} {C.opt(d.get('mask'), arr_lit)})"
    if k == "tucker" and d.get("modes") is not None:
        return f"(DTuckerModes {arr_lit(d['core'])} {arrs_lit(d['fs'])} {C.nat_list(d['modes'])})"
    if k == "tucker":
        return f"(DTucker {arr_lit(d['core'])} {arrs_lit(d['fs'])} {C.opt(d.get('skip'), C.nat)} {C.boolc(d.get('tr', False))})"
    if k in ("tt", "tr", "ttm"):
        return f"({ {'tt': 'DTt', 'tr': 'DTr', 'ttm': 'DTtm'}[k]} {arrs_lit(d['cores'])})"
    if k == "p2" and d.get("rational"):
        return f"(DP2Q {C.opt(d['w'], qarr_lit)} {qarrs_lit(d['fs'])} {qarrs_lit(d['ps'])})"
    if k == "p2":
        return f"(DP2 {C.opt(d['w'], arr_lit)} {arrs_lit(d['fs'])} {arrs_lit(d['ps'])})"
    raise KeyError(k)


def qarr_lit(a):
    a = np.asarray(a, dtype=np.float64)
    return C.qtensor(a.shape, [float(x) for x in a.ravel().tolist()])


def qarrs_lit(l):
    return "[" + "; ".join(qarr_lit(a) for a in l) + "]" if len(l) else "(@nil (tensor Q))"


def step_lit(st):
    k = st[0]
    if k == "view":
        return f"(SView {st[1]} {st[2]})"
    if k == "setw":
        return f"(SSetW {C.opt(st[1], arr_lit)})"
    if k == "setf":
        return f"(SSetF {arrs_lit(st[1])})"
    if k == "setcore":
        return f"(SSetCore {arr_lit(st[1])})"
    if k == "setk":
        return f"(SSetK {C.nat(st[1])} {arr_lit(st[2])})"
    raise KeyError(k)


def view_lit(v):
    n = v[0]
    if n == "unfolded" and v[1] < 0:
        return f"(VUnfoldedNeg {C.nat(-v[1])})"
    if n in ("unfolded", "slice"):
        return f"({'VUnfolded' if n == 'unfolded' else 'VSlice'} {C.nat(v[1])})"
    return {"validate": "VValidate", "tensor": "VTensor", "vec": "VVec", "norm": "VNorm", "matrix": "VMatrix", "slices": "VSlices"}[n]


def out_lit(v, res):
    st, val = res
    if st != "ok":
        return "OErr"
    try:
        if v[0] == "validate":
            shape, rank = val
            if len(shape) and isinstance(shape[0], (tuple, list)):  # PARAFAC2: tuple of slice shapes
                return "(OSS [" + "; ".join(C.nat_list(s) for s in shape) + f"] {C.nat(rank)})"
            rk = [rank] if isinstance(rank, (int, np.integer)) else list(rank)
            return f"(OSR {C.nat_list(list(shape))} {C.nat_list(rk)})"
        if v[0] == "norm":
            x = float(val)
            if not np.isfinite(x):
                return "OBad"
            return f"(ONorm {C.q(x)})"
        if v[0] == "slices":
            if not all(isinstance(s, np.ndarray) and is_integral(s) for s in val):
                return "OBad"
            return f"(OL {arrs_lit(val)})"
        if not isinstance(val, np.ndarray) or not is_integral(val):
            return "OBad"
        return f"(OT {arr_lit(val)})"
    except Exception:
        return "OBad"


# ----------------------------------------------------------------------------- independent specification (plain integers)
def I64(a):
    return np.asarray(a).astype(np.int64)


def dense_spec(d):
    """defining contraction of a WELL-FORMED decomposition, int64, written without any TensorLy function"""
    k = d["kind"]
    if k == "cp":
        fs = [I64(f).reshape(np.shape(f)[0], -1) for f in d["fs"]]   # 1-D factors of a rank-1 CP tensor are single columns
        R = fs[0].shape[1]
        w = I64(d["w"]) if d["w"] is not None else np.ones(R, dtype=np.int64)
        out = np.zeros(tuple(f.shape[0] for f in fs), dtype=np.int64)
        for r in range(R):
            term = np.array(w[r], dtype=np.int64)
            for f in fs:
                term = np.multiply.outer(term, f[:, r])
            out = out + term
        return out
    if k == "tucker":
        core = I64(d["core"]); fs = [I64(f) for f in d["fs"]]
        if d.get("modes") is not None:   # tucker_to_tensor(..., modes=ms): factor j along mode ms[j]
            res = core
            for f, m in zip(fs, d["modes"]):
                res = np.moveaxis(np.tensordot(f, res, axes=([1], [m])), 0, m)
            return res
        if d.get("tr"):
            fs = [f.T for f in fs]
        res = core
        for i, f in enumerate(fs):
            M = np.eye(core.shape[i], dtype=np.int64) if d.get("skip") == i else f
            res = np.tensordot(res, M, axes=([0], [1]))  # contracted axis leaves the front, new axis arrives at the back
        return res
    if k in ("tt", "tr"):
        cs = [I64(c) for c in d["cores"]]
        shape = tuple(c.shape[1] for c in cs)
        out = np.zeros(shape, dtype=np.int64)
        for idx in np.ndindex(*shape):
            M = cs[0][:, idx[0], :]
            for c, i in zip(cs[1:], idx[1:]):
                M = M @ c[:, i, :]
            out[idx] = M[0, 0] if k == "tt" else np.trace(M)
        return out
    if k == "ttm":
        cs = [I64(c) for c in d["cores"]]
        ins = tuple(c.shape[1] for c in cs); outs = tuple(c.shape[2] for c in cs)
        out = np.zeros(ins + outs, dtype=np.int64)
        for i in np.ndindex(*ins):
            for o in np.ndindex(*outs):
                M = cs[0][:, i[0], o[0], :]
                for c, a, b in zip(cs[1:], i[1:], o[1:]):
                    M = M @ c[:, a, b, :]
                out[i + o] = M[0, 0]
        return out
    if k == "p2":
        sl = slices_spec(d)
        A, B, Cm = [I64(f) for f in d["fs"]]
        J = max(s.shape[0] for s in sl)
        out = np.zeros((A.shape[0], J, Cm.shape[0]), dtype=np.int64)
        for i, s in enumerate(sl):
            out[i, :s.shape[0], :] = s
        return out
    raise KeyError(k)


def slices_spec(d):
    A, B, Cm = [I64(f) for f in d["fs"]]
    R = A.shape[1]
    w = I64(d["w"]) if d["w"] is not None else np.ones(R, dtype=np.int64)
    return [I64(P) @ B @ np.diag(A[i] * w) @ Cm.T for i, P in enumerate(d["ps"])]


def unfold_spec(t, m):
    s = t.shape
    rest = [x for k, x in enumerate(s) if k != m]
    u = np.zeros((s[m], int(np.prod(rest)) if rest else 1), dtype=t.dtype)
    for idx in np.ndindex(*s):
        r = [i for k, i in enumerate(idx) if k != m]
        u[idx[m], int(np.ravel_multi_index(r, rest)) if rest else 0] = t[idx]
    return u


def vec_spec(t):
    return np.array([t[idx] for idx in np.ndindex(*t.shape)], dtype=t.dtype)


def shape_rank_spec(d):
    k = d["kind"]
    if k == "cp":
        return tuple(f.shape[0] for f in d["fs"]), (d["fs"][0].shape[1] if np.ndim(d["fs"][0]) == 2 else 1)
    if k == "tucker":
        return tuple(f.shape[0] for f in d["fs"]), tuple(f.shape[1] for f in d["fs"])
    if k in ("tt", "tr"):
        return tuple(c.shape[1] for c in d["cores"]), tuple(c.shape[0] for c in d["cores"]) + (d["cores"][-1].shape[2],)
    if k == "ttm":
        return (tuple(c.shape[1] for c in d["cores"]) + tuple(c.shape[2] for c in d["cores"]),
                tuple(c.shape[0] for c in d["cores"]) + (d["cores"][-1].shape[3],))
    if k == "p2":
        return tuple((P.shape[0], d["fs"][2].shape[0]) for P in d["ps"]), d["fs"][0].shape[1]


def same_int_array(got, exp):
    return isinstance(got, np.ndarray) and got.shape == exp.shape and is_integral(got) and np.array_equal(I64(got), exp)


def view_predicate(d, v, res, dense):
    """None if the implementation's output for view v agrees with the defining contraction `dense` of the well-formed d."""
    st, val = res
    name = v[0]
    k = d["kind"]
    order = dense.ndim
    if name == "unfolded" and not (-order <= v[1] < order):
        return None if st != "ok" else f"to_unfolded accepted mode {v[1]} of an order-{order} tensor"
    if st != "ok":
        return f"{name}{v[1:]} raised on a well-formed {k} decomposition: {val}"
    if name == "validate":
        es, er = shape_rank_spec(d)
        gs, gr = val
        gs = tuple(tuple(x) if isinstance(x, (tuple, list)) else int(x) for x in gs)
        gr = int(gr) if isinstance(gr, (int, np.integer)) else tuple(int(x) for x in gr)
        if gs != es or gr != er:
            return f"reported (shape, rank) = {(gs, gr)} but the factors give {(es, er)}"
        if k != "p2" and not (d.get("skip") is not None or d.get("tr")) and tuple(es) != dense.shape:
            return f"reported shape {es} is not the shape {dense.shape} of the reconstruction"
        return None
    if name == "tensor":
        exp = dense * I64(d["mask"]) if d.get("mask") is not None else dense
        return None if same_int_array(val, exp) else "to_tensor differs from the defining contraction" + (" (masked)" if d.get("mask") is not None else "")
    if name == "unfolded":
        return None if same_int_array(val, unfold_spec(dense, v[1] % order)) else f"to_unfolded(mode={v[1]}) is not the unfolding of the reconstruction"
    if name == "vec":
        return None if same_int_array(val, vec_spec(dense)) else "to_vec is not the vectorisation of the reconstruction"
    if name == "matrix":
        n = len(d["cores"])
        rows = int(np.prod(dense.shape[:n]))
        exp = vec_spec(dense).reshape(rows, -1)
        return None if same_int_array(val, exp) else "to_matrix is not the (prod in, prod out) matricisation of the reconstruction"
    if name == "norm":
        n2 = int((dense.astype(object) ** 2).sum())
        x = float(val)
        return None if np.isfinite(x) and x >= 0 and abs(x * x - n2) <= 1e-9 * (1 + n2) else f"cp_norm^2 = {x * x!r} but the reconstruction has squared norm {n2}"
    if name == "slice":
        sl = slices_spec(d)
        if v[1] >= len(sl):
            return "slice index out of range accepted"
        return None if same_int_array(val, sl[v[1]]) else f"slice {v[1]} differs from P_i B diag(a_i) C^T"
    if name == "slices":
        sl = slices_spec(d)
        ok = isinstance(val, list) and len(val) == len(sl) and all(same_int_array(g, e) for g, e in zip(val, sl))
        return None if ok else "slices differ from P_i B diag(a_i) C^T"
    return None


# ----------------------------------------------------------------------------- running the implementation
def tl_input(d, kind):
    """fresh arrays (float64) for one route; returns (decomposition object or tuple, list of arrays to watch)"""
    import tensorly as tl
    dts = list(d.get("dtypes") or [])
    cplx = d.get("cplx")  # (key, index or None, imaginary part): that one array is stored complex
    halves = set(tuple(h) for h in (d.get("half") or []))  # stored arrays given as half-integers (their integer double is in d)

    def f(a, key=None, idx=None):
        if a is None:
            if dts: dts.pop(0)
            return None
        dt = np.dtype(dts.pop(0)) if dts else np.dtype(np.float64)
        if (key, idx) in halves:
            a = np.array(a, dtype=np.float64) / 2     # dyadic entries: still exact in float32 / float64
        if cplx is not None and cplx[0] == key and cplx[1] == idx:
            return (np.array(a, dtype=np.float64) + 1j * np.array(cplx[2], dtype=np.float64)).astype(np.complex64 if dt == np.float32 else np.complex128)
        return np.array(a).astype(dt)
    k = d["kind"]
    if k == "cp":
        w, fs = f(d["w"], "w"), [f(x, "fs", i) for i, x in enumerate(d["fs"])]
        tup, watch = (w, fs), [w] + fs
        mk = lambda: tl.cp_tensor.CPTensor(tup)
    elif k == "tucker":
        core, fs = f(d["core"], "core"), [f(x, "fs", i) for i, x in enumerate(d["fs"])]
        tup, watch = (core, fs), [core] + fs
        mk = lambda: tl.tucker_tensor.TuckerTensor(tup)
    elif k in ("tt", "tr", "ttm"):
        cs = [f(x, "cores", i) for i, x in enumerate(d["cores"])]
        tup, watch = cs, list(cs)
        cls = {"tt": tl.tt_tensor.TTTensor, "tr": tl.tr_tensor.TRTensor, "ttm": tl.tt_matrix.TTMatrix}[k]
        mk = lambda: cls(tup)
    else:
        w, fs, ps = f(d["w"], "w"), [f(x, "fs", i) for i, x in enumerate(d["fs"])], [f(x, "ps", i) for i, x in enumerate(d["ps"])]
        tup, watch = (w, fs, ps), [w] + fs + ps
        mk = lambda: tl.parafac2_tensor.Parafac2Tensor(tup)
    if kind == "tuple":
        return tup, watch, None
    st, obj = C.call_impl(mk)
    if st != "ok":
        return None, watch, (st, obj)
    return obj, watch, None


def call_view(d, x, v, kind, use_method):
    """the implementation call for view v on input x (tuple or wrapper object)"""
    import tensorly as tl
    from tensorly import cp_tensor as cp, tucker_tensor as tk, tt_tensor as tt, tr_tensor as tr, tt_matrix as tm, parafac2_tensor as p2
    k, n = d["kind"], v[0]
    wrapper = kind == "wrapper"
    if n == "validate":
        if wrapper:
            return lambda: (x.shape, x.rank)
        fn = {"cp": cp._validate_cp_tensor, "tucker": tk._validate_tucker_tensor, "tt": tt._validate_tt_tensor,
              "tr": tr._validate_tr_tensor, "ttm": tm._validate_tt_matrix, "p2": p2._validate_parafac2_tensor}[k]
        return lambda: fn(x)
    if wrapper and use_method and not (d.get("mask") is not None or d.get("skip") is not None or d.get("tr")):
        if n == "tensor": return lambda: x.to_tensor()
        if n == "vec": return lambda: x.to_vec()
        if n == "matrix": return lambda: x.to_matrix()
        if n == "norm": return lambda: x.norm()
        if n == "unfolded":
            # TTTensor / TRTensor / TTMatrix name the method to_unfolding
            meth = getattr(x, "to_unfolding", None) or x.to_unfolded
            return lambda: meth(v[1])
    if n == "norm" and k != "cp":
        return lambda: x.norm()   # FactorizedTensor.norm (wrapper objects only): l2 norm of to_tensor()
    if k == "cp":
        if n == "tensor": return (lambda: cp.cp_to_tensor(x, mask=np.array(d["mask"], dtype=np.dtype(d.get("mask_dtype") or "float64")))) if d.get("mask") is not None else (lambda: cp.cp_to_tensor(x))
        if n == "unfolded": return lambda: cp.cp_to_unfolded(x, v[1])
        if n == "vec": return lambda: cp.cp_to_vec(x)
        if n == "norm": return lambda: cp.cp_norm(x)
    if k == "tucker":
        kw = dict(skip_factor=d.get("skip"), transpose_factors=bool(d.get("tr")))
        if d.get("modes") is not None:
            kw["modes"] = list(d["modes"])
        if n == "tensor": return lambda: tk.tucker_to_tensor(x, **kw)
        if n == "unfolded": return lambda: tk.tucker_to_unfolded(x, v[1], **kw)
        if n == "vec": return lambda: tk.tucker_to_vec(x, **kw)
    if k == "tt":
        if n == "tensor": return lambda: tt.tt_to_tensor(x)
        if n == "unfolded": return lambda: tt.tt_to_unfolded(x, v[1])
        if n == "vec": return lambda: tt.tt_to_vec(x)
    if k == "tr":
        if n == "tensor": return lambda: tr.tr_to_tensor(x)
        if n == "unfolded": return lambda: tr.tr_to_unfolded(x, v[1])
        if n == "vec": return lambda: tr.tr_to_vec(x)
    if k == "ttm":
        if n == "tensor": return lambda: tm.tt_matrix_to_tensor(x)
        if n == "matrix": return lambda: tm.tt_matrix_to_matrix(x)
        if n == "unfolded": return lambda: tm.tt_matrix_to_unfolded(x, v[1])
        if n == "vec": return lambda: tm.tt_matrix_to_vec(x)
    if k == "p2":
        if n == "tensor": return lambda: p2.parafac2_to_tensor(x)
        if n == "unfolded": return lambda: p2.parafac2_to_unfolded(x, v[1])
        if n == "vec": return lambda: p2.parafac2_to_vec(x)
        if n == "slice": return lambda: p2.parafac2_to_slice(x, v[1])
        if n == "slices": return lambda: p2.parafac2_to_slices(x)
    raise KeyError((k, n))


def views_of(d, malformed):
    vs = _views_of(d, malformed)
    if d.get("negmodes") and not malformed and d["kind"] != "cp" and d.get("views") is None and not (d.get("skip") is not None or d.get("tr")):
        # modes counted from the end (tl.unfold behind to_unfolded): -1, -order, and -(order+1) which must be rejected
        order = {"tucker": lambda: len(d["fs"]), "tt": lambda: len(d["cores"]), "tr": lambda: len(d["cores"]),
                 "ttm": lambda: 2 * len(d["cores"]), "p2": lambda: 3}[d["kind"]]()
        vs = vs + [("unfolded", m) for m in sorted({-1, -order, -(order + 1)})]
    return vs


def _views_of(d, malformed):
    k = d["kind"]
    if d.get("views") is not None:
        return list(d["views"])
    if k == "cp":
        order = len(d["fs"])
        vs = [("validate",), ("tensor",), ("vec",), ("norm",)] + [("unfolded", m) for m in range(order + (0 if malformed else 1))]
        if d.get("negmodes") and not malformed:   # modes counted from the end: -1, -order, and -(order+1) which must be rejected
            vs += [("unfolded", m) for m in sorted({-1, -order, -(order + 1)})]
        if d.get("mask") is not None:
            vs = [("tensor",), ("validate",)]
        return vs
    if k == "tucker":
        order = len(d["fs"])
        vs = [("tensor",), ("vec",)] + [("unfolded", m) for m in range(order + (0 if malformed else 1))]
        if not (d.get("skip") is not None or d.get("tr")):
            vs = [("validate",)] + vs + ([] if malformed else [("norm",)])
        return vs
    if k in ("tt", "tr"):
        order = len(d["cores"])
        return [("validate",), ("tensor",), ("vec",)] + [("unfolded", m) for m in range(order + (0 if malformed else 1))] + ([] if malformed else [("norm",)])
    if k == "ttm":
        order = 2 * len(d["cores"])
        return [("validate",), ("tensor",), ("matrix",), ("vec",)] + [("unfolded", m) for m in range(order + (0 if malformed else 1))] + ([] if malformed else [("norm",)])
    if k == "p2":
        n = len(d["ps"])
        return [("validate",), ("tensor",), ("slices",), ("vec",), ("norm",)] + [("slice", i) for i in range(min(n, 3))] + [("unfolded", m) for m in range(3)]


def unhalve(d, v, res):
    """every view is linear in each stored array: with m arrays stored halved, 2^m * view is the view of the integer decomposition"""
    m = len(d.get("half") or [])
    if not m or res[0] != "ok" or v[0] == "validate":
        return res
    k = float(2 ** m)
    if v[0] == "slices":
        return ("ok", [np.asarray(a) * k for a in res[1]])
    return ("ok", np.asarray(res[1]) * k)


def _stable(watch, before, unstable, route, v, step):
    for a, b in zip(watch, before):
        if a is not None and (a.shape != b.shape or a.tobytes() != b.tobytes()):
            unstable.append((route, v, step))
            if a.shape == b.shape:
                np.copyto(a, b)  # restore, so that later views are judged on the original factors


def _extra_same_phase(d2, k):
    """round 8 (histories, C03_cp_history_views / C03_ch_history_consistent / C03_tk_history_consistent): a SECOND shape-keeping __setitem__
    phase - weights set again (twice), factors before core, the same core index set twice and then another one.  It draws from its own generator
    (seeded by the contents stored after the first phase), so the main stream of draws is what it was."""
    import zlib
    arrs = d2["fs"] if k in ("cp", "tucker") else d2["cores"]
    r2 = random.Random(zlib.crc32(repr([np.asarray(a).tolist() for a in arrs]).encode()))
    if r2.random() < 0.45:
        return None
    sets, d3 = [], dict(d2)
    if k == "cp":
        R = d2["fs"][0].shape[1]
        w3 = weights(r2, "signed", R); sets.append(("setw", w3)); d3["w"] = w3
        if r2.random() < 0.5:
            fs3 = [rint(r2, f.shape) for f in d2["fs"]]; sets.append(("setf", fs3)); d3["fs"] = fs3
        if r2.random() < 0.6:
            w4 = weights(r2, "signed", R); sets.append(("setw", w4)); d3["w"] = w4
    elif k == "tucker":
        fs3 = [rint(r2, f.shape) for f in d2["fs"]]; core3 = rint(r2, d2["core"].shape)
        sets = [("setf", fs3), ("setcore", core3)]; d3.update(core=core3, fs=fs3)
        if r2.random() < 0.5:
            fs4 = [rint(r2, f.shape) for f in fs3]; sets.append(("setf", fs4)); d3["fs"] = fs4
    else:
        cs3 = list(d2["cores"]); j = r2.randrange(len(cs3))
        for _ in range(2):
            cs3[j] = rint(r2, cs3[j].shape); sets.append(("setk", j, cs3[j]))
        if len(cs3) > 1:
            j2 = r2.choice([i for i in range(len(cs3)) if i != j])
            cs3[j2] = rint(r2, cs3[j2].shape); sets.append(("setk", j2, cs3[j2]))
        d3["cores"] = cs3
    return sets, d3


def setitem_plan(d, rng):
    """phases of __setitem__ calls for a wrapper history: [(label, [setter...], decomposition stored afterwards)]
    'same' / 'same2': arrays of the shapes they replace (the cache stays valid); 'reshaping': a stored array of another shape."""
    k = d["kind"]
    if k == "p2" or d.get("cplx") is not None or d.get("half") or (k == "cp" and any(np.ndim(f) != 2 for f in d["fs"])):
        return []
    plan = []

    def second(d2):
        extra = _extra_same_phase(d2, k)
        if extra is None:
            return d2
        plan.append(("same2", extra[0], extra[1]))
        return extra[1]
    if k == "cp":
        fs2 = [rint(rng, f.shape) for f in d["fs"]]
        sets, d2 = [("setf", fs2)], dict(d, fs=fs2)
        if rng.random() < 0.5:
            R = d["fs"][0].shape[1]
            w2 = weights(rng, "signed", R); sets.append(("setw", w2)); d2 = dict(d2, w=w2)
        plan.append(("same", sets, d2))
        d2 = second(d2); fs2 = d2["fs"]
        if d.get("mask") is None and rng.random() < 0.6:
            j = rng.randrange(len(fs2)); fs3 = list(fs2)
            if len(fs2) >= 2 and fs2[0].shape != fs2[-1].shape and rng.random() < 0.5:
                fs3 = [rint(rng, f.shape) for f in reversed(fs2)]       # same entries count, modes permuted
            else:
                fs3[j] = rint(rng, (fs2[j].shape[0] + 1, fs2[j].shape[1]))
            plan.append(("reshaping", [("setf", fs3)], dict(d2, fs=fs3)))
    elif k == "tucker":
        core2 = rint(rng, d["core"].shape); fs2 = [rint(rng, f.shape) for f in d["fs"]]
        d2 = dict(d, core=core2, fs=fs2)
        plan.append(("same", [("setcore", core2), ("setf", fs2)], d2))
        d2 = second(d2); fs2 = d2["fs"]
        if rng.random() < 0.6:
            j = rng.randrange(len(fs2)); fs3 = list(fs2); fs3[j] = rint(rng, (fs2[j].shape[0] + 1, fs2[j].shape[1]))
            plan.append(("reshaping", [("setf", fs3)], dict(d2, fs=fs3)))
    else:
        cs2 = list(d["cores"]); sets = []
        for j in rng.sample(range(len(cs2)), min(len(cs2), rng.choice([1, 2]))):
            cs2[j] = rint(rng, cs2[j].shape); sets.append(("setk", j, cs2[j]))
        d2 = dict(d, cores=cs2)
        plan.append(("same", sets, d2))
        d2 = second(d2); cs2 = d2["cores"]
        if rng.random() < 0.6:
            j = rng.randrange(len(cs2)); sh = list(cs2[j].shape); sh[1] += 1
            cs3 = list(cs2); cs3[j] = rint(rng, tuple(sh))
            plan.append(("reshaping", [("setk", j, cs3[j])], dict(d2, cores=cs3)))
    return plan


def apply_setter(x, st):
    f = lambda a: None if a is None else np.array(a, dtype=np.float64)
    if st[0] == "setw":
        new = f(st[1]); x[0] = new; return [new]
    if st[0] == "setcore":
        new = f(st[1]); x[0] = new; return [new]
    if st[0] == "setf":
        new = [f(a) for a in st[1]]; x[1] = new; return new
    if st[0] == "setk":
        new = f(st[2]); x[st[1]] = new; return [new]
    raise KeyError(st[0])


def run_routes(d, rng, malformed=False, backends=("core", "einsum")):
    """Tuple routes: every view of d along a shuffled multi-step sequence per tenalg backend -> obs [(route, view, result, d, phase)].
    Wrapper routes: one object HISTORY per backend (construction, views, __setitem__ phases, views) -> histories
    [(backend, constructed, steps)] with steps ('view', view, result) | setter tuples; their view observations are in obs too."""
    from tensorly import tenalg
    obs, unstable, histories = [], [], []
    base0 = views_of(d, malformed)
    for be in backends:
        base = base0   # (before repo 8b25fc6 np.einsum broadcast size-1 core modes / summed open boundary ranks)
        tenalg.set_backend(be)
        try:
            for kind in ("tuple", "wrapper"):
                if kind == "wrapper" and (d.get("tr") or d.get("no_wrapper") or d.get("rational")):
                    continue  # transposed storage is not a valid wrapper object
                x, watch, err = tl_input(d, kind)
                before = [None if a is None else a.copy() for a in watch]
                if err == ("crash", "timeout"):
                    SKIPPED["timeouts"] += 1
                    continue
                route = (be, kind)
                if err is not None:  # the wrapper constructor rejected the factor set
                    obs.append((route, ("validate",), err, d, "new"))
                    histories.append((be, False, []))
                    continue
                seq = list(base)
                if not malformed:
                    rng.shuffle(seq)
                    # multi-step: dense reconstruction first, some views repeated, dense reconstruction again at the end
                    seq = [("tensor",)] + seq + [rng.choice(base) for _ in range(2)] + [("tensor",)]
                steps = []
                for step, v in enumerate(seq):
                    if kind == "tuple" and v[0] == "norm" and d["kind"] != "cp":
                        continue  # only the wrapper objects have a norm outside CP
                    res = C.call_impl(call_view(d, x, v, kind, use_method=(step % 2 == 0)), timeout=30)
                    if res == ("crash", "timeout"):  # loaded machine: never a verdict, only a skipped observation
                        SKIPPED["timeouts"] += 1
                        continue
                    res = unhalve(d, v, res)
                    obs.append((route, v, res, d, "new"))
                    steps.append(("view", v, res))
                    _stable(watch, before, unstable, route, v, step)
                if kind == "wrapper" and not malformed:
                    # the wrapper must still hold the very arrays it was given
                    if d["kind"] in ("tt", "tr", "ttm"):
                        held, exp = list(x.factors), before
                    elif d["kind"] == "tucker":
                        held, exp = [x.core] + list(x.factors), before
                    elif d["kind"] == "cp":
                        held, exp = list(x.factors), before[1:]
                    else:
                        held, exp = list(x.factors) + list(x.projections), before[1:]
                    if len(held) != len(exp) or any(np.asarray(h).shape != e.shape or np.asarray(h).tobytes() != e.tobytes() for h, e in zip(held, exp)):
                        unstable.append((route, ("stored-factors",), -1))
                    # __setitem__ phases: the views must follow the stored contents
                    for label, sets, dcur in setitem_plan(d, rng):
                        ok = True
                        for st in sets:
                            r = C.call_impl(lambda: apply_setter(x, st), timeout=30)
                            if r[0] != "ok":
                                ok = False; obs.append((route, ("setitem",), r, dcur, label)); break
                            steps.append(st)
                        if not ok:
                            break
                        prng = rng if label != "same2" else random.Random(7919 * len(steps) + len(obs))   # (the second phase never draws from the main stream)
                        vs2 = [("validate",), ("tensor",), ("vec",), ("unfolded", 0)] + ([("norm",)] if label in ("same", "same2") and ("norm",) in base else [])
                        if label in ("same", "same2"):
                            vs2 += [prng.choice(base)]
                        prng.shuffle(vs2)
                        for step, v in enumerate(vs2):
                            res = C.call_impl(call_view(dcur, x, v, kind, use_method=(step % 2 == 0)), timeout=30)
                            if res == ("crash", "timeout"):
                                SKIPPED["timeouts"] += 1
                                continue
                            obs.append((route, v, res, dcur, label))
                            steps.append(("view", v, res))
                if kind == "wrapper":
                    histories.append((be, True, steps))
        finally:
            tenalg.set_backend("core")
    return obs, unstable, histories


# ----------------------------------------------------------------------------- generators
def rint(rng, shape, lo=-3, hi=3, nonzero=True):
    n = int(np.prod(shape)) if len(shape) else 1
    for _ in range(20):
        vals = [rng.randint(lo, hi) for _ in range(n)]
        if not nonzero or any(vals):
            break
    return np.array(vals, dtype=np.int64).reshape(shape)


def weights(rng, kind, R):
    if kind == "none":
        return None
    if kind == "ones":
        return np.ones(R, dtype=np.int64)
    w = np.array([rng.choice([-3, -2, 2, 3, -1, 4]) for _ in range(R)], dtype=np.int64)
    w[rng.randrange(R)] = rng.choice([-2, 3])
    return w


def shapes(orders, dims):
    for o in orders:
        for s in itertools.product(dims, repeat=o):
            yield tuple(s)


def pick_shapes(rng, tier, orders, dims=(1, 2, 3), full_to=3, sample=12, thorough_full_to=99):
    out = []
    for o in orders:
        allS = list(itertools.product(dims, repeat=o))
        if o <= full_to or (tier == "thorough" and o <= thorough_full_to):
            out += allS
        else:
            out += rng.sample(allS, min(sample, len(allS)))
    return out


def repeated_modes(rng, rk, lo=2, hi=4):
    """a list of modes with at least one repeat, and factors that fit the running shape (stable order among equal modes);
    returns (modes, factors, index of a factor whose mode occurred before and whose column count differs from the core's size or None)"""
    o = len(rk)
    k = rng.randint(lo, hi)
    ms = [rng.randrange(o) for _ in range(k)]
    ms[rng.randrange(1, k)] = ms[0]
    cur = list(rk); fs = [None] * k; later = None
    for j in sorted(range(k), key=lambda j: ms[j]):
        n = rng.choice([1, 2, 3])
        if cur[ms[j]] != rk[ms[j]]:
            later = j
        fs[j] = rint(rng, (n, cur[ms[j]])); cur[ms[j]] = n
    return ms, fs, later


def signed_perm_cols(rng, J, R):
    """J x R matrix with orthonormal integer columns (signed distinct unit vectors); needs J >= R"""
    P = np.zeros((J, R), dtype=np.int64)
    rows = rng.sample(range(J), R)
    for c, r in enumerate(rows):
        P[r, c] = rng.choice([1, -1])
    return P


def gen_valid(tier, rng):
    T = tier == "thorough"
    # ---- CP
    for s in pick_shapes(rng, tier, [1, 2, 3, 4], full_to=3, sample=10):
        for R in (1, 2, 3):
            for wk in ("none", "ones", "signed"):
                if not T and len(s) >= 3 and rng.random() < 0.5:
                    continue
                if T and len(s) >= 4 and rng.random() < 0.6:   # round 8 (timing): every order-4 shape, about 40% of its rank x weights combinations
                    continue
                yield dict(kind="cp", w=weights(rng, wk, R), fs=[rint(rng, (n, R)) for n in s], wk=wk, negmodes=(len(s) <= 2 or rng.random() < 0.4))
            # masked route (entrywise 0/1 mask and a general integer mask)
            if len(s) >= 1 and ((T and (len(s) < 4 or rng.random() < 0.35)) or (not T and rng.random() < 0.6)):
                wk = rng.choice(["none", "ones", "signed"])
                mk = rint(rng, s, 0, 1, nonzero=False) if rng.random() < 0.7 else rint(rng, s, -1, 2, nonzero=False)
                yield dict(kind="cp", w=weights(rng, wk, R), fs=[rint(rng, (n, R)) for n in s], mask=mk, wk=wk, mask_dtype=rng.choice(["float64", "int64"]))
            if len(s) == 1:
                # order-1 CP tensors ("just a vector" branch) with weights=None, on every run: a 0/1 mask that hides an entry (bool / int64 /
                # float64 array) and a general integer mask (a mask applied twice, or not at all, shows)
                n = s[0]
                m01 = np.ones(n, dtype=np.int64)
                m01[rng.randrange(n)] = 0                      # one hidden entry; n >= 2: at least one visible one
                if n >= 3 and rng.random() < 0.5:
                    m01[rng.choice([j for j in range(n) if m01[j] == 1])] = 0
                mg = np.array([rng.choice([-1, 2, 3]) for _ in range(n)], dtype=np.int64)
                for mk, mdt in ((m01, rng.choice(["bool", "int64", "float64"])), (mg, rng.choice(["int64", "float64"]))):
                    f1 = rint(rng, (n, R))
                    for j in range(n):                  # no zero entry in the vector: a hidden entry is visibly hidden
                        if f1[j].sum() == 0:
                            f1[j, 0] += 1
                    yield dict(kind="cp", w=None, fs=[f1], mask=mk, wk="none", mask_dtype=mdt)
    # ---- Tucker
    for s in pick_shapes(rng, tier, [1, 2, 3, 4], full_to=2, sample=14 if not T else 54, thorough_full_to=3):
        for rep in range(2 if (not T or len(s) >= 4) else 3):   # (round 8, timing: two rank draws per order-4 shape in the thorough tier too)
            rk = tuple(rng.choice([1, 2, 3]) for _ in s)
            core = rint(rng, rk)
            fs = [rint(rng, (n, r)) for n, r in zip(s, rk)]
            yield dict(kind="tucker", core=core, fs=fs, negmodes=(rep == 0))
            if rep == 0 and len(s) >= 2:
                # tucker_to_tensor(..., modes=ms): a random non-empty selection of pairwise distinct modes in random order
                ms = rng.sample(range(len(s)), rng.randint(1, len(s)))
                yield dict(kind="tucker", core=core, fs=[rint(rng, (rng.choice([1, 2, 3]), rk[m])) for m in ms], modes=ms, views=[("tensor",)], no_wrapper=True)
                # repeated modes: the (factor, mode) pairs are sorted by mode (stable) and multiplied one after the other, a later factor of
                # the same mode contracting the size the earlier one left
                ms2, fs2, _ = repeated_modes(rng, rk)
                yield dict(kind="tucker", core=core, fs=fs2, modes=ms2, views=[("tensor",)], no_wrapper=True)
            if rep == 0:
                yield dict(kind="tucker", core=core, fs=fs, skip=rng.randrange(len(s)))
                yield dict(kind="tucker", core=core, fs=[f.T.copy() for f in fs], tr=True, skip=(rng.randrange(len(s)) if rng.random() < 0.4 else None))
    # ---- TT / TR
    for s in pick_shapes(rng, tier, [1, 2, 3, 4], full_to=2, sample=14 if not T else 54, thorough_full_to=3):
        for rep in range(2 if (not T or len(s) >= 4) else 3):
            rk = [1] + [rng.choice([1, 2, 3]) for _ in range(len(s) - 1)] + [1]
            yield dict(kind="tt", cores=[rint(rng, (rk[i], n, rk[i + 1])) for i, n in enumerate(s)], negmodes=(rep == 0))
            if len(s) >= 2:
                r0 = rng.choice([1, 2, 3])
                rk = [r0] + [rng.choice([1, 2, 3]) for _ in range(len(s) - 1)] + [r0]
                yield dict(kind="tr", cores=[rint(rng, (rk[i], n, rk[i + 1])) for i, n in enumerate(s)], negmodes=(rep == 0))
    # ---- TT-matrix
    for n in (1, 2, 3):
        for rep in range((6 if n < 3 else 4) if not T else 18):
            ins = [rng.choice([1, 2, 3]) for _ in range(n)]; outs = [rng.choice([1, 2, 3]) for _ in range(n)]
            if n == 3 and not T:
                ins = [rng.choice([1, 2]) for _ in range(n)]; outs = [rng.choice([1, 2]) for _ in range(n)]
            rk = [1] + [rng.choice([1, 2, 3]) for _ in range(n - 1)] + [1]
            yield dict(kind="ttm", cores=[rint(rng, (rk[i], ins[i], outs[i], rk[i + 1])) for i in range(n)], negmodes=(rep % 2 == 0))
    # ---- PARAFAC2 (uneven slices; integer orthonormal projections are signed partial permutations)
    for I in (1, 2, 3):
        for R in (1, 2, 3):
            for rep in range(2 if not T else 6):
                K = rng.choice([1, 2, 3])
                Js = [rng.choice([j for j in (1, 2, 3, 4) if j >= R]) for _ in range(I)]
                if rep == 0 and I > 1:
                    Js[0] = R; Js[-1] = R + 1  # certainly uneven
                wk = rng.choice(["none", "ones", "signed"])
                yield dict(kind="p2", w=weights(rng, wk, R), fs=[rint(rng, (I, R)), rint(rng, (R, R)), rint(rng, (K, R))],
                           ps=[signed_perm_cols(rng, J, R) for J in Js], wk=wk, negmodes=(rep == 0))
    if T:
        # larger random decompositions (object histories for a third of them: the enumerated boxes above carry the wrapper coverage)
        nw = lambda: rng.random() < 0.67
        for _ in range(120):
            o = rng.randint(2, 5); s = [rng.randint(1, 4) for _ in range(o)]; R = rng.randint(1, 5)
            yield dict(kind="cp", w=weights(rng, rng.choice(["none", "ones", "signed"]), R), fs=[rint(rng, (n, R)) for n in s], no_wrapper=nw())
            rk = [1] + [rng.randint(1, 4) for _ in range(o - 1)] + [1]
            yield dict(kind="tt", cores=[rint(rng, (rk[i], n, rk[i + 1]), -2, 2) for i, n in enumerate(s)], no_wrapper=nw())
            r0 = rng.randint(1, 3); rk = [r0] + [rng.randint(1, 3) for _ in range(o - 1)] + [r0]
            yield dict(kind="tr", cores=[rint(rng, (rk[i], n, rk[i + 1]), -2, 2) for i, n in enumerate(s)], no_wrapper=nw())
            rk = [rng.randint(1, 3) for _ in s]
            yield dict(kind="tucker", core=rint(rng, rk, -2, 2), fs=[rint(rng, (n, r), -2, 2) for n, r in zip(s, rk)], no_wrapper=nw())


def base_decomps(rng):
    """one small decomposition per family (for the dtype / complex variants)"""
    o = rng.randint(2, 3); sh = [rng.randint(1, 3) for _ in range(o)]; R = rng.randint(1, 3)
    yield dict(kind="cp", w=weights(rng, rng.choice(["none", "signed"]), R), fs=[rint(rng, (n, R)) for n in sh])
    rk = [rng.randint(1, 3) for _ in sh]
    yield dict(kind="tucker", core=rint(rng, rk), fs=[rint(rng, (n, r)) for n, r in zip(sh, rk)])
    rk = [1] + [rng.randint(1, 3) for _ in range(o - 1)] + [1]
    yield dict(kind="tt", cores=[rint(rng, (rk[i], n, rk[i + 1])) for i, n in enumerate(sh)])
    r0 = rng.randint(1, 3); rk = [r0] + [rng.randint(1, 3) for _ in range(o - 1)] + [r0]
    yield dict(kind="tr", cores=[rint(rng, (rk[i], n, rk[i + 1])) for i, n in enumerate(sh)])
    ins = [rng.randint(1, 2) for _ in range(2)]; outs = [rng.randint(1, 3) for _ in range(2)]; r1 = rng.randint(1, 3)
    yield dict(kind="ttm", cores=[rint(rng, (1, ins[0], outs[0], r1)), rint(rng, (r1, ins[1], outs[1], 1))])
    I = rng.randint(2, 3); R = rng.randint(1, 2); K = rng.randint(1, 3); Js = [R + (i % 2) for i in range(I)]
    yield dict(kind="p2", w=weights(rng, rng.choice(["none", "signed"]), R), fs=[rint(rng, (I, R)), rint(rng, (R, R)), rint(rng, (K, R))],
               ps=[signed_perm_cols(rng, J, R) for J in Js])


def stored_arrays(d):
    """(key, index) of the arrays a decomposition stores, in the order tl_input builds them"""
    k = d["kind"]
    if k == "cp":
        return [("w", None)] + [("fs", i) for i in range(len(d["fs"]))]
    if k == "tucker":
        return [("core", None)] + [("fs", i) for i in range(len(d["fs"]))]
    if k == "p2":
        return [("w", None)] + [("fs", i) for i in range(3)] + [("ps", i) for i in range(len(d["ps"]))]
    return [("cores", i) for i in range(len(d["cores"]))]


def gen_dtype_variants(tier, rng):
    """mixed-dtype factor sets: an int64 0/1 indicator factor next to float32 / float64 arrays; one complex array among real ones"""
    for _ in range(2 if tier == "quick" else 8):
        for d in base_decomps(rng):
            slots = stored_arrays(d)
            # (a) real dtypes, at least two different ones, one integer indicator array
            d1 = dict(d); dts = [rng.choice(["float32", "float64"]) for _ in slots]
            cand = [j for j, (key, i) in enumerate(slots) if key in ("fs", "cores", "core")]
            j = rng.choice(cand); key, i = slots[j]; dts[j] = "int64"
            if i is None:
                d1[key] = rint(rng, d[key].shape, 0, 1)
            else:
                l = list(d[key]); l[i] = rint(rng, l[i].shape, 0, 1); d1[key] = l
            if d["kind"] == "p2":   # the projections stay exact in any dtype; give one of them an integer dtype as well
                dts[-1] = "int64"
            other = [x for x in range(len(slots)) if x != j and d1.get(slots[x][0]) is not None]
            if other:
                dts[rng.choice(other)] = "float32"
            d1["dtypes"] = dts
            yield d1
            # the same with half-integer entries in every floating-point array except the projections (an integer work array
            # anywhere on the way would truncate them); the observed views are scaled back by 2^m before they are compared
            d1h = dict(d1, no_wrapper=False, half=[list(sl) for sl, dt in zip(slots, dts) if dt != "int64" and sl[0] != "ps" and d1.get(sl[0]) is not None])
            yield d1h
            # (b) one complex array (complex64 next to float32 data, complex128 otherwise)
            cand = [sl for sl in slots if sl[0] != "ps" and not (sl[0] == "w" and d.get("w") is None)]
            for key, i in [cand[0]] + ([rng.choice(cand[1:])] if len(cand) > 1 else []):   # the first stored array (weights / core / first core) and one other
                d2 = dict(d)
                base = d[key] if i is None else d[key][i]
                d2["cplx"] = (key, i, rint(rng, base.shape))
                d2["dtypes"] = [rng.choice(["float32", "float64"]) for _ in slots] if rng.random() < 0.5 else None
                d2["views"] = [v for v in views_of(d, False) if v[0] != "norm"]
                yield d2


def gen_malformed(tier, rng):
    """factor sets that are structurally invalid (plus a few degenerate-but-valid neighbours)"""
    reps = 3 if tier == "quick" else 10
    V = [("validate",)]
    for _ in range(reps):
        # --- CP
        o = rng.randint(2, 3); s = [rng.randint(1, 3) for _ in range(o)]; R = rng.randint(1, 3)
        fs = [rint(rng, (n, R)) for n in s]
        bad = list(fs); j = rng.randrange(o); bad[j] = rint(rng, (s[j], R + 1))
        yield dict(kind="cp", w=None, fs=bad, why="mismatched ranks")
        yield dict(kind="cp", w=np.ones(R, dtype=np.int64), fs=bad, why="mismatched ranks")
        yield dict(kind="cp", w=rint(rng, (R + 1,)), fs=fs, why="weights of the wrong length")
        if R >= 2:
            jj = rng.randrange(1, o); badm = list(fs); badm[jj] = rint(rng, (s[jj], R - 1))
            yield dict(kind="cp", w=None, fs=badm, why="mismatched ranks (a later factor has fewer columns)")
            yield dict(kind="cp", w=rint(rng, (R - 1,)), fs=fs, why="weights too short")
        yield dict(kind="cp", w=rint(rng, (R, 1)), fs=fs, why="2-D weights", views=V)
        bad3 = list(fs); bad3[j] = rint(rng, (s[j], R, 1))
        yield dict(kind="cp", w=None, fs=bad3, why="3-D factor", views=V)
        bad1 = list(fs); bad1[j] = rint(rng, (s[j],))
        V1D = [("validate",), ("tensor",), ("vec",), ("unfolded", 0), ("unfolded", 1), ("norm",)]
        yield dict(kind="cp", w=None, fs=bad1, why="1-D factor next to rank-R factors" if R > 1 else "1-D factor (rank 1: accepted)", views=V1D, onedim=True)
        vecs = [rint(rng, (n,)) for n in s]
        yield dict(kind="cp", w=rng.choice([None, rint(rng, (1,))]), fs=vecs, why="all factors 1-D (rank 1: accepted)", views=V1D, onedim=True)
        # all factors 1-D with pairwise distinct sizes >= 2: no accidental shape alignment, every un-masked route raises (this class
        # goes through the Coq correspondence with all its views; the other 1-D combinations only with the validator)
        vecs = [rint(rng, (n,)) for n in rng.sample([2, 3, 4], rng.randint(2, 3))]
        yield dict(kind="cp", w=rng.choice([None, rint(rng, (1,))]), fs=vecs, why="all factors 1-D, distinct sizes (rank 1: accepted)", views=V1D, onedim=True, onedim_exact=True)
        yield dict(kind="cp", w=None, fs=vecs, mask=rint(rng, tuple(len(v_) for v_ in vecs), 0, 1, nonzero=False), why="all factors 1-D, masked", views=[("tensor",), ("validate",)], onedim=True)
        mixed1 = [rint(rng, (s[0], 1))] + [rint(rng, (n,)) for n in s[1:]]
        yield dict(kind="cp", w=None, fs=mixed1, why="first factor a column, the others 1-D (rank 1: accepted)", views=V1D, onedim=True)
        # --- Tucker
        rk = [rng.randint(1, 3) for _ in s]
        core = rint(rng, rk); tf = [rint(rng, (n, r)) for n, r in zip(s, rk)]
        badt = list(tf); badt[j] = rint(rng, (s[j], rk[j] + 1))
        yield dict(kind="tucker", core=core, fs=badt, why="factor columns differ from the core size")
        if rk[j] >= 2:
            badt2 = list(tf); badt2[j] = rint(rng, (s[j], rk[j] - 1))
            yield dict(kind="tucker", core=core, fs=badt2, why="factor has fewer columns than the core size")
        yield dict(kind="tucker", core=core, fs=tf + [rint(rng, (2, 2))], why="more factors than core modes")
        yield dict(kind="tucker", core=core, fs=tf[:-1], why="fewer factors than core modes", views=V)
        yield dict(kind="tucker", core=rint(rng, (rk[0],)), fs=[tf[0]], why="a single factor", views=V)
        bad3 = list(tf); bad3[j] = rint(rng, (s[j], rk[j], 1))
        yield dict(kind="tucker", core=core, fs=bad3, why="3-D factor", views=V)
        # operands np.einsum can broadcast (the core route refuses them): a size-1 core mode against an R-column factor, a one-column
        # factor against a core mode of size c > 1; and a superfluous factor that is skipped
        ob = rng.randint(2, 3); sb = [rng.randint(1, 3) for _ in range(ob)]; rb = [rng.randint(2, 3) for _ in sb]; jb = rng.randrange(ob)
        rb1 = list(rb); rb1[jb] = 1
        yield dict(kind="tucker", core=rint(rng, rb1), fs=[rint(rng, (n, r)) for n, r in zip(sb, rb)], why="size-1 core mode against a factor with several columns",
                   skip=(rng.choice([x for x in range(ob) if x != jb]) if rng.random() < 0.3 else None))
        fb = [rint(rng, (n, r)) for n, r in zip(sb, rb)]; fb[jb] = rint(rng, (sb[jb], 1))
        yield dict(kind="tucker", core=rint(rng, rb), fs=fb, why="one-column factor against a core mode of size > 1")
        fbt = [f.T.copy() for f in fb]
        yield dict(kind="tucker", core=rint(rng, rb), fs=fbt, tr=True, why="one-row factor (transpose_factors) against a core mode of size > 1")
        msb = rng.sample(range(ob), rng.randint(1, ob)); jm = rng.randrange(len(msb))
        yield dict(kind="tucker", core=rint(rng, rb), fs=[rint(rng, (2, rb[m] + (1 if j == jm else 0))) for j, m in enumerate(msb)], modes=msb, views=[("tensor",)],
                   no_wrapper=True, why="modes=...: a factor whose columns differ from the core size along ITS mode")
        for _try in range(6):
            msr, fsr, later = repeated_modes(rng, rb)
            if later is not None and fsr[later].shape[1] != rb[msr[later]]:
                fsr = list(fsr); fsr[later] = rint(rng, (fsr[later].shape[0], rb[msr[later]]))
                yield dict(kind="tucker", core=rint(rng, rb), fs=fsr, modes=msr, views=[("tensor",)], no_wrapper=True,
                           why="modes=... with a repeated mode: the later factor has the column count of the ORIGINAL core mode, not of the size the earlier factor left")
                break
        yield dict(kind="tucker", core=rint(rng, rb), fs=[rint(rng, (n, r)) for n, r in zip(sb, rb)] + [rint(rng, (2, 2))], skip=ob,
                   why="more factors than core modes, the superfluous one skipped")
        # --- TT
        o = rng.randint(1, 3); s = [rng.randint(1, 3) for _ in range(o)]
        rk = [1] + [rng.randint(1, 3) for _ in range(o - 1)] + [1]
        mkc = lambda rk: [rint(rng, (rk[i], n, rk[i + 1])) for i, n in enumerate(s)]
        b = list(rk); b[0] = rng.choice([2, 3]); yield dict(kind="tt", cores=mkc(b), why="first boundary rank is not 1")
        b = list(rk); b[-1] = rng.choice([2, 3]); yield dict(kind="tt", cores=mkc(b), why="last boundary rank is not 1")
        if o >= 2:
            cs = mkc(rk); i = rng.randrange(o - 1)
            cs[i] = rint(rng, (rk[i], s[i], rk[i + 1] + 1)); yield dict(kind="tt", cores=cs, why="consecutive ranks differ")
            if rk[i + 1] >= 2:
                cs = mkc(rk); cs[i] = rint(rng, (rk[i], s[i], rk[i + 1] - 1)); yield dict(kind="tt", cores=cs, why="consecutive ranks differ (smaller)")
        # first boundary rank r0 > 1 whose product with the next rank is the left rank of the second core: the reshape / dot chain of
        # tt_to_tensor goes through (no validation inside)
        r0b = rng.choice([2, 3]); r1b = rng.choice([1, 2]); nb = [rng.randint(1, 3) for _ in range(2)]
        yield dict(kind="tt", cores=[rint(rng, (r0b, nb[0], r1b)), rint(rng, (r0b * r1b, nb[1], 1))], why="first boundary rank is not 1 (the products of the ranks happen to fit)")
        cs = mkc(rk); i = rng.randrange(o); cs[i] = rint(rng, (rk[i], s[i])); yield dict(kind="tt", cores=cs, why="2-D core", views=V)
        cs = mkc(rk); cs[i] = rint(rng, (rk[i], s[i], 1, rk[i + 1])); yield dict(kind="tt", cores=cs, why="4-D core", views=V)
        # --- TR
        o = rng.randint(2, 3); s = [rng.randint(1, 3) for _ in range(o)]
        r0 = rng.randint(1, 3); rk = [r0] + [rng.randint(1, 3) for _ in range(o - 1)] + [r0]
        b = list(rk); b[-1] = r0 + 1; yield dict(kind="tr", cores=mkc(b), why="ring not closed")
        b = list(rk); b[0] = r0 + 1; yield dict(kind="tr", cores=mkc(b), why="ring not closed")
        cs = mkc(rk); i = rng.randrange(o - 1); cs[i] = rint(rng, (rk[i], s[i], rk[i + 1] + 1)); yield dict(kind="tr", cores=cs, why="consecutive ranks differ")
        yield dict(kind="tr", cores=[rint(rng, (r0, s[0], r0))], why="a single core")
        ra, rb_ = rng.sample([1, 2, 3], 2); nb2 = [rng.randint(1, 3) for _ in range(2)]
        yield dict(kind="tr", cores=[rint(rng, (ra, nb2[0], rb_)), rint(rng, (ra, nb2[1], rb_))],
                   why="two cores, the last one with its two ranks swapped (the reshape / moveaxis / dot closure of tr_to_tensor goes through)")
        if r0 >= 2:
            b = list(rk); b[-1] = r0 - 1; yield dict(kind="tr", cores=mkc(b), why="ring not closed (last rank smaller)")
        cs = mkc(rk); cs[i] = rint(rng, (rk[i], s[i])); yield dict(kind="tr", cores=cs, why="2-D core", views=V)
        # --- TT-matrix (the einsum backend sums over open boundary ranks instead of failing: only the validators are compared)
        n = rng.randint(1, 2); ins = [rng.randint(1, 2) for _ in range(n)]; outs = [rng.randint(1, 3) for _ in range(n)]
        rk = [1] + [rng.randint(1, 3) for _ in range(n - 1)] + [1]
        mk4 = lambda rk: [rint(rng, (rk[i], ins[i], outs[i], rk[i + 1])) for i in range(n)]
        b = list(rk); b[0] = 2; yield dict(kind="ttm", cores=mk4(b), why="first boundary rank is not 1")
        b = list(rk); b[-1] = 3; yield dict(kind="ttm", cores=mk4(b), why="last boundary rank is not 1")
        b = list(rk); b[0] = b[-1] = 2; yield dict(kind="ttm", cores=mk4(b), why="both boundary ranks are 2 (an open chain, not a ring: einsum sums over each separately)")
        if n >= 2:
            cs = mk4(rk); cs[0] = rint(rng, (1, ins[0], outs[0], rk[1] + 1)); yield dict(kind="ttm", cores=cs, why="consecutive ranks differ")
        ins2 = [rng.randint(1, 2) for _ in range(2)]; outs2 = [rng.randint(1, 2) for _ in range(2)]; rr = rng.choice([2, 3])
        yield dict(kind="ttm", cores=[rint(rng, (1, ins2[0], outs2[0], rr)), rint(rng, (1, ins2[1], outs2[1], 1))], why="inner rank r against a next core of left rank 1")
        yield dict(kind="ttm", cores=[rint(rng, (1, ins2[0], outs2[0], 1)), rint(rng, (rr, ins2[1], outs2[1], 1))], why="inner rank 1 against a next core of left rank r")
        cs = mk4(rk); cs[0] = rint(rng, (1, ins[0], rk[1])); yield dict(kind="ttm", cores=cs, why="3-D core", views=V)
        # --- PARAFAC2
        I = rng.randint(1, 3); R = rng.randint(1, 3); K = rng.randint(1, 3)
        Js = [rng.randint(R, R + 2) for _ in range(I)]
        A, B, Cm = rint(rng, (I, R)), rint(rng, (R, R)), rint(rng, (K, R))
        ps = [signed_perm_cols(rng, J, R) for J in Js]
        P2V = [("validate",), ("tensor",), ("slices",), ("slice", 0), ("vec",)]
        bad = [p.copy() for p in ps]; i = rng.randrange(I); bad[i][rng.randrange(Js[i]), rng.randrange(R)] += rng.choice([1, 2])
        yield dict(kind="p2", w=None, fs=[A, B, Cm], ps=bad, why="non-orthonormal projection", views=P2V)
        if R >= 2:
            bad = [p.copy() for p in ps]; bad[i][:, 1] = bad[i][:, 0]
            yield dict(kind="p2", w=None, fs=[A, B, Cm], ps=bad, why="non-orthonormal projection (repeated column)", views=P2V)
        bad = [p.copy() for p in ps]; bad[i][:, rng.randrange(R)] = 0
        yield dict(kind="p2", w=None, fs=[A, B, Cm], ps=bad, why="non-orthonormal projection (zero column: P^T P - I has a -1)", views=P2V)
        bad = [p.copy() for p in ps]; bad[i] = 2 * bad[i]
        yield dict(kind="p2", w=None, fs=[A, B, Cm], ps=bad, why="non-orthonormal projection (scaled)", views=P2V)
        half = [p.astype(np.float64) for p in ps]; half[i][:, rng.randrange(R)] *= 0.5
        yield dict(kind="p2", rational=True, w=None, fs=[A, B, Cm], ps=half, why="sub-orthonormal projection (a column shrunk to length 1/2: no entry of P^T P - I is positive)", views=V)
        half = [p.astype(np.float64) for p in ps]; half[i] = half[i] * 0.5
        yield dict(kind="p2", rational=True, w=None, fs=[A, B, Cm], ps=half, why="sub-orthonormal projection (whole projection scaled by 1/2)", views=V)
        P1 = [signed_perm_cols(rng, rng.randint(1, 3), 1).astype(np.float64) for _ in range(I)]; P1[i] = P1[i] * rng.choice([0.5, 0.25, 0.0])
        yield dict(kind="p2", rational=True, w=None, fs=[rint(rng, (I, 1)), rint(rng, (1, 1)), rint(rng, (K, 1))], ps=P1,
                   why="rank-1 projection scaled below unit length", views=V)
        okq = [p.astype(np.float64) for p in ps]
        yield dict(kind="p2", rational=True, w=None, fs=[A, B, Cm], ps=okq, why="(control) orthonormal projections through the rational model", views=V)
        yield dict(kind="p2", w=None, fs=[A, rint(rng, (R + 1, R)), Cm], ps=ps, why="B with R+1 rows (accepted by the validator, no reconstruction exists)", views=P2V + [("unfolded", 0)], late_reject=True)
        if R >= 2:
            yield dict(kind="p2", w=rint(rng, (R,)), fs=[A, rint(rng, (R - 1, R)), Cm], ps=ps, why="B with R-1 rows (accepted by the validator, no reconstruction exists)", views=P2V, late_reject=True)
        yield dict(kind="p2", w=None, fs=[A, B, Cm], ps=ps + [ps[0]], why="one projection too many", views=P2V)
        if I >= 2:
            yield dict(kind="p2", w=None, fs=[A, B, Cm], ps=ps[:-1], why="one projection too few", views=P2V)
        bad = [p.copy() for p in ps]; bad[i] = signed_perm_cols(rng, Js[i] + 1, R + 1)
        yield dict(kind="p2", w=None, fs=[A, B, Cm], ps=bad, why="projection with the wrong number of columns", views=P2V)
        yield dict(kind="p2", w=None, fs=[A, B, rint(rng, (K, R + 1))], ps=ps, why="C with the wrong number of columns", views=P2V)
        yield dict(kind="p2", w=None, fs=[A, rint(rng, (R, R + 1)), Cm], ps=ps, why="B with the wrong number of columns", views=P2V)
        yield dict(kind="p2", w=rint(rng, (R + 1,)), fs=[A, B, Cm], ps=ps, why="weights of the wrong length", views=P2V)
        yield dict(kind="p2", w=None, fs=[A, B], ps=ps, why="two factors only", views=V)
    # --- PARAFAC2, on every run: exactly ONE projection is not orthonormal, at the first / a middle / the last position; the validator, the
    # wrapper constructor and every reconstruction view (all slices) under both backends must refuse the set
    for I in ((3,) if tier == "quick" else (3, 4, 5)):
        for pos, i in (("first", 0), ("middle", I // 2), ("last", I - 1)):
            kinds = ["entry", "zero", "scaled", "repeated"]
            rng.shuffle(kinds)
            for defect in kinds[:2 if tier == "quick" else 4]:
                R = rng.randint(2 if defect == "repeated" else 1, 3); K = rng.randint(1, 3)
                Js = [rng.randint(R, R + 2) for _ in range(I)]
                ps = [signed_perm_cols(rng, J, R) for J in Js]
                bad = [p.copy() for p in ps]
                if defect == "entry":
                    bad[i][rng.randrange(Js[i]), rng.randrange(R)] += rng.choice([1, 2])
                elif defect == "zero":
                    bad[i][:, rng.randrange(R)] = 0
                elif defect == "scaled":
                    bad[i] = rng.choice([2, -2, 3]) * bad[i]
                else:
                    c = rng.randrange(1, R); bad[i][:, c] = bad[i][:, 0]
                wk = rng.choice(["none", "ones", "signed"])
                if defect == kinds[0]:
                    # slightly off: one entry of that projection multiplied by 1 + 2^-10 (P^T P - I about 2e-3: well above the validator's 1e-5
                    # threshold, far below any integer defect); validator only, through the rational model
                    near = [p.astype(np.float64) for p in ps]
                    rr, cc = [int(x[0]) for x in np.nonzero(near[i])]
                    near[i][rr, cc] *= (1 + 2.0 ** -10)
                    yield dict(kind="p2", rational=True, w=None, fs=[rint(rng, (I, R)), rint(rng, (R, R)), rint(rng, (K, R))], ps=near,
                               why=f"only the {pos} of {I} projections is slightly off (one entry times 1 + 2^-10)", views=[("validate",)])
                yield dict(kind="p2", w=weights(rng, wk, R), wk=wk, fs=[rint(rng, (I, R)), rint(rng, (R, R)), rint(rng, (K, R))], ps=bad,
                           why=f"only the {pos} of {I} projections is not orthonormal ({defect})",
                           views=[("validate",), ("tensor",), ("slices",), ("vec",)] + [("slice", j) for j in range(I)] + [("unfolded", m) for m in range(3)])
    # --- round 8, on every run (own generator: the main stream of draws is unchanged): degenerate chains whose boundary checks sit on special
    # indices - a SINGLE core with a wrong first / last / both boundary ranks (TT, TT-matrix), and the shortest rings (two cores, one link open)
    r3 = random.Random(8)
    n = r3.randint(1, 3)
    for a, c in ((2, 1), (1, 2), (2, 2), (3, 1)):
        yield dict(kind="tt", cores=[rint(r3, (a, n, c))], why=f"single core with boundary ranks ({a}, {c})")
        yield dict(kind="ttm", cores=[rint(r3, (a, n, r3.randint(1, 2), c))], why=f"single core with boundary ranks ({a}, {c})")
    for a, b, c, e in ((1, 2, 2, 2), (2, 2, 2, 1), (2, 1, 2, 2)):
        yield dict(kind="tr", cores=[rint(r3, (a, n, b)), rint(r3, (c, 2, e))], why=f"two-core ring with ranks ({a},{b}) ({c},{e})")


def well_formed_py(d):
    """spec-level well-formedness, written independently of the validators"""
    k = d["kind"]
    try:
        if k == "cp":
            fs = d["fs"]
            if not fs:
                return False
            cols = [f.shape[1] if f.ndim == 2 else (1 if f.ndim == 1 else None) for f in fs]
            if None in cols or len(set(cols)) != 1:
                return False
            return d["w"] is None or d["w"].shape == (cols[0],)
        if k == "tucker":
            fs, core = d["fs"], d["core"]
            if d.get("modes") is not None:
                ms = list(d["modes"])
                if len(ms) != len(fs) or not all(0 <= m < core.ndim for m in ms) or not all(f.ndim == 2 for f in fs):
                    return False
                cur = list(core.shape)   # running shape; the pairs of one mode act in list order
                for f, m in zip(fs, ms):
                    if f.shape[1] != cur[m]:
                        return False
                    cur[m] = f.shape[0]
                return True
            if d.get("tr"):   # transpose_factors=True: the stored matrices are the transposed factors
                fs = [f.T if f.ndim == 2 else f for f in fs]
            return len(fs) >= 2 and len(fs) == core.ndim and all(f.ndim == 2 and f.shape[1] == core.shape[i] for i, f in enumerate(fs))
        if k in ("tt", "tr", "ttm"):
            cs = d["cores"]; nd = 4 if k == "ttm" else 3
            if not cs or any(c.ndim != nd for c in cs):
                return False
            if any(cs[i].shape[-1] != cs[i + 1].shape[0] for i in range(len(cs) - 1)):
                return False
            if k == "tr":
                return len(cs) >= 2 and cs[0].shape[0] == cs[-1].shape[-1]
            return cs[0].shape[0] == 1 and cs[-1].shape[-1] == 1
        if k == "p2":
            fs, ps = d["fs"], d["ps"]
            if len(fs) != 3 or any(f.ndim != 2 for f in fs):
                return False
            R = fs[0].shape[1]
            if len(ps) != fs[0].shape[0] or fs[1].shape[1] != R or fs[2].shape[1] != R:
                return False
            F64 = lambda a: np.asarray(a, dtype=np.float64)
            if any(p.ndim != 2 or p.shape[1] != R or not np.array_equal(F64(p).T @ F64(p), np.eye(R)) for p in ps):
                return False
            return d["w"] is None or d["w"].shape[0] == R
    except Exception:
        return False
    return False


# ----------------------------------------------------------------------------- known findings
# the two order-1 findings of round 1 (cp_to_unfolded IndexError, mask ignored) were repaired in /repo (b1a796c, 5ac4e66); their
# witnesses live on in corpus/C03/ and as Examples in Props/C03.v.  Round 3: (1) a wrapper's cached .shape/.rank go stale when
# __setitem__ stores an array of another shape (CPTensor.to_tensor then folds with the stale shape) - kept as a known finding (the
# repair would reject the intermediate state of a legitimate two-step replacement); (2) 1-D CP factors were accepted by the
# validator but no un-masked reconstruction worked - repaired in /repo by 148e558.
# Round 5 findings, repaired in /repo (8b25fc6, b8d05d5): the reconstruction functions of Tucker / TT / TR / TT-matrix reconstructed some
# factor sets their validators reject (np.einsum's broadcasting / summed boundary ranks; rank products that happen to fit), and
# cp_to_unfolded with a negative mode multiplied with the Khatri-Rao product of ALL factors.  The predicates stay (any such output is a
# VIOLATION now); the witnesses live on in corpus/C03/ and as C03_before_* Examples.
SILENT_EP = {"tucker": "tensorly.tucker_tensor.tucker_to_tensor", "tt": "tensorly.tt_tensor.tt_to_tensor", "tr": "tensorly.tr_tensor.tr_to_tensor",
             "ttm": "tensorly.tt_matrix.tt_matrix_to_tensor"}


def silent_ok(d):
    """malformed-stream entries whose reconstruction is legitimate although the validator rejects them: a partial Tucker product
    (fewer factors than core modes, or a superfluous factor that is skipped) is documented behaviour of multi_mode_dot"""
    if d["kind"] == "tucker":
        core, fs, skip = d["core"], list(d["fs"]), d.get("skip")
        if d.get("modes") is not None:
            return False
        if d.get("tr"):
            fs = [f.T for f in fs]
        used = [(i, f) for i, f in enumerate(fs) if i != skip]
        return all(f.ndim == 2 and i < core.ndim and f.shape[1] == core.shape[i] for i, f in used)
    if d["kind"] == "tr":   # a ring of ONE core (the validator wants two): its trace is a meaningful contraction
        cs = d["cores"]
        return len(cs) == 1 and cs[0].ndim == 3 and cs[0].shape[0] == cs[0].shape[2]
    return False


def clf_setitem_stale(f):
    return f["inputs"].get("setitem") == "reshaping" and f["inputs"].get("input_kind") == "wrapper"


CLASSIFIERS = {"wrapper_setitem_stale_cache": clf_setitem_stale}


def describe(d):
    k = d["kind"]
    arrs = d["fs"] if k in ("cp", "tucker", "p2") else d["cores"]
    out = {"kind": k, "order": len(arrs), "factor_shapes": [list(np.shape(a)) for a in arrs]}
    if k in ("cp", "p2"):
        out["weights"] = None if d["w"] is None else [int(x) for x in np.ravel(d["w"])]
        out["weights_shape"] = None if d["w"] is None else list(d["w"].shape)
    if k == "p2":
        out["projection_shapes"] = [list(p.shape) for p in d["ps"]]
    if k == "tucker":
        out["core_shape"] = list(d["core"].shape); out["skip"] = d.get("skip"); out["transpose"] = bool(d.get("tr"))
        if d.get("modes") is not None:
            out["modes"] = list(d["modes"])
    if d.get("mask") is not None:
        out["masked"] = True
    if d.get("why"):
        out["why"] = d["why"]
    if d.get("dtypes"):
        out["dtypes"] = list(d["dtypes"])
    if d.get("half"):
        out["half_integer_arrays"] = [list(h) for h in d["half"]]
    if d.get("cplx") is not None:
        out["complex_array"] = [d["cplx"][0], d["cplx"][1]]
    return out


def _num(x):
    x = float(x)
    return int(x) if x == int(x) else x


def payload_arrays(d):
    """complete integer inputs for a replay"""
    p = {"kind": d["kind"]}
    for key in ("w", "core", "mask"):
        if d.get(key) is not None:
            p[key] = {"shape": list(d[key].shape), "values": [_num(x) for x in d[key].ravel()]}
    for key in ("fs", "cores", "ps"):
        if d.get(key) is not None:
            p[key] = [{"shape": list(a.shape), "values": [_num(x) for x in a.ravel()]} for a in d[key]]
    if d.get("cplx") is not None:
        p["cplx"] = [d["cplx"][0], d["cplx"][1], {"shape": list(d["cplx"][2].shape), "values": [_num(x) for x in d["cplx"][2].ravel()]}]
    if d.get("views") is not None:
        p["views"] = [list(v) for v in d["views"]]
    for key in ("skip", "tr", "why", "onedim", "onedim_exact", "late_reject", "rational", "dtypes", "no_wrapper", "half", "negmodes", "modes", "mask_dtype", "wk"):
        if d.get(key) is not None:
            p[key] = d[key]
    return p


def from_payload(p):
    def arr(a):
        v = np.array(a["values"])
        return (v.astype(np.int64) if np.all(v == np.round(v)) else v.astype(np.float64)).reshape(a["shape"])
    d = {"kind": p["kind"], "w": None}
    if p.get("cplx") is not None:
        d["cplx"] = (p["cplx"][0], p["cplx"][1], arr(p["cplx"][2]))
    if p.get("views") is not None:
        d["views"] = [tuple(v) for v in p["views"]]
    for key in ("w", "core", "mask"):
        if p.get(key) is not None:
            d[key] = arr(p[key])
    for key in ("fs", "cores", "ps"):
        if p.get(key) is not None:
            d[key] = [arr(a) for a in p[key]]
    for key in ("skip", "tr", "why", "onedim", "onedim_exact", "late_reject", "rational", "dtypes", "no_wrapper", "half", "negmodes", "modes", "mask_dtype", "wk"):
        if p.get(key) is not None:
            d[key] = p[key]
    return d


FN = {("cp", "validate"): "_validate_cp_tensor", ("cp", "tensor"): "cp_to_tensor", ("cp", "unfolded"): "cp_to_unfolded", ("cp", "vec"): "cp_to_vec",
      ("cp", "norm"): "cp_norm", ("tucker", "validate"): "_validate_tucker_tensor", ("tucker", "tensor"): "tucker_to_tensor",
      ("tucker", "unfolded"): "tucker_to_unfolded", ("tucker", "vec"): "tucker_to_vec", ("tt", "validate"): "_validate_tt_tensor",
      ("tt", "tensor"): "tt_to_tensor", ("tt", "unfolded"): "tt_to_unfolded", ("tt", "vec"): "tt_to_vec", ("tr", "validate"): "_validate_tr_tensor",
      ("tr", "tensor"): "tr_to_tensor", ("tr", "unfolded"): "tr_to_unfolded", ("tr", "vec"): "tr_to_vec", ("ttm", "validate"): "_validate_tt_matrix",
      ("ttm", "tensor"): "tt_matrix_to_tensor", ("ttm", "matrix"): "tt_matrix_to_matrix", ("ttm", "unfolded"): "tt_matrix_to_unfolded",
      ("ttm", "vec"): "tt_matrix_to_vec", ("p2", "validate"): "_validate_parafac2_tensor", ("p2", "tensor"): "parafac2_to_tensor",
      ("p2", "unfolded"): "parafac2_to_unfolded", ("p2", "vec"): "parafac2_to_vec", ("p2", "slice"): "parafac2_to_slice", ("p2", "slices"): "parafac2_to_slices",
      ("tucker", "norm"): "TuckerTensor.norm", ("tt", "norm"): "TTTensor.norm", ("tr", "norm"): "TRTensor.norm", ("ttm", "norm"): "TTMatrix.norm",
      ("p2", "norm"): "Parafac2Tensor.norm"}


def epname(d, v):
    return EP[d["kind"]] + "." + FN.get((d["kind"], v[0]), v[0])


def vname(v):
    return v[0] + ("(%d)" % v[1] if len(v) > 1 else "")


SETITEM_EP = {"cp": "tensorly.cp_tensor.CPTensor.__setitem__", "tucker": "tensorly.tucker_tensor.TuckerTensor.__setitem__",
              "tt": "tensorly.tt_tensor.TTTensor.__setitem__", "tr": "tensorly.tr_tensor.TRTensor.__setitem__",
              "ttm": "tensorly.tt_matrix.TTMatrix.__setitem__"}


def ein_view(d, be, malformed, vl):
    # the einsum routes of CP (khatri_rao), Tucker (multi_mode_dot) and the TT-matrix have their own models in Model/Factorized.v
    return f"(VEin {vl})" if be == "einsum" and (d["kind"] in ("ttm", "tucker") or (d["kind"] == "cp" and not malformed)) else vl


def check_decomp(chk, d, rng, malformed, record=True):
    """run all routes; evaluate predicates; return (tuple-route (view, out) literals, wrapper histories as step literals, n_calls, messages)"""
    obs, unstable, histories = run_routes(d, rng, malformed=malformed)
    msgs = []
    pairs, seen = [], set()
    desc = describe(d)
    spec_cache = {}

    def judge(dcur):
        key = id(dcur)
        if key not in spec_cache:
            wf = well_formed_py(dcur)
            spec_cache[key] = (wf, dense_spec(dcur) if wf and not dcur.get("late_reject") else None)
        return spec_cache[key]

    def in_corr(dcur, v):
        return True

    for route, v, res, dcur, phase in obs:
        if route[1] == "tuple" and in_corr(dcur, v):
            lit = (ein_view(d, route[0], malformed, view_lit(v)), out_lit(v, res))
            if lit not in seen:
                seen.add(lit); pairs.append(lit)
        wf, dense = judge(dcur)
        msg, ep, extra = None, epname(dcur, v), {}
        if v[0] == "setitem":
            msg = f"__setitem__ raised: {res[1]}"
        elif wf and dcur.get("late_reject"):
            # accepted by the validator, but no reconstruction may come out silently
            if v[0] == "validate" and res[0] != "ok":
                msg = f"factor set rejected by the validator although it only looks at column counts: {res[1]}"
            elif v[0] != "validate" and res[0] == "ok":
                msg = f"a reconstruction was returned for a factor set that has none ({dcur.get('why')})"
        elif wf:
            msg = view_predicate(dcur, v, res, dense)
        elif v[0] == "validate" and res[0] == "ok":
            msg = f"structurally invalid factor set ({dcur.get('why', '?')}) accepted with (shape, rank) = {res[1]}"
        elif v[0] in ("tensor", "vec", "unfolded", "matrix", "slice", "slices") and res[0] == "ok" and route[1] == "tuple" and not silent_ok(dcur):
            # the validator (checked above) rejects this set; the reconstruction function must not return a tensor for it
            msg = (f"structurally invalid factor set ({dcur.get('why', '?')}) silently reconstructed by {FN.get((dcur['kind'], v[0]), v[0])} "
                   f"under the {route[0]} tenalg backend (no error; the validator rejects the set)")
            ep, extra = SILENT_EP.get(dcur["kind"], ep), {"silent": True}
        if msg:
            if phase == "reshaping":
                ep = SETITEM_EP.get(d["kind"], ep); extra = {"setitem": "reshaping"}
            elif wf and dcur["kind"] == "cp" and v[0] == "unfolded" and v[1] < 0:
                ep = "tensorly.cp_tensor.cp_to_unfolded"; extra = {"negative_mode": True}
            msgs.append((route, v, msg, phase))
            if record:
                chk.finding(ep, dict(describe(dcur), view=vname(v), backend=route[0], input_kind=route[1], phase=phase, data=payload_arrays(d), **extra), msg,
                            "C03_view_agrees_with_defining_contraction" if wf else ("C03_invalid_not_silently_reconstructed" if extra.get("silent") else "C03_invalid_rejected"))
    for route, v, step in unstable:
        msg = f"taking view {vname(v)} (step {step}) changed the stored factors"
        msgs.append((route, v, msg))
        if record:
            chk.finding(epname(d, v), dict(desc, view=vname(v), backend=route[0], input_kind=route[1], data=payload_arrays(d)), msg, "C03_views_stable")
    hist_lits = []
    for be, constructed, steps in histories:
        lits, seen_phase = [], set()
        for st in steps:
            if st[0] == "view" and not in_corr(d, st[1]):
                continue
            if st[0] == "view":
                l = step_lit(("view", ein_view(d, be, malformed, view_lit(st[1])), out_lit(st[1], st[2])))
                if l not in seen_phase:   # the model object is pure between two __setitem__ calls: identical observations are redundant
                    seen_phase.add(l); lits.append(l)
            else:
                seen_phase = set(); lits.append(step_lit(st))
        hist_lits.append((constructed, lits))
    return pairs, hist_lits, len(obs), msgs


def split_complex(v, res):
    """(Re, Im) results of one observation"""
    st, val = res
    if st != "ok" or v[0] == "validate":
        return res, res
    if v[0] == "slices":
        return ("ok", [np.real(a).copy() for a in val]), ("ok", [np.imag(a).copy() for a in val])
    return ("ok", np.real(val).copy()), ("ok", np.imag(val).copy())


def check_complex(chk, d, rng, record=True):
    """d['cplx'] = (key, index, imaginary part): ONE stored array is complex.  Every reconstruction is linear in each single stored
    array, so the real / imaginary part of every view must be the view of the decomposition with that array replaced by its
    real / imaginary part: two exact integer cases for the model, two evaluations of the predicates."""
    key, idx, imag = d["cplx"]
    d_re = {k: v for k, v in d.items() if k != "cplx"}
    d_im = dict(d_re)
    if idx is None:
        d_im[key] = imag
    else:
        l = list(d_re[key]); l[idx] = imag; d_im[key] = l
    obs, unstable, _ = run_routes(dict(d, no_wrapper=True), rng, malformed=False)
    out = []
    msgs = []
    dense = {"re": dense_spec(d_re), "im": dense_spec(d_im)}
    acc = {"re": ([], set()), "im": ([], set())}
    for route, v, res, _, _ in obs:
        parts = dict(zip(("re", "im"), split_complex(v, res)))
        for part, dd in (("re", d_re), ("im", d_im)):
            lit = (ein_view(d, route[0], False, view_lit(v)), out_lit(v, parts[part]))
            if lit not in acc[part][1]:
                acc[part][1].add(lit); acc[part][0].append(lit)
            msg = view_predicate(dd, v, parts[part], dense[part])
            if msg:
                msg = f"[{'real' if part == 're' else 'imaginary'} part of a view of a decomposition with one complex array] " + msg
                msgs.append((route, v, msg))
                if record:
                    chk.finding(epname(d, v), dict(describe(d), view=vname(v), backend=route[0], input_kind=route[1], data=payload_arrays(d)), msg,
                                "C03_view_agrees_with_defining_contraction")
    for route, v, step in unstable:
        msg = f"taking view {vname(v)} (step {step}) changed the stored factors"
        msgs.append((route, v, msg))
        if record:
            chk.finding(epname(d, v), dict(describe(d), view=vname(v), backend=route[0], input_kind=route[1], data=payload_arrays(d)), msg, "C03_views_stable")
    return (d_re, acc["re"][0]), (d_im, acc["im"][0]), len(obs), msgs


def run_shards_with_retry(cases, shard):
    """common.run_case_shards + one sequential retry of shards whose coqc process was killed from outside (SIGKILL / timeout
    with nothing on stderr: memory pressure or a time limit on the shared machine, not a verdict of the checker)."""
    import re, subprocess, os
    failing, n_eval, broken = C.run_case_shards("C03", HEADER, "case", cases, shard=shard)
    still = []
    for b in broken:
        fn = b.get("shard")
        if b.get("rc") not in (-9, 137, 124, -15) or (b.get("stderr") or "").strip() or not fn or not os.path.exists(fn):
            still.append(b); continue
        n = len(re.findall(r"^\((?:CViews|CObj) \d+%nat ", open(fn).read(), flags=re.M))
        try:
            p = subprocess.run(["timeout", "1200", "coqc", "-w", "none", "-R", os.path.join(C.COQ, "theories"), "TLV", fn],
                               capture_output=True, text=True, cwd=os.path.dirname(fn))
        except Exception as e:  # noqa
            still.append(dict(b, retry=repr(e))); continue
        out = p.stdout.replace("\n", " ").replace("%nat;", ";").replace("%nat]", "]")
        m = re.search(r"=\s*\((\d+)(?:%nat)?,\s*\[([\d;\s]*)\](?:%nat)?\)", out)
        if p.returncode != 0 or not m or int(m.group(1)) != n or n == 0:
            still.append(dict(b, retry_rc=p.returncode, retry_stderr=p.stderr[-1000:])); continue
        n_eval += n
        failing.update(int(x) for x in m.group(2).replace(" ", "").split(";") if x)
    return failing, n_eval, still


def zero_order_probe(chk):
    """the 0-order branches (a Python number instead of a factor set): _validate_cp_tensor(x) = (0, 0), cp_to_tensor(x) = x, tt_to_tensor(x) = x.
    Predicates here; the correspondence with the Coq model of these branches (Model/Factorized2.v: cp_in / tt_in) is zero_order_cases.
    What _validate_tt_tensor(x) does is recorded, not judged."""
    from tensorly import cp_tensor as cp, tt_tensor as tt
    obs = {}
    for x in (2.5, 3):
        r = {"validate_cp": C.call_impl(lambda: cp._validate_cp_tensor(x)), "cp_to_tensor": C.call_impl(lambda: cp.cp_to_tensor(x)),
             "tt_to_tensor": C.call_impl(lambda: tt.tt_to_tensor(x)), "validate_tt": C.call_impl(lambda: tt._validate_tt_tensor(x))}
        obs[repr(x)] = {k: (v[0], repr(v[1])[:60]) for k, v in r.items()}
        for name, want in (("validate_cp", (0, 0)), ("cp_to_tensor", x), ("tt_to_tensor", x)):
            st, val = r[name]
            if st != "ok" or not (val == want):
                chk.finding("tensorly.cp_tensor." + ("_validate_cp_tensor" if name == "validate_cp" else name) if name != "tt_to_tensor" else "tensorly.tt_tensor.tt_to_tensor",
                            {"zero_order": x}, f"{name}({x!r}) = {val!r}, expected {want!r} (0-order branch)", "C03_zero_order_identity")
    chk.cov["zero_order"] = obs


def zero_order_cases(start_id, rng):
    """0-order inputs through the model: a Python int / float x handed to _validate_cp_tensor, cp_to_tensor (with and without a mask),
    cp_to_vec, cp_to_unfolded, cp_norm, tt_to_tensor, tt_to_vec, tt_to_unfolded -> [(case literal, description, n_calls)]"""
    from tensorly import cp_tensor as cp, tt_tensor as tt
    out = []

    def num_out(v, res):
        st, val = res
        if st != "ok":
            return "OErr"
        if v == "validate":
            try:
                a, b = val
                return "(OSR [] [0%nat])" if (isinstance(a, int) and isinstance(b, int) and a == 0 and b == 0) else "OBad"
            except Exception:
                return "OBad"
        if v == "norm":
            return out_lit(("norm",), res)
        a = np.asarray(val)
        if a.dtype.kind not in "fiu" or not is_integral(a):
            return "OBad"
        return f"(OT {arr_lit(a)})"
    xs = [3, 2.0, float(rng.randint(-4, -1)), 0, rng.randint(5, 9)]
    for x in xs:
        xi = int(x)
        mask = np.array([rng.randint(0, 1)], dtype=np.float64)
        obs = [("VValidate", "validate", C.call_impl(lambda: cp._validate_cp_tensor(x))),
               ("VTensor", "tensor", C.call_impl(lambda: cp.cp_to_tensor(x))),
               ("VVec", "vec", C.call_impl(lambda: cp.cp_to_vec(x))),
               ("(VUnfolded 0%nat)", "unfolded", C.call_impl(lambda: cp.cp_to_unfolded(x, 0))),
               ("VNorm", "norm", C.call_impl(lambda: cp.cp_norm(x)))]
        lit = f"(CViews {start_id + len(out)}%nat (DCpNum {C.z(xi)} None) [" + "; ".join(f"({vl}, {num_out(v, r)})" for vl, v, r in obs) + "])"
        out.append((lit, {"kind": "cp (0-order)", "x": x, "type": type(x).__name__}, len(obs)))
        obs = [("VTensor", "tensor", C.call_impl(lambda: cp.cp_to_tensor(x, mask=mask)))]
        lit = f"(CViews {start_id + len(out)}%nat (DCpNum {C.z(xi)} (Some {arr_lit(mask.astype(np.int64))})) [" + "; ".join(f"({vl}, {num_out(v, r)})" for vl, v, r in obs) + "])"
        out.append((lit, {"kind": "cp (0-order, masked)", "x": x, "type": type(x).__name__}, len(obs)))
        obs = [("VTensor", "tensor", C.call_impl(lambda: tt.tt_to_tensor(x))),
               ("VVec", "vec", C.call_impl(lambda: tt.tt_to_vec(x))),
               ("(VUnfolded 0%nat)", "unfolded", C.call_impl(lambda: tt.tt_to_unfolded(x, 0)))]
        lit = f"(CViews {start_id + len(out)}%nat (DTtNum {C.z(xi)}) [" + "; ".join(f"({vl}, {num_out(v, r)})" for vl, v, r in obs) + "])"
        out.append((lit, {"kind": "tt (0-order)", "x": x, "type": type(x).__name__}, len(obs)))
    return out


# ----------------------------------------------------------------------------- complex CP tensors (Gaussian-integer entries)
def garr_lit(a):
    a = np.asarray(a)
    return "(mk " + C.nat_list(list(a.shape)) + " [" + "; ".join(f"({C.z(int(x.real))}, {C.z(int(x.imag))})" for x in a.ravel().tolist()) + "])"


def gint(rng, shape, lo=-2, hi=2):
    n = int(np.prod(shape))
    for _ in range(20):
        v = [complex(rng.randint(lo, hi), rng.randint(lo, hi)) for _ in range(n)]
        if any(v):
            break
    return np.array(v, dtype=np.complex128).reshape(shape)


def complex_cp_run(w, fs, chk=None, record=True):
    """all views of the complex CP tensor (w, fs) under both backends, tuple and CPTensor: (view literal, out literal) pairs for the Coq
    case DCpG, number of calls, predicate messages [(view, message, known_class)]"""
    import tensorly as tl
    from tensorly import tenalg, cp_tensor as cp
    R = fs[0].shape[1]
    wv = np.ones(R, dtype=np.complex128) if w is None else np.asarray(w, dtype=np.complex128)
    dense = np.zeros(tuple(f.shape[0] for f in fs), dtype=np.complex128)
    for r in range(R):
        term = np.array(wv[r])
        for f in fs:
            term = np.multiply.outer(term, f[:, r])
        dense = dense + term
    n2 = float((dense.real ** 2 + dense.imag ** 2).sum())
    order = len(fs)
    views = [("validate",), ("tensor",), ("vec",), ("norm",)] + [("unfolded", m) for m in range(order)]
    cw = w is not None and bool(np.any(np.asarray(w).imag != 0))

    def gout(v, res):
        st, val = res
        if st != "ok":
            return "OErr"
        if v[0] == "validate":
            return out_lit(v, res)
        if v[0] == "norm":
            z = complex(val)
            return f"(ONormC {C.q(z.real)} {C.q(z.imag)})" if np.isfinite(z.real) and np.isfinite(z.imag) else "OBad"
        a = np.asarray(val)
        if a.dtype.kind not in "cfiu" or not (np.all(a.real == np.round(a.real)) and np.all(a.imag == np.round(a.imag))):
            return "OBad"
        return f"(OTG {garr_lit(a.astype(np.complex128))})"
    pairs, seen, msgs, ncalls = [], set(), [], 0
    for be in ("core", "einsum"):
        tenalg.set_backend(be)
        try:
            for kind in ("tuple", "wrapper"):
                tup = (None if w is None else np.array(w), [f.copy() for f in fs])
                x = tup if kind == "tuple" else cp.CPTensor(tup)
                for v in views:
                    if v[0] == "validate":
                        call = (lambda: cp._validate_cp_tensor(x)) if kind == "tuple" else (lambda: (x.shape, x.rank))
                    elif v[0] == "tensor":
                        call = lambda: cp.cp_to_tensor(x)
                    elif v[0] == "vec":
                        call = lambda: cp.cp_to_vec(x)
                    elif v[0] == "norm":
                        call = (lambda: cp.cp_norm(x)) if kind == "tuple" else (lambda: x.norm())
                    else:
                        call = lambda: cp.cp_to_unfolded(x, v[1])
                    res = C.call_impl(call, timeout=30); ncalls += 1
                    if res == ("crash", "timeout"):
                        SKIPPED["timeouts"] += 1; continue
                    lit = (view_lit(v), gout(v, res))
                    if lit not in seen:
                        seen.add(lit); pairs.append(lit)
                    msg = None
                    if res[0] != "ok":
                        msg = f"{v[0]} raised on a well-formed complex CP tensor: {res[1]}"
                    elif v[0] == "tensor" and not (np.shape(res[1]) == dense.shape and np.array_equal(res[1], dense)):
                        msg = "cp_to_tensor of a complex CP tensor differs from the sum of outer products"
                    elif v[0] == "vec" and not np.array_equal(res[1], dense.reshape(-1)):
                        msg = "cp_to_vec of a complex CP tensor differs from the vectorised sum of outer products"
                    elif v[0] == "unfolded" and not np.array_equal(res[1], np.moveaxis(dense, v[1], 0).reshape(dense.shape[v[1]], -1)):
                        msg = f"cp_to_unfolded(mode={v[1]}) of a complex CP tensor is not the unfolding of the reconstruction"
                    elif v[0] == "norm":
                        z = complex(res[1])
                        if not (abs(z * z - n2) <= 1e-9 * (1 + n2)):
                            msg = f"cp_norm of a complex CP tensor = {z!r}, but the reconstruction has norm {n2 ** 0.5!r}"
                    if msg:
                        msgs.append((v, msg, be, kind))
                        if record and chk is not None:
                            data = {"kind": "cpg", "w": None if w is None else [[float(x.real), float(x.imag)] for x in np.asarray(w, dtype=np.complex128)],
                                    "fs": [{"shape": list(f.shape), "values": [[float(x.real), float(x.imag)] for x in f.ravel()]} for f in fs]}
                            chk.finding("tensorly.cp_tensor." + FN[("cp", v[0])], dict(kind="cp (complex)", factor_shapes=[list(f.shape) for f in fs], complex_weights=cw,
                                        view=vname(v), backend=be, input_kind=kind, data=data), msg, "C03_view_agrees_with_defining_contraction")
        finally:
            tenalg.set_backend("core")
    return pairs, ncalls, msgs


def complex_cp_cases(chk, start_id, rng, tier):
    out = []
    plan = [(1, 1, "complex")]   # the smallest witness first: order 1, rank 1
    for _ in range(10 if tier == "quick" else 40):
        plan.append((rng.randint(1, 3), rng.randint(1, 3), rng.choice(["none", "real", "complex", "complex"])))
    for order, R, wk in plan:
        s = [rng.randint(1, 3) for _ in range(order)]
        fs = [gint(rng, (n, R)) for n in s]
        w = None if wk == "none" else (np.array([rng.choice([-2, -1, 2, 3]) for _ in range(R)], dtype=np.float64) if wk == "real" else gint(rng, (R,)))
        if wk == "complex" and not np.any(w.imag != 0):
            w[0] = w[0] + 1j
        pairs, ncalls, _ = complex_cp_run(w, fs, chk)
        wl = "None" if w is None else f"(Some {garr_lit(np.asarray(w, dtype=np.complex128))})"
        lit = f"(CViews {start_id + len(out)}%nat (DCpG {wl} [" + "; ".join(garr_lit(f) for f in fs) + "]) [" + "; ".join(f"({v}, {o})" for v, o in pairs) + "])"
        out.append((lit, {"kind": "cp (complex)", "order": order, "factor_shapes": [list(f.shape) for f in fs], "weights": wk}, ncalls))
    return out


def complex_family_cases(chk, start_id, rng, tier):
    """Tucker (also skip_factor / transpose_factors = CONJUGATE transposition), TT, TR and TT-matrix with ALL stored arrays complex
    (Gaussian integers): validate / to_tensor / to_vec / every unfolding (/ to_matrix) under both backends, tuple and wrapper object, exactly,
    against the model at GIops; predicate: plain complex loops (np.einsum on the stored arrays)"""
    from tensorly import tenalg, tucker_tensor as tk, tt_tensor as tt, tr_tensor as tr, tt_matrix as tm
    out = []

    def gout(v, res):
        st, val = res
        if st != "ok":
            return "OErr"
        if v[0] == "validate":
            return out_lit(v, res)
        a = np.asarray(val)
        if a.dtype.kind not in "cfiu" or not (np.all(a.real == np.round(a.real)) and np.all(a.imag == np.round(a.imag))):
            return "OBad"
        return f"(OTG {garr_lit(a.astype(np.complex128))})"

    def chain_dense(cs, ring):
        shape = tuple(c.shape[1] for c in cs); t = np.zeros(shape, dtype=np.complex128)
        for idx in np.ndindex(*shape):
            M = cs[0][:, idx[0], :]
            for c, i in zip(cs[1:], idx[1:]):
                M = M @ c[:, i, :]
            t[idx] = np.trace(M) if ring else M[0, 0]
        return t

    def observe(kind, lit, build, fns, dense, order, desc, wrapper_cls=None, extra_views=(), kw=None):
        views = [("validate",), ("tensor",), ("vec",)] + [("unfolded", m) for m in range(order)] + list(extra_views)
        pairs, seen, ncalls = [], set(), 0
        for be in ("core", "einsum"):
            tenalg.set_backend(be)
            try:
                for ik in ("tuple", "wrapper"):
                    if ik == "wrapper" and (wrapper_cls is None or kw):
                        continue
                    x = build() if ik == "tuple" else wrapper_cls(build())
                    for v in views:
                        if v[0] == "validate":
                            call = (lambda: fns["validate"](x)) if ik == "tuple" else (lambda: (x.shape, x.rank))
                        elif v[0] == "unfolded":
                            call = lambda: fns["unfolded"](x, v[1], **(kw or {}))
                        else:
                            call = lambda: fns[v[0]](x, **(kw or {}))
                        res = C.call_impl(call, timeout=30); ncalls += 1
                        if res == ("crash", "timeout"):
                            SKIPPED["timeouts"] += 1; continue
                        l = (view_lit(v), gout(v, res))
                        if l not in seen:
                            seen.add(l); pairs.append(l)
                        msg = None
                        if v[0] == "validate":
                            continue
                        if res[0] != "ok":
                            msg = f"{v[0]} raised on a well-formed complex {kind} decomposition: {res[1]}"
                        else:
                            exp = {"tensor": lambda: dense, "vec": lambda: dense.reshape(-1), "matrix": lambda: dense.reshape(int(np.prod(dense.shape[:dense.ndim // 2])), -1),
                                   "unfolded": lambda: np.moveaxis(dense, v[1], 0).reshape(dense.shape[v[1]], -1)}[v[0]]()
                            if not (np.shape(res[1]) == exp.shape and np.array_equal(res[1], exp)):
                                msg = f"{v[0]}{v[1:]} of a complex {kind} decomposition differs from the defining contraction"
                        if msg and chk is not None:
                            chk.finding(EP[kind] + "." + FN[(kind, v[0])], dict(desc, view=vname(v), backend=be, input_kind=ik), msg, "C03_view_agrees_with_defining_contraction")
            finally:
                tenalg.set_backend("core")
        out.append((f"(CViews {start_id + len(out)}%nat {lit} [" + "; ".join(f"({v}, {o})" for v, o in pairs) + "])", desc, ncalls))
    glist = lambda l: "[" + "; ".join(garr_lit(a) for a in l) + "]"
    for _ in range(3 if tier == "quick" else 15):
        # Tucker: plain, skip_factor, transpose_factors (conjugate transposition)
        o = rng.randint(2, 3); sh = [rng.randint(1, 3) for _ in range(o)]; rk = [rng.randint(1, 3) for _ in range(o)]
        core = gint(rng, rk); fs = [gint(rng, (n, r)) for n, r in zip(sh, rk)]
        letters = "abcd"[:o]; outl = "ijkl"[:o]
        eq = letters + "," + ",".join(outl[k] + letters[k] for k in range(o)) + "->" + outl
        dense = np.einsum(eq, core, *fs)
        fn_tk = {"validate": tk._validate_tucker_tensor, "tensor": tk.tucker_to_tensor, "vec": tk.tucker_to_vec, "unfolded": tk.tucker_to_unfolded}
        observe("tucker", f"(DTuckerG {garr_lit(core)} {glist(fs)} None false)", lambda: (core.copy(), [f.copy() for f in fs]), fn_tk, dense, o,
                {"kind": "tucker (complex)", "factor_shapes": [list(f.shape) for f in fs]}, tk.TuckerTensor)
        fsH = [f.conj().T.copy() for f in fs]   # stored as conjugate transposes: transpose_factors=True gives the same tensor back
        observe("tucker", f"(DTuckerG {garr_lit(core)} {glist(fsH)} None true)", lambda: (core.copy(), [f.copy() for f in fsH]), fn_tk, dense, o,
                {"kind": "tucker (complex, transpose_factors)", "factor_shapes": [list(f.shape) for f in fsH]}, None, kw={"transpose_factors": True})
        sk = rng.randrange(o)
        fs_sk = [np.eye(rk[k], dtype=np.complex128) if k == sk else f for k, f in enumerate(fs)]
        observe("tucker", f"(DTuckerG {garr_lit(core)} {glist(fs)} (Some {C.nat(sk)}) false)", lambda: (core.copy(), [f.copy() for f in fs]), fn_tk, np.einsum(eq, core, *fs_sk), o,
                {"kind": "tucker (complex, skip_factor)", "factor_shapes": [list(f.shape) for f in fs], "skip": sk}, None, kw={"skip_factor": sk})
        # TT / TR
        o = rng.randint(1, 3); sh = [rng.randint(1, 3) for _ in range(o)]
        rk = [1] + [rng.randint(1, 3) for _ in range(o - 1)] + [1]
        cs = [gint(rng, (rk[i], n, rk[i + 1])) for i, n in enumerate(sh)]
        observe("tt", f"(DTtG {glist(cs)})", lambda: [c.copy() for c in cs], {"validate": tt._validate_tt_tensor, "tensor": tt.tt_to_tensor, "vec": tt.tt_to_vec, "unfolded": tt.tt_to_unfolded},
                chain_dense(cs, False), o, {"kind": "tt (complex)", "factor_shapes": [list(c.shape) for c in cs]}, tt.TTTensor)
        o = rng.randint(2, 3); sh = [rng.randint(1, 3) for _ in range(o)]; r0 = rng.randint(1, 3)
        rk = [r0] + [rng.randint(1, 3) for _ in range(o - 1)] + [r0]
        cs2 = [gint(rng, (rk[i], n, rk[i + 1])) for i, n in enumerate(sh)]
        observe("tr", f"(DTrG {glist(cs2)})", lambda: [c.copy() for c in cs2], {"validate": tr._validate_tr_tensor, "tensor": tr.tr_to_tensor, "vec": tr.tr_to_vec, "unfolded": tr.tr_to_unfolded},
                chain_dense(cs2, True), o, {"kind": "tr (complex)", "factor_shapes": [list(c.shape) for c in cs2]}, tr.TRTensor)
        # TT-matrix
        n = rng.randint(1, 2); ins = [rng.randint(1, 2) for _ in range(n)]; outs = [rng.randint(1, 2) for _ in range(n)]
        rk = [1] + [rng.randint(1, 3) for _ in range(n - 1)] + [1]
        cm = [gint(rng, (rk[i], ins[i], outs[i], rk[i + 1])) for i in range(n)]
        dm = np.zeros(tuple(ins) + tuple(outs), dtype=np.complex128)
        for i in np.ndindex(*ins):
            for oo in np.ndindex(*outs):
                M = cm[0][:, i[0], oo[0], :]
                for c, a, b in zip(cm[1:], i[1:], oo[1:]):
                    M = M @ c[:, a, b, :]
                dm[i + oo] = M[0, 0]
        observe("ttm", f"(DTtmG {glist(cm)})", lambda: [c.copy() for c in cm],
                {"validate": tm._validate_tt_matrix, "tensor": tm.tt_matrix_to_tensor, "vec": tm.tt_matrix_to_vec, "unfolded": tm.tt_matrix_to_unfolded, "matrix": tm.tt_matrix_to_matrix},
                dm, 2 * n, {"kind": "ttm (complex)", "factor_shapes": [list(c.shape) for c in cm]}, tm.TTMatrix, extra_views=[("matrix",)])
    return out


def complex_p2_cases(chk, start_id, rng, tier):
    """PARAFAC2 with complex (Gaussian-integer) A, B, C and projections: real orthonormal / unitary with a column times +-i / the bilinear
    column (1, 1, i) (P^T P = 1, Hermitian length sqrt 3) / scaled.  The model runs the validator AS IT IS in the current source (P^H P = I since
    /repo 0c112da; the flag is read from the source by C03_ast.translate_p2); the predicate wants 'accepted iff the columns are orthonormal in the
    Hermitian sense' (a VIOLATION otherwise: the former known finding parafac2_complex_projections is repaired)."""
    from tensorly import tenalg, parafac2_tensor as p2
    out = []
    EPV = "tensorly.parafac2_tensor._validate_parafac2_tensor"
    try:   # which orthonormality test the CURRENT source has (P^T P or P^H P): read by the source-tie translator
        from harness.props import C03_ast
        herm_src = bool(C03_ast.translate_p2(C.REPO)["flags"].get("hermitian"))
    except Exception:
        herm_src = False   # (an untranslatable validator is a broken tie, reported by run_static)

    def gout(v, res):
        st, val = res
        if st != "ok":
            return "OErr"
        if v[0] == "validate":
            return out_lit(v, res)
        a = np.asarray(val)
        if a.dtype.kind not in "cfiu" or not (np.all(a.real == np.round(a.real)) and np.all(a.imag == np.round(a.imag))):
            return "OBad"
        return f"(OTG {garr_lit(a.astype(np.complex128))})"
    glist = lambda l: "[" + "; ".join(garr_lit(np.asarray(a, dtype=np.complex128)) for a in l) + "]"
    kinds = ["real", "unitary", "bilinear", "scaled", "unitary", "bilinear"]
    for rep_ in range(6 if tier == "quick" else 24):
        pk = kinds[rep_ % len(kinds)]
        I = rng.randint(1, 2); R = 1 if pk == "bilinear" else rng.randint(1, 2); K = rng.randint(1, 2)
        A, B, Cm = gint(rng, (I, R)), gint(rng, (R, R)), gint(rng, (K, R))
        w = None if rng.random() < 0.5 else gint(rng, (R,))
        ps = [signed_perm_cols(rng, rng.randint(R, R + 1), R).astype(np.complex128) for _ in range(I)]
        i = rng.randrange(I)
        if pk == "unitary":
            ps[i][:, rng.randrange(R)] *= rng.choice([1j, -1j])
        elif pk == "bilinear":
            ps[i] = np.array([[1], [1], [1j]], dtype=np.complex128)
        elif pk == "scaled":
            ps[i] = ps[i] * (1 + 1j)
        herm = all(np.array_equal(P.conj().T @ P, np.eye(R)) for P in ps)
        wv = np.ones(R, dtype=np.complex128) if w is None else w
        sl = [P @ B @ np.diag(A[k] * wv) @ Cm.T for k, P in enumerate(ps)]
        J = max(x.shape[0] for x in sl); dense = np.zeros((I, J, K), dtype=np.complex128)
        for k, x in enumerate(sl):
            dense[k, :x.shape[0], :] = x
        views = [("validate",), ("tensor",), ("vec",)] + [("slice", k) for k in range(I)] + [("unfolded", m) for m in range(3)]
        desc = {"kind": "p2 (complex)", "projections": pk, "factor_shapes": [list(A.shape), list(B.shape), list(Cm.shape)], "projection_shapes": [list(P.shape) for P in ps],
                "complex_projections": pk in ("unitary", "bilinear", "scaled"), "hermitian_orthonormal": herm}
        pairs, seen, ncalls = [], set(), 0
        for be in ("core", "einsum"):
            tenalg.set_backend(be)
            try:
                tup = (None if w is None else w.copy(), [A.copy(), B.copy(), Cm.copy()], [P.copy() for P in ps])
                for v in views:
                    call = {"validate": lambda: p2._validate_parafac2_tensor(tup), "tensor": lambda: p2.parafac2_to_tensor(tup), "vec": lambda: p2.parafac2_to_vec(tup),
                            "slice": lambda: p2.parafac2_to_slice(tup, v[1]), "unfolded": lambda: p2.parafac2_to_unfolded(tup, v[1])}[v[0]]
                    res = C.call_impl(call, timeout=30); ncalls += 1
                    if res == ("crash", "timeout"):
                        SKIPPED["timeouts"] += 1; continue
                    l = (view_lit(v), gout(v, res))
                    if l not in seen:
                        seen.add(l); pairs.append(l)
                    msg = None
                    if herm and res[0] != "ok":
                        msg = f"{v[0]} raised on a complex PARAFAC2 tensor whose projections have orthonormal columns (P^H P = I): {str(res[1])[:80]}"
                    elif not herm and res[0] == "ok":
                        msg = (f"complex PARAFAC2 tensor with a projection whose columns are not orthonormal (P^H P != I, {pk}) "
                               + ("accepted by the validator" if v[0] == "validate" else f"silently reconstructed by {v[0]}"))
                    elif herm and v[0] != "validate":
                        exp = {"tensor": lambda: dense, "vec": lambda: dense.reshape(-1), "slice": lambda: sl[v[1]],
                               "unfolded": lambda: np.moveaxis(dense, v[1], 0).reshape(dense.shape[v[1]], -1)}[v[0]]()
                        if not (np.shape(res[1]) == exp.shape and np.array_equal(res[1], exp)):
                            msg = f"{v[0]}{v[1:]} of a complex PARAFAC2 tensor differs from P_i B diag(a_i w) C^T"
                    if msg and chk is not None:
                        chk.finding(EPV if (not herm or res[0] != "ok") else EP["p2"] + "." + FN[("p2", v[0])], dict(desc, view=vname(v), backend=be, input_kind="tuple"), msg,
                                    "C03_invalid_rejected" if not herm else "C03_view_agrees_with_defining_contraction")
            finally:
                tenalg.set_backend("core")
        wl = "None" if w is None else f"(Some {garr_lit(w)})"
        out.append((f"(CViews {start_id + len(out)}%nat (DP2G {C.boolc(herm_src)} {wl} {glist([A, B, Cm])} {glist(ps)}) [" + "; ".join(f"({v}, {o})" for v, o in pairs) + "])", desc, ncalls))
    return out


# (round 7 follow-up: _validate_parafac2_tensor tested P^T P = I - repaired in /repo by 0c112da; the classifier parafac2_complex_projections is
# gone: the predicate of complex_p2_cases stays and any such output is a VIOLATION now; Example C03_before_0c112da_parafac2_complex_projections)
# (round 7: cp_norm did not conjugate the second weight vector - repaired in /repo by 20cafdc; the predicate stays, any such output is a
# VIOLATION now; the witness runs first in complex_cp_cases and is the Example C03_before_20cafdc_cp_norm_complex_weights)
def run(chk):
    rng = random.Random(chk.seed)
    chk.build_proofs()
    from harness.props import C03_ast
    chk.cov["source_tie"] = C03_ast.run_static(chk)   # corr:C03-src: chain validators regenerated from the source; einsum equation of the TT-matrix
    C.reset_backends()
    zero_order_probe(chk)
    tier = chk.tier
    cases, meta = [], []
    stream = [(d, False) for d in corpus_cases()] + [(d, False) for d in gen_valid(tier, rng)] + [(d, False) for d in gen_dtype_variants(tier, rng)] + [(d, True) for d in gen_malformed(tier, rng)]
    for d, malformed in stream:
        if d.get("malformed") is not None:
            malformed = d["malformed"]
        cid = len(meta)
        if d.get("cplx") is not None:
            (d_re, p_re), (d_im, p_im), ncalls, msgs = check_complex(chk, d, rng)
            cases.append(f"(CViews {cid}%nat {decomp_lit(d_re)} [" + "; ".join(f"({v}, {o})" for v, o in p_re) + "])")
            meta.append((describe(d), d))
            cases.append(f"(CViews {cid + 1}%nat {decomp_lit(d_im)} [" + "; ".join(f"({v}, {o})" for v, o in p_im) + "])")
            pairs = p_re
            chk.hist("dtype", "one complex array")
        else:
            pairs, hists, ncalls, msgs = check_decomp(chk, d, rng, malformed)
            dl = decomp_lit(d)
            cases.append(f"(CViews {cid}%nat {dl} [" + "; ".join(f"({v}, {o})" for v, o in pairs) + "])")
            for constructed, lits in hists:
                cases.append(f"(CObj {cid}%nat {dl} {C.boolc(constructed)} [" + "; ".join(lits) + "])")
                chk.hist("wrapper_histories", "constructed" if constructed else "constructor rejected")
            if d.get("dtypes"):
                chk.hist("dtype", "mixed real dtypes")
        desc = describe(d)
        meta.append((desc, d))
        arrs = d["fs"] if d["kind"] in ("cp", "tucker", "p2") else d["cores"]
        nontrivial = any(np.size(a) > 1 for a in arrs)
        key = (d["kind"], tuple(map(tuple, desc["factor_shapes"])), d.get("wk"), d.get("skip"), bool(d.get("tr")), d.get("mask") is not None, d.get("why"),
               tuple(map(tuple, desc.get("projection_shapes", []))), tuple(d.get("dtypes") or ()), d.get("cplx") is not None and tuple(d["cplx"][:2]))
        chk.count(key=key, nontrivial=nontrivial, n=ncalls)
        chk.hist("family", d["kind"] + ("/malformed" if malformed else "")); chk.hist("order", desc["order"])
        if d["kind"] in ("cp", "p2"):
            chk.hist("weights", d.get("wk", "given"))
        if len(meta) % 97 == 0:
            chk.sample({"decomposition": desc, "observed_views": [f"{v} -> {o[:120]}" for v, o in pairs[:4]]}, maxn=6)
    for lit, desc, ncalls in zero_order_cases(len(meta), rng):
        cases.append(lit); meta.append((desc, None))
        chk.count(key=("zero-order", desc["kind"], desc["type"]), nontrivial=False, n=ncalls)
        chk.hist("family", "0-order number")
    for lit, desc, ncalls in complex_cp_cases(chk, len(meta), rng, tier):
        cases.append(lit); meta.append((desc, None))
        chk.count(key=("complex-cp", tuple(map(tuple, desc["factor_shapes"])), desc["weights"]), nontrivial=True, n=ncalls)
        chk.hist("family", "cp/complex"); chk.hist("weights", "complex:" + desc["weights"])
    for lit, desc, ncalls in complex_p2_cases(chk, len(meta), rng, tier):
        cases.append(lit); meta.append((desc, None))
        chk.count(key=("complex-p2", desc["projections"], tuple(map(tuple, desc["projection_shapes"]))), nontrivial=True, n=ncalls)
        chk.hist("family", "p2/complex")
    for lit, desc, ncalls in complex_family_cases(chk, len(meta), rng, tier):
        cases.append(lit); meta.append((desc, None))
        chk.count(key=("complex", desc["kind"], tuple(map(tuple, desc["factor_shapes"]))), nontrivial=True, n=ncalls)
        chk.hist("family", desc["kind"])
    failing, n_eval, broken = run_shards_with_retry(cases, shard=120 if tier == "quick" else 100)
    chk.checker_cmds.append("coqc (vm_compute) on generated build/cases/C03/*.v: Corr.C03.failing")
    chk.cov["traces_validated_against_impl"] = n_eval
    chk.cov["decompositions"] = len(meta)
    chk.cov["coq_cases"] = len(cases)
    chk.cov["exhaustive"] = False
    chk.cov["skipped_timeouts"] = SKIPPED["timeouts"]
    chk.cov["rule"] = ("one case = one decomposition (CP / Tucker / TT / TR / TT-matrix / PARAFAC2; integer entries in [-3,3]) observed through every view "
                       "(validate|.shape/.rank, to_tensor [masked], to_unfolded for every mode + one invalid mode (CP and half of the other decompositions of the enumerated boxes also the negative modes -1, -order and the invalid -(order+1)), to_vec, cp_norm / wrapper .norm(), to_matrix, slice(s)) under both tenalg backends "
                       "(the einsum TT-matrix route against its own model), "
                       "as tuple (one CViews case) and as wrapper-object HISTORY per backend (CObj cases run through the object model: construction, shuffled multi-step views with repeats, a shape-preserving __setitem__ phase after which the views must follow the new contents, for about half of the objects a second shape-preserving phase (weights set again / twice, factors before core, the same core index set twice then another), and a shape-changing one = the classified known-finding class); plus mixed-dtype variants (int64 indicator / float32 / float64, half-integer floats, one complex array); CP: all shapes of order 1-3 over {1,2,3} (+ sampled order 4; thorough: all) x rank {1,2,3} x "
                       "weights {None, ones, signed non-unit} + masked (thorough, order 4: every shape with about 40% of the rank x weights combinations); Tucker/TT/TR: all shapes of order 1-2 + sampled order 3-4 (thorough: all of order 3, 54 of the 81 of order 4) with random ranks in {1,2,3} incl. rank > dim, skip_factor, transpose_factors; "
                       "TT-matrix with 1-3 cores; PARAFAC2 with uneven slices; plus a malformed stream (mismatched ranks, wrong boundary ranks, open rings, wrong ndim, non-orthonormal and dyadic sub-orthonormal projections (validator through the model at Q), wrong counts, 1-D factors, a non-square PARAFAC2 B that must be rejected late, "
                       "operands np.einsum can broadcast: size-1 core modes / one-column factors / inner rank r against 1 / open boundary ranks, a TT with first boundary rank r0 and fitting rank products) observed through EVERY view under BOTH backends: Ok-with-the-same-value / Err exactly as the model says, and any reconstruction returned for a set the validator rejects is a finding; "
                       "round 7: order-1 CP tensors with weights=None and a 0/1 (bool / int / float) or general integer mask on every run; tucker_to_tensor(modes=...) with repeated modes; PARAFAC2 with exactly one non-orthonormal projection at the first / middle / last position through every view; 0-order inputs (Python numbers) through the cp / tt functions; complex CP tensors with Gaussian-integer weights and factors (all views exactly, cp_norm exactly as its square); "
                       "evaluations = implementation calls; a case is non-trivial if some factor has more than one entry; distinct key = (family, factor shapes, weights kind, options, malformation)")
    for b in broken:
        chk.broken.append({"what": "correspondence corr:C03 shard not evaluated", "detail": b})
    for i in sorted(failing):
        desc, d = meta[i]
        chk.disagreement("corr:C03 (Model/Factorized.v vs tensorly factorised-tensor modules)", {"decomposition": desc, "data": payload_arrays(d) if d is not None else desc})
    chk.assumptions = ["integer-valued factors with |entries| <= 4, so every float64 partial sum is exact (no rounding gap between model and code)",
                       "the to_tensor routes are modelled for 2-D (and, rank 1, 1-D) CP factors, 2-D Tucker factors, 3-D TT/TR cores, 4-D TT-matrix cores; other ndims only through the validators",
                       "mixed-dtype / complex / half-integer factor sets are compared by VALUE after exact conversion (the model has no dtype); a complex array is split into two integer cases by linearity",
                       "NumPy reshape/moveaxis/transpose behave as modelled in Base/Tensor.v (validated by C01's primitive cases)",
                       "complex CP tensors: Gaussian-integer entries with |re|, |im| <= 2, so every complex128 partial sum is exact; cp_norm (a complex square root) is compared through its square within 1e-9"]
    chk.trusted += ["source tie corr:C03-src: the ast translation of the six validators into program terms (harness/props/C03_ast.py; CP and PARAFAC2: structural recognisers) is trusted; that the generic einsum semantics of Model/Tenalg.v (against which C03_ttm_einsum_is_np_einsum reads ein_chain as ttm_equation N) is np.einsum, and that renaming the labels of an equation does not change it, are trusted; the orthonormality test of _validate_parafac2_tensor is an oracle of its program",
                    "einsum backend: the einsum routes of CP (khatri_rao), Tucker (multi_mode_dot) and the TT-matrix are modelled separately (value of the single np.einsum call) and proved equal to the core routes on well-formed input; TT / TR / PARAFAC2 run the same code under both backends; on malformed operands the Tucker and TT-matrix einsum routes are compared against their models as well (tucker_to_tensor_einsum_b: exact contracted dimensions; ttm_to_tensor_einsum: the validator's conditions first); the einsum khatri_rao of CP is reached only after _validate_cp_tensor and is compared on accepted sets only",
                    "PARAFAC2 orthonormality threshold 1e-5 is modelled exactly (P^T P = I) which coincides on integer-valued projections"]
    _orig_load = C.load_known

    def _load(prop):  # known_findings.json is regenerated by the coordinator; read this property's own snippet as well
        import json, os
        ks = list(_orig_load(prop)); ids = {k.get("id") for k in ks}
        p = os.path.join(C.VERIF, "known_findings.d", "C03.json")
        if os.path.exists(p):
            ks += [k for k in json.load(open(p)).get("findings", []) if k.get("property") == prop and k.get("id") not in ids]
        return ks
    C.load_known = _load
    try:
        return chk.finish(CLASSIFIERS)
    finally:
        C.load_known = _orig_load


def corpus_cases():
    import json, os
    d = os.path.join(C.VERIF, "corpus", "C03")
    out = []
    if os.path.isdir(d):
        for fn in sorted(os.listdir(d)):
            if fn.endswith(".json"):
                p = json.load(open(os.path.join(d, fn)))
                x = from_payload(p["data"] if "data" in p else p)
                if "malformed" in p:
                    x["malformed"] = p["malformed"]
                out.append(x)
    return out


def replay(payload):
    """re-run a stored failing input against the current implementation; 1 = still failing"""
    if payload.get("kind") != "failing-input":
        print("replay file names a broken theorem/correspondence, not an input:", payload.get("theorem_or_correspondence"))
        return 1
    inp = payload["inputs"]
    if not isinstance(inp.get("data"), dict) or "kind" not in inp["data"] or inp["data"]["kind"] in ("cp (0-order)", "cp (0-order, masked)", "tt (0-order)"):
        # 0-order numbers / complex Tucker, TT, TR, TT-matrix cases are regenerated from the seed, not stored: re-run them
        C.reset_backends()

        class _Rec:
            def __init__(self): self.findings = []
            def finding(self, ep, inputs, msg, pred, **k): self.findings.append((ep, msg))
        rec = _Rec()
        complex_family_cases(rec, 0, random.Random(payload.get("seed", 0)), "quick")
        zero_order_probe_rec = [r for r in zero_order_cases(0, random.Random(0)) if "OBad" in r[0]]
        for ep, msg in rec.findings[:5]:
            print("replay:", ep, "->", msg)
        return 1 if rec.findings or zero_order_probe_rec else 0
    if isinstance(inp.get("data"), dict) and inp["data"].get("kind") == "cpg":
        C.reset_backends()
        cx = lambda l: np.array([complex(a, b) for a, b in l], dtype=np.complex128)
        w = None if inp["data"]["w"] is None else cx(inp["data"]["w"])
        fs = [cx(f["values"]).reshape(f["shape"]) for f in inp["data"]["fs"]]
        msgs = complex_cp_run(w, fs, None, record=False)[2]
        for m in msgs[:5]:
            print("replay:", m[2], m[3], vname(m[0]), "->", m[1])
        return 1 if msgs else 0
    d = from_payload(inp["data"])
    C.reset_backends()
    malformed = bool(d.get("onedim") or d.get("late_reject")) or not well_formed_py(d)
    msgs = []
    for attempt in range(6):   # the __setitem__ phases of a wrapper history are drawn at random: try a few
        rng = random.Random(attempt)
        if d.get("cplx") is not None:
            msgs = check_complex(None, d, rng, record=False)[3]
        else:
            msgs = check_decomp(None, d, rng, malformed, record=False)[3]
            # the shape-changing __setitem__ phase is the classified known-finding class: it only counts when replaying such a finding
            msgs = [m for m in msgs if len(m) < 4 or m[3] != "reshaping" or inp.get("phase") == "reshaping"]
        if msgs or inp.get("phase") in (None, "new"):
            break
    want = inp.get("view")
    hit = [m for m in msgs if want is None or vname(m[1]) == want] or msgs
    for m in hit[:5]:
        print("replay:", m[0], vname(m[1]), "->", m[2])
    if not hit:
        print("replay: all views agree with the defining contraction / invalid set rejected")
    return 1 if hit else 0
