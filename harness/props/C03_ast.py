"""C03 source tie (corr:C03-src).  On every run
  (1) the three chain validators _validate_tt_tensor / _validate_tr_tensor / _validate_tt_matrix are REGENERATED from the current Python
      source by an `ast` translation into a `chainprog` (Model/FactorizedSrc.v): the pre-check on the number of cores, the arity of the
      tuple unpacking of tl.shape(factor), the `if <cond>: raise` checks IN SOURCE ORDER, the appends and the returned tuple.  Coq then
      checks that each regenerated program is the reference program and re-proves, for the regenerated term,
          forall cs, run_chain <prog_src> (map shape cs) = validate_<x> cs        (Proofs/FactorizedProofs22.v: *_prog_link);
  (2) the einsum-backend tt_matrix_to_tensor is run from its current source with `tl` replaced by a recorder (exactly one einsum call and
      one transpose call allowed) for 1..5 cores; Coq checks that the recorded equation is, up to a renaming of the labels, the equation
      Model/Factorized.ein_chain implements (ttm_equation N) and that the recorded axes are ttm_transposition N.
Tie levels (round 7): a regenerated program that is not the reference program letter for letter may be SIMILAR to it (Model/FactorizedSrc2.v: same
set of raising conditions up to re-ordering, operand order, `not ==` for `!=`, truthiness; Proofs24 proves the same interpretation on every
input, so the link theorem is re-proved); a chain / Tucker program that is neither is compared with the reference program on a finite box of
shape lists (bounded evidence, reported as such).
Fail closed: a construct the translator does not know, a second einsum call, a mismatch ... is a broken tie, never ignored."""
import ast, os, shutil, subprocess
from harness import common as C


class Untranslatable(Exception):
    pass


VALIDATORS = {"tt": ("tensorly/tt_tensor.py", "_validate_tt_tensor", "tt_prog", "validate_tt", "TTTensor"),
              "tr": ("tensorly/tr_tensor.py", "_validate_tr_tensor", "tr_prog", "validate_tr", None),
              "ttm": ("tensorly/tt_matrix.py", "_validate_tt_matrix", "ttm_prog", "validate_ttm", None)}
EXP_RANK = {"VRankVar": 0, "VCoreAtIndex": 0, "VPrevAt": 0, "VPrevLast": 0, "VNdim": 1, "VIndex": 2, "VCur": 3, "VNFm1": 4, "VNum": 5}


def _name(n):
    return n.id if isinstance(n, ast.Name) else None


def _call(n, attr, base="tl"):
    return isinstance(n, ast.Call) and isinstance(n.func, ast.Attribute) and n.func.attr == attr and _name(n.func.value) == base and not n.keywords


def _int(n):
    if isinstance(n, ast.Constant) and isinstance(n.value, int) and not isinstance(n.value, bool):
        return n.value
    if isinstance(n, ast.UnaryOp) and isinstance(n.op, ast.USub) and isinstance(n.operand, ast.Constant) and isinstance(n.operand.value, int):
        return -n.operand.value
    return None


class ChainTranslator:
    def __init__(self, fn, wrapper_class):
        self.fn = fn
        if len(fn.args.args) != 1 or fn.args.vararg or fn.args.kwarg or fn.args.kwonlyargs:
            raise Untranslatable("the validator no longer takes exactly one positional argument")
        self.arg = fn.args.args[0].arg
        self.aliases = {self.arg}          # names of the list of cores
        self.nname = None                  # name bound to len(factors)
        self.lists = []                    # output lists, in creation order
        self.vars = None                   # unpacked variable names
        self.index = self.factor = None
        self.wrapper_class = wrapper_class
        self.flags = {"wrapper_shortcut": False, "zero_order": False}

    # ---- expressions / conditions of the loop body
    def exp(self, n):
        v = _int(n)
        if v is not None and v >= 0:
            return ("VNum", v)
        if _name(n) is not None:
            if n.id == self.index:
                return ("VIndex",)
            if n.id in self.vars:
                return ("VCur", self.vars.index(n.id))
            raise Untranslatable(f"unknown name {n.id} in a check")
        if _call(n, "ndim") and len(n.args) == 1 and _name(n.args[0]) == self.factor:
            return ("VNdim",)
        if isinstance(n, ast.BinOp) and isinstance(n.op, ast.Sub) and _name(n.left) == self.nname and _int(n.right) == 1:
            return ("VNFm1",)
        if isinstance(n, ast.Subscript) and _call(n.value, "shape") and len(n.value.args) == 1:
            inner = n.value.args[0]
            if (isinstance(inner, ast.Subscript) and _name(inner.value) in self.aliases and isinstance(inner.slice, ast.BinOp)
                    and isinstance(inner.slice.op, ast.Sub) and _name(inner.slice.left) == self.index and _int(inner.slice.right) == 1):
                k = _int(n.slice)
                if k is not None and k >= 0:
                    return ("VPrevAt", k)
                if k == -1:
                    return ("VPrevLast",)
        raise Untranslatable("expression not understood: " + ast.unparse(n))

    def cond(self, n):
        if isinstance(n, ast.UnaryOp) and isinstance(n.op, ast.Not):
            return ("CNot", self.cond(n.operand))
        if isinstance(n, ast.BoolOp) and isinstance(n.op, ast.And):
            cs = [self.cond(v) for v in n.values]
            out = cs[-1]
            for c in reversed(cs[:-1]):
                out = ("CAnd", c, out)
            return out
        if isinstance(n, ast.Compare) and len(n.ops) == 1 and isinstance(n.ops[0], (ast.NotEq, ast.Eq)):
            a, b = self.exp(n.left), self.exp(n.comparators[0])
            if EXP_RANK[a[0]] > EXP_RANK[b[0]]:     # == and != are symmetric: canonical operand order
                a, b = b, a
            return ("CNe" if isinstance(n.ops[0], ast.NotEq) else "CEq", a, b)
        if _name(n) == self.index:
            return ("CTruthy", ("VIndex",))
        raise Untranslatable("condition not understood: " + ast.unparse(n))

    @staticmethod
    def _raises(body):
        return len(body) == 1 and isinstance(body[0], ast.Raise)

    # ---- the function body
    def translate(self):
        prog = {"min": 0, "checks": [], "appends": [], "last": None, "ret": None}
        body = list(self.fn.body)
        if body and isinstance(body[0], ast.Expr) and isinstance(body[0].value, ast.Constant) and isinstance(body[0].value.value, str):
            body = body[1:]
        seen_loop = False
        for st in body:
            if prog["ret"] is not None:
                raise Untranslatable("statement after the return")
            if isinstance(st, ast.Assign) and len(st.targets) == 1 and _name(st.targets[0]) is not None:
                tgt = st.targets[0].id
                if _name(st.value) in self.aliases and not seen_loop:
                    self.aliases.add(tgt); continue
                if (isinstance(st.value, ast.Call) and _name(st.value.func) == "len" and len(st.value.args) == 1
                        and _name(st.value.args[0]) in self.aliases and not seen_loop):
                    self.nname = tgt; continue
                if isinstance(st.value, ast.List) and not st.value.elts and not seen_loop:
                    self.lists.append(tgt); continue
                raise Untranslatable("assignment not understood: " + ast.unparse(st))
            if isinstance(st, ast.If) and not seen_loop:
                t = st.test
                if isinstance(t, ast.Call) and _name(t.func) == "isinstance":
                    self._shortcuts(st); continue
                if (self._raises(st.body) and not st.orelse and isinstance(t, ast.Compare) and len(t.ops) == 1 and isinstance(t.ops[0], ast.Lt)
                        and _name(t.left) == self.nname and _int(t.comparators[0]) is not None and prog["min"] == 0):
                    prog["min"] = _int(t.comparators[0]); continue
                raise Untranslatable("if statement before the loop not understood: " + ast.unparse(t))
            if isinstance(st, ast.For) and not seen_loop:
                seen_loop = True
                self._loop(st, prog); continue
            if (isinstance(st, ast.Expr) and isinstance(st.value, ast.Call) and isinstance(st.value.func, ast.Attribute) and st.value.func.attr == "append"
                    and seen_loop and prog["last"] is None and len(st.value.args) == 1 and _name(st.value.args[0]) in (self.vars or [])):
                prog["last"] = (_name(st.value.func.value), self.vars.index(st.value.args[0].id)); continue
            if isinstance(st, ast.Return) and seen_loop:
                prog["ret"] = st.value; continue
            raise Untranslatable("statement not understood: " + ast.unparse(st)[:120])
        return self._assemble(prog)

    def _shortcuts(self, st):
        """if isinstance(x, Wrapper): return x.shape, x.rank  [elif isinstance(x, (float, int)): return 0, 0]"""
        def is_inst(t, what):
            return (isinstance(t, ast.Call) and _name(t.func) == "isinstance" and len(t.args) == 2 and _name(t.args[0]) in self.aliases and what(t.args[1]))
        def ret_cache(b):
            return (len(b) == 1 and isinstance(b[0], ast.Return) and isinstance(b[0].value, ast.Tuple) and len(b[0].value.elts) == 2
                    and all(isinstance(e, ast.Attribute) and _name(e.value) in self.aliases for e in b[0].value.elts)
                    and [e.attr for e in b[0].value.elts] == ["shape", "rank"])
        def ret_zero(b):
            return (len(b) == 1 and isinstance(b[0], ast.Return) and isinstance(b[0].value, ast.Tuple) and [_int(e) for e in b[0].value.elts] == [0, 0])
        if not (is_inst(st.test, lambda c: _name(c) == self.wrapper_class) and ret_cache(st.body)) or self.wrapper_class is None:
            raise Untranslatable("isinstance branch not understood: " + ast.unparse(st.test))
        self.flags["wrapper_shortcut"] = True
        if st.orelse:
            e = st.orelse
            if (len(e) == 1 and isinstance(e[0], ast.If) and not e[0].orelse and ret_zero(e[0].body)
                    and is_inst(e[0].test, lambda c: isinstance(c, ast.Tuple) and sorted(_name(x) or "?" for x in c.elts) == ["float", "int"])):
                self.flags["zero_order"] = True
            else:
                raise Untranslatable("else branch of the isinstance test not understood")

    def _loop(self, st, prog):
        it, tg = st.iter, st.target
        if not (isinstance(it, ast.Call) and _name(it.func) == "enumerate" and len(it.args) == 1 and _name(it.args[0]) in self.aliases and not it.keywords
                and isinstance(tg, ast.Tuple) and len(tg.elts) == 2 and all(_name(e) for e in tg.elts) and not st.orelse):
            raise Untranslatable("loop header is not `for index, factor in enumerate(factors)`")
        self.index, self.factor = tg.elts[0].id, tg.elts[1].id
        body = list(st.body)
        first = body[0] if body else None
        if not (isinstance(first, ast.Assign) and len(first.targets) == 1 and isinstance(first.targets[0], ast.Tuple)
                and all(_name(e) for e in first.targets[0].elts) and _call(first.value, "shape") and len(first.value.args) == 1
                and _name(first.value.args[0]) == self.factor):
            raise Untranslatable("the loop body does not start with the tuple unpacking of tl.shape(factor)")
        self.vars = [e.id for e in first.targets[0].elts]
        if len(set(self.vars)) != len(self.vars):
            raise Untranslatable("repeated variable in the unpacking")
        for b in body[1:]:
            if isinstance(b, ast.If) and self._raises(b.body) and not b.orelse:
                if prog["appends"]:
                    raise Untranslatable("a check after an append")   # (harmless in Python, but the model's program has all checks first)
                prog["checks"].append(self.cond(b.test)); continue
            if (isinstance(b, ast.Expr) and isinstance(b.value, ast.Call) and isinstance(b.value.func, ast.Attribute) and b.value.func.attr == "append"
                    and _name(b.value.func.value) in self.lists and len(b.value.args) == 1 and _name(b.value.args[0]) in self.vars):
                prog["appends"].append((b.value.func.value.id, self.vars.index(b.value.args[0].id))); continue
            raise Untranslatable("loop statement not understood: " + ast.unparse(b)[:120])

    def _assemble(self, prog):
        r = prog["ret"]
        if not (isinstance(r, ast.Tuple) and len(r.elts) == 2):
            raise Untranslatable("the validator does not return a pair")
        def tuple_of(n):
            return _name(n.args[0]) if (isinstance(n, ast.Call) and _name(n.func) == "tuple" and len(n.args) == 1) else None
        def concat(n):
            if isinstance(n, ast.BinOp) and isinstance(n.op, ast.Add):
                return concat(n.left) + concat(n.right)
            t = tuple_of(n)
            if t is None:
                raise Untranslatable("returned shape is not a concatenation of tuple(<list>)")
            return [t]
        shape_lists, rank_list = concat(r.elts[0]), tuple_of(r.elts[1])
        app = {}
        for lst, col in prog["appends"]:
            if lst in app:
                raise Untranslatable(f"two appends to {lst} in the loop")
            app[lst] = col
        if rank_list is None or rank_list not in app or prog["last"] is None or prog["last"][0] != rank_list:
            raise Untranslatable("rank list: one append in the loop and one after it expected")
        if sorted(app) != sorted(set(shape_lists + [rank_list])) or len(set(shape_lists)) != len(shape_lists) or rank_list in shape_lists:
            raise Untranslatable("appended lists and returned lists differ")
        if self.nname is None and any("VNFm1" in repr(c) for c in prog["checks"]):
            raise Untranslatable("n_factors unbound")
        return {"min": prog["min"], "arity": len(self.vars), "checks": prog["checks"], "shape_cols": [app[l] for l in shape_lists],
                "rank_col": app[rank_list], "last_col": prog["last"][1], "flags": dict(self.flags)}


def translate_validator(repo, key):
    path, fname, _, _, wrapper = VALIDATORS[key]
    tree = ast.parse(open(os.path.join(repo, path)).read())
    fns = [n for n in tree.body if isinstance(n, ast.FunctionDef) and n.name == fname]
    if len(fns) != 1:
        raise Untranslatable(f"{fname}: {len(fns)} definitions in {path}")
    return ChainTranslator(fns[0], wrapper).translate()


def translate_tucker(repo):
    """_validate_tucker_tensor -> tkprog fields"""
    path, fname = "tensorly/tucker_tensor.py", "_validate_tucker_tensor"
    tree = ast.parse(open(os.path.join(repo, path)).read())
    fns = [n for n in tree.body if isinstance(n, ast.FunctionDef) and n.name == fname]
    if len(fns) != 1:
        raise Untranslatable(f"{fname}: {len(fns)} definitions in {path}")
    fn = fns[0]
    if len(fn.args.args) != 1:
        raise Untranslatable("the validator no longer takes exactly one positional argument")
    arg = fn.args.args[0].arg
    body = list(fn.body)
    if body and isinstance(body[0], ast.Expr) and isinstance(body[0].value, ast.Constant) and isinstance(body[0].value.value, str):
        body = body[1:]
    st = body[0] if body else None
    if not (isinstance(st, ast.Assign) and len(st.targets) == 1 and isinstance(st.targets[0], ast.Tuple) and len(st.targets[0].elts) == 2
            and all(_name(e) for e in st.targets[0].elts) and _name(st.value) == arg):
        raise Untranslatable("the validator does not start with `core, factors = tucker_tensor`")
    core, factors = (e.id for e in st.targets[0].elts)
    def is_len(n):
        return isinstance(n, ast.Call) and _name(n.func) == "len" and len(n.args) == 1 and _name(n.args[0]) == factors
    def is_ndim_core(n):
        return _call(n, "ndim") and len(n.args) == 1 and _name(n.args[0]) == core
    prog = {"min": 0, "same_len": False, "checks": [], "appends": [], "ret": None, "lists": []}
    tr = ChainTranslator.__new__(ChainTranslator)
    tr.aliases, tr.nname, tr.vars, tr.index, tr.factor = {factors}, None, None, None, None
    base_exp = tr.exp
    def exp(n):   # tl.shape(core)[index]
        if (isinstance(n, ast.Subscript) and _call(n.value, "shape") and len(n.value.args) == 1 and _name(n.value.args[0]) == core
                and _name(n.slice) == tr.index):
            return ("VCoreAtIndex",)
        return base_exp(n)
    tr.exp = exp
    seen_loop = False
    for st in body[1:]:
        if prog["ret"] is not None:
            raise Untranslatable("statement after the return")
        if isinstance(st, ast.If) and not seen_loop and ChainTranslator._raises(st.body) and not st.orelse and isinstance(st.test, ast.Compare) and len(st.test.ops) == 1:
            t = st.test
            if isinstance(t.ops[0], ast.Lt) and is_len(t.left) and _int(t.comparators[0]) is not None and prog["min"] == 0 and not prog["same_len"]:
                prog["min"] = _int(t.comparators[0]); continue
            if isinstance(t.ops[0], ast.NotEq) and ((is_len(t.left) and is_ndim_core(t.comparators[0])) or (is_ndim_core(t.left) and is_len(t.comparators[0]))) and not prog["same_len"]:
                prog["same_len"] = True; continue
            raise Untranslatable("pre-check not understood: " + ast.unparse(t))
        if isinstance(st, ast.Assign) and len(st.targets) == 1 and _name(st.targets[0]) and isinstance(st.value, ast.List) and not st.value.elts and not seen_loop:
            prog["lists"].append(st.targets[0].id); continue
        if isinstance(st, ast.For) and not seen_loop:
            seen_loop = True
            tr.lists = prog["lists"]
            tr._loop(st, prog); continue
        if isinstance(st, ast.Return) and seen_loop:
            prog["ret"] = st.value; continue
        raise Untranslatable("statement not understood: " + ast.unparse(st)[:120])
    r = prog["ret"]
    def tuple_of(n):
        return _name(n.args[0]) if (isinstance(n, ast.Call) and _name(n.func) == "tuple" and len(n.args) == 1) else None
    if not (isinstance(r, ast.Tuple) and len(r.elts) == 2 and tuple_of(r.elts[0]) and tuple_of(r.elts[1])):
        raise Untranslatable("the validator does not return (tuple(<list>), tuple(<list>))")
    app = dict(prog["appends"])
    if len(app) != len(prog["appends"]) or sorted(app) != sorted({tuple_of(r.elts[0]), tuple_of(r.elts[1])}) or len(app) != 2:
        raise Untranslatable("appended lists and returned lists differ")
    return {"min": prog["min"], "same_len": prog["same_len"], "arity": len(tr.vars), "checks": prog["checks"],
            "shape_col": app[tuple_of(r.elts[0])], "rank_col": app[tuple_of(r.elts[1])]}


def translate_cp(repo):
    """_validate_cp_tensor -> cpprog fields (a structural recogniser: the constants, indices, comparison and the order of the statements are
    regenerated; any other statement shape is Untranslatable)"""
    path, fname = "tensorly/cp_tensor.py", "_validate_cp_tensor"
    tree = ast.parse(open(os.path.join(repo, path)).read())
    fns = [n for n in tree.body if isinstance(n, ast.FunctionDef) and n.name == fname]
    if len(fns) != 1 or len(fns[0].args.args) != 1:
        raise Untranslatable(f"{fname}: not found / not one positional argument")
    fn = fns[0]; arg = fn.args.args[0].arg
    body = list(fn.body)
    if body and isinstance(body[0], ast.Expr) and isinstance(body[0].value, ast.Constant) and isinstance(body[0].value.value, str):
        body = body[1:]
    flags = {"wrapper_shortcut": False, "zero_order": False}
    if body and isinstance(body[0], ast.If) and isinstance(body[0].test, ast.Call) and _name(body[0].test.func) == "isinstance":
        tr = ChainTranslator.__new__(ChainTranslator); tr.aliases = {arg}; tr.wrapper_class = "CPTensor"; tr.flags = flags
        tr._shortcuts(body[0]); body = body[1:]
    def need(c, msg):
        if not c:
            raise Untranslatable(msg)
    need(len(body) == 6, f"{len(body)} statements after the isinstance branches (6 expected)")
    st = body[0]
    need(isinstance(st, ast.Assign) and isinstance(st.targets[0], ast.Tuple) and len(st.targets[0].elts) == 2 and all(_name(e) for e in st.targets[0].elts)
         and _name(st.value) == arg, "`weights, factors = cp_tensor` expected")
    weights, factors = (e.id for e in st.targets[0].elts)
    def f0(n):     # factors[0]
        return isinstance(n, ast.Subscript) and _name(n.value) == factors and _int(n.slice) == 0
    def ndim_f0_eq(t):
        if (isinstance(t, ast.Compare) and len(t.ops) == 1 and isinstance(t.ops[0], ast.Eq) and _call(t.left, "ndim", "T") and len(t.left.args) == 1
                and f0(t.left.args[0]) and _int(t.comparators[0]) is not None):
            return _int(t.comparators[0])
        raise Untranslatable("`T.ndim(factors[0]) == <int>` expected: " + ast.unparse(t))
    st = body[1]
    need(isinstance(st, ast.If) and len(st.body) == 1 and len(st.orelse) == 1 and isinstance(st.orelse[0], ast.If), "rank selection: if / elif / else expected")
    ra = ndim_f0_eq(st.test)
    a1 = st.body[0]
    need(isinstance(a1, ast.Assign) and _name(a1.targets[0]), "rank assignment expected")
    rank = a1.targets[0].id
    v = a1.value
    if isinstance(v, ast.Call) and _name(v.func) == "int" and len(v.args) == 1:
        v = v.args[0]
    need(isinstance(v, ast.Subscript) and _call(v.value, "shape", "T") and len(v.value.args) == 1 and f0(v.value.args[0]) and _int(v.slice) is not None and _int(v.slice) >= 0,
         "rank = int(T.shape(factors[0])[<int>]) expected")
    ra_col = _int(v.slice)
    e = st.orelse[0]
    rb = ndim_f0_eq(e.test)
    need(len(e.body) == 1 and isinstance(e.body[0], ast.Assign) and _name(e.body[0].targets[0]) == rank and _int(e.body[0].value) is not None
         and ChainTranslator._raises(e.orelse), "elif branch `rank = <int>` / else raise expected")
    rb_val = _int(e.body[0].value)
    st = body[2]
    need(isinstance(st, ast.Assign) and _name(st.targets[0]) and isinstance(st.value, ast.List) and not st.value.elts, "`shape = []` expected")
    shape_list = st.targets[0].id
    loop = body[3]
    need(isinstance(loop, ast.For) and isinstance(loop.iter, ast.Call) and _name(loop.iter.func) == "enumerate" and len(loop.iter.args) == 1
         and _name(loop.iter.args[0]) == factors and isinstance(loop.target, ast.Tuple) and len(loop.target.elts) == 2 and not loop.orelse
         and len(loop.body) == 4, "loop `for i, factor in enumerate(factors)` with 4 statements expected")
    index, factor = (e_.id for e_ in loop.target.elts)
    b0, b1, b2, b3 = loop.body
    need(isinstance(b0, ast.Assign) and _name(b0.targets[0]) and _call(b0.value, "shape", "T") and len(b0.value.args) == 1 and _name(b0.value.args[0]) == factor,
         "`s = T.shape(factor)` expected")
    sname = b0.targets[0].id
    need(isinstance(b1, ast.If) and isinstance(b1.test, ast.Compare) and len(b1.test.ops) == 1 and isinstance(b1.test.ops[0], ast.Eq)
         and isinstance(b1.test.left, ast.Call) and _name(b1.test.left.func) == "len" and _name(b1.test.left.args[0]) == sname
         and _int(b1.test.comparators[0]) is not None and len(b1.body) == 1 and len(b1.orelse) == 1, "`if len(s) == <int>: ... else: ...` expected")
    pad_len = _int(b1.test.comparators[0])
    u1, u2 = b1.body[0], b1.orelse[0]
    need(isinstance(u1, ast.Assign) and isinstance(u1.targets[0], ast.Tuple) and all(_name(x) for x in u1.targets[0].elts) and _name(u1.value) == sname,
         "`<vars> = s` expected")
    vars_ = [x.id for x in u1.targets[0].elts]
    need(isinstance(u2, ast.Assign) and isinstance(u2.targets[0], ast.Tuple) and [_name(x) for x in u2.targets[0].elts] == vars_
         and isinstance(u2.value, ast.Tuple) and len(u2.value.elts) == 2 and isinstance(u2.value.elts[0], ast.Starred) and _name(u2.value.elts[0].value) == sname
         and _int(u2.value.elts[1]) is not None, "`<vars> = *s, <int>` expected")
    pad_val = _int(u2.value.elts[1])
    tr = ChainTranslator.__new__(ChainTranslator)
    tr.aliases, tr.nname, tr.vars, tr.index, tr.factor = {factors}, None, vars_, index, factor
    base_exp = tr.exp
    def exp(n):
        if _name(n) == rank:
            return ("VRankVar",)
        return base_exp(n)
    tr.exp = exp
    need(isinstance(b2, ast.If) and ChainTranslator._raises(b2.body) and not b2.orelse, "`if <cond>: raise` expected in the loop")
    checks = [tr.cond(b2.test)]
    need(isinstance(b3, ast.Expr) and isinstance(b3.value, ast.Call) and isinstance(b3.value.func, ast.Attribute) and b3.value.func.attr == "append"
         and _name(b3.value.func.value) == shape_list and len(b3.value.args) == 1 and _name(b3.value.args[0]) in vars_, "`shape.append(<var>)` expected")
    shape_col = vars_.index(b3.value.args[0].id)
    wst = body[4]
    t = wst.test if isinstance(wst, ast.If) else None
    ok = (t is not None and ChainTranslator._raises(wst.body) and not wst.orelse and isinstance(t, ast.BoolOp) and isinstance(t.op, ast.And) and len(t.values) == 2
          and isinstance(t.values[0], ast.Compare) and _name(t.values[0].left) == weights and len(t.values[0].ops) == 1 and isinstance(t.values[0].ops[0], ast.IsNot)
          and isinstance(t.values[0].comparators[0], ast.Constant) and t.values[0].comparators[0].value is None
          and isinstance(t.values[1], ast.Compare) and len(t.values[1].ops) == 1 and isinstance(t.values[1].ops[0], ast.NotEq)
          and _call(t.values[1].left, "shape", "T") and _name(t.values[1].left.args[0]) == weights
          and isinstance(t.values[1].comparators[0], ast.Tuple) and [_name(x) for x in t.values[1].comparators[0].elts] == [rank])
    need(ok, "`if weights is not None and T.shape(weights) != (rank,): raise` expected")
    r = body[5]
    need(isinstance(r, ast.Return) and isinstance(r.value, ast.Tuple) and len(r.value.elts) == 2 and isinstance(r.value.elts[0], ast.Call)
         and _name(r.value.elts[0].func) == "tuple" and _name(r.value.elts[0].args[0]) == shape_list and _name(r.value.elts[1]) == rank, "`return tuple(shape), rank` expected")
    return {"ra_ndim": ra, "ra_col": ra_col, "rb_ndim": rb, "rb_val": rb_val, "pad_len": pad_len, "pad_val": pad_val, "arity": len(vars_),
            "checks": checks, "shape_col": shape_col, "weights_exact": True, "flags": flags}


def _same(node, template):
    """the statement / expression equals the template (compared as ASTs)"""
    t = ast.parse(template).body[0]
    if isinstance(t, ast.Expr) and not isinstance(node, ast.Expr):
        t = t.value
    return ast.dump(node) == ast.dump(t)


def translate_p2(repo):
    """_validate_parafac2_tensor -> p2prog fields (structural recogniser)"""
    path, fname = "tensorly/parafac2_tensor.py", "_validate_parafac2_tensor"
    tree = ast.parse(open(os.path.join(repo, path)).read())
    fns = [n for n in tree.body if isinstance(n, ast.FunctionDef) and n.name == fname]
    if len(fns) != 1 or len(fns[0].args.args) != 1:
        raise Untranslatable(f"{fname}: not found / not one positional argument")
    fn = fns[0]; arg = fn.args.args[0].arg
    body = list(fn.body)
    if body and isinstance(body[0], ast.Expr) and isinstance(body[0].value, ast.Constant) and isinstance(body[0].value.value, str):
        body = body[1:]
    flags = {"wrapper_shortcut": False, "zero_order": False}
    if body and isinstance(body[0], ast.If) and isinstance(body[0].test, ast.Call) and _name(body[0].test.func) == "isinstance":
        tr = ChainTranslator.__new__(ChainTranslator); tr.aliases = {arg}; tr.wrapper_class = "Parafac2Tensor"; tr.flags = flags
        tr._shortcuts(body[0]); body = body[1:]
    def need(c, msg):
        if not c:
            raise Untranslatable(msg)
    need(len(body) == 9, f"{len(body)} statements after the isinstance branch (9 expected)")
    st = body[0]
    need(isinstance(st, ast.Assign) and isinstance(st.targets[0], ast.Tuple) and len(st.targets[0].elts) == 3 and all(_name(e) for e in st.targets[0].elts)
         and _name(st.value) == arg, "`weights, factors, projections = parafac2_tensor` expected")
    weights, factors, projections = (e.id for e in st.targets[0].elts)
    def raise_if(st_, what):
        need(isinstance(st_, ast.If) and ChainTranslator._raises(st_.body) and not st_.orelse, what + ": `if <cond>: raise` expected")
        return st_.test
    t = raise_if(body[1], "number of factors")
    need(isinstance(t, ast.Compare) and len(t.ops) == 1 and isinstance(t.ops[0], ast.NotEq) and _same(t.left, f"len({factors})") and _int(t.comparators[0]) is not None,
         "`len(factors) != <int>` expected")
    nf = _int(t.comparators[0])
    t = raise_if(body[2], "number of projections")
    need(_same(t, f"len({projections}) != {factors}[0].shape[0]"), "`len(projections) != factors[0].shape[0]` expected")
    st = body[3]
    need(isinstance(st, ast.Assign) and _name(st.targets[0]) and (_same(st.value, f"int(T.shape({factors}[0])[1])") or _same(st.value, f"T.shape({factors}[0])[1]")),
         "`rank = int(T.shape(factors[0])[1])` expected")
    rank = st.targets[0].id
    st = body[4]
    need(isinstance(st, ast.Assign) and _name(st.targets[0]) and isinstance(st.value, ast.List) and not st.value.elts, "`shape = []` expected")
    shape_list = st.targets[0].id

    def loop_head(loop, it_template, nbody):
        need(isinstance(loop, ast.For) and isinstance(loop.target, ast.Tuple) and len(loop.target.elts) == 2 and all(_name(e) for e in loop.target.elts)
             and not loop.orelse and len(loop.body) == nbody, f"loop with {nbody} statements expected")
        return loop.target.elts[0].id, loop.target.elts[1].id

    def unpack_and_check(loop, item):
        b0, b1 = loop.body[0], loop.body[1]
        need(isinstance(b0, ast.Assign) and isinstance(b0.targets[0], ast.Tuple) and all(_name(x) for x in b0.targets[0].elts) and _same(b0.value, f"T.shape({item})"),
             "unpacking of T.shape(<loop variable>) expected")
        vars_ = [x.id for x in b0.targets[0].elts]
        tr_ = ChainTranslator.__new__(ChainTranslator)
        tr_.aliases, tr_.nname, tr_.vars, tr_.index, tr_.factor = set(), None, vars_, loop.target.elts[0].id, item
        base = tr_.exp
        tr_.exp = lambda n: ("VRankVar",) if _name(n) == rank else base(n)
        return vars_, [tr_.cond(raise_if(b1, "column check"))]

    l1 = body[5]
    idx, proj = loop_head(l1, None, 5)
    need(_same(l1.iter, f"enumerate({projections})"), "`for i, projection in enumerate(projections)` expected")
    pvars, pchecks = unpack_and_check(l1, proj)
    b2, b3, b4 = l1.body[2], l1.body[3], l1.body[4]
    # P^H written either way round (conjugation and transposition commute entry for entry): conj(transpose(P)) or transpose(conj(P))
    herm_spellings = (f"T.dot(T.conj(T.transpose({proj})), {proj})", f"T.dot(T.transpose(T.conj({proj})), {proj})")
    need(isinstance(b2, ast.Assign) and _name(b2.targets[0]) and (_same(b2.value, f"T.dot(T.transpose({proj}), {proj})") or any(_same(b2.value, h) for h in herm_spellings)),
         "`inner_product = T.dot(T.transpose(P), P)` or `T.dot(T.conj(T.transpose(P)), P)` / `T.dot(T.transpose(T.conj(P)), P)` expected")
    flags["hermitian"] = any(_same(b2.value, h) for h in herm_spellings)   # which orthonormality test the source has (an oracle of the program)
    ip = b2.targets[0].id
    t = raise_if(b3, "orthonormality test")
    need(isinstance(t, ast.Compare) and len(t.ops) == 1 and isinstance(t.ops[0], ast.Gt)
         and _same(t.left, f"T.max(T.abs({ip} - T.eye({rank}, **T.context({ip}))))") and isinstance(t.comparators[0], ast.Constant)
         and isinstance(t.comparators[0].value, float) and 0 < t.comparators[0].value < 1, "`T.max(T.abs(P^T P - eye(rank))) > <threshold in (0,1)>` expected")
    thr = t.comparators[0].value
    need(isinstance(b4, ast.Expr) and isinstance(b4.value, ast.Call) and isinstance(b4.value.func, ast.Attribute) and b4.value.func.attr == "append"
         and _name(b4.value.func.value) == shape_list and len(b4.value.args) == 1 and isinstance(b4.value.args[0], ast.Tuple) and len(b4.value.args[0].elts) == 2
         and _name(b4.value.args[0].elts[0]) in pvars and isinstance(b4.value.args[0].elts[1], ast.Starred), "`shape.append((<var>, *[...]))` expected")
    shape_col = pvars.index(b4.value.args[0].elts[0].id)
    comp = b4.value.args[0].elts[1].value
    need(isinstance(comp, ast.ListComp) and len(comp.generators) == 1 and not comp.generators[0].ifs and _name(comp.generators[0].target)
         and _same(comp.elt, f"{comp.generators[0].target.id}.shape[0]") and isinstance(comp.generators[0].iter, ast.Subscript)
         and _name(comp.generators[0].iter.value) == factors and isinstance(comp.generators[0].iter.slice, ast.Slice)
         and comp.generators[0].iter.slice.upper is None and comp.generators[0].iter.slice.step is None and _int(comp.generators[0].iter.slice.lower) is not None,
         "`*[f.shape[0] for f in factors[<int>:]]` expected")
    tail_from = _int(comp.generators[0].iter.slice.lower)
    l2 = body[6]
    idx2, fac = loop_head(l2, None, 2)
    it = l2.iter
    need(isinstance(it, ast.Call) and _name(it.func) == "enumerate" and len(it.args) == 1 and isinstance(it.args[0], ast.Subscript) and _name(it.args[0].value) == factors
         and isinstance(it.args[0].slice, ast.Slice) and it.args[0].slice.upper is None and it.args[0].slice.step is None and _int(it.args[0].slice.lower) is not None,
         "`for i, factor in enumerate(factors[<int>:])` expected")
    fac_from = _int(it.args[0].slice.lower)
    fvars, fchecks = unpack_and_check(l2, fac)
    t = raise_if(body[7], "weights")
    need(_same(t, f"{weights} is not None and T.shape({weights})[0] != {rank}"), "`weights is not None and T.shape(weights)[0] != rank` expected")
    need(_same(body[8], f"return tuple({shape_list}), {rank}"), "`return tuple(shape), rank` expected")
    return {"nf": nf, "arity": len(pvars), "proj_checks": pchecks, "orth": True, "shape_col": shape_col, "tail_from": tail_from, "fac_from": fac_from,
            "fac_arity": len(fvars), "fac_checks": fchecks, "weights_first": True, "threshold": thr, "flags": flags}


def p2_lit(p):
    return (f"(mk_p2prog {C.nat(p['nf'])} {C.nat(p['arity'])} [" + "; ".join(gal(c) for c in p["proj_checks"]) + f"] {C.boolc(p['orth'])} {C.nat(p['shape_col'])} "
            f"{C.nat(p['tail_from'])} {C.nat(p['fac_from'])} {C.nat(p['fac_arity'])} [" + "; ".join(gal(c) for c in p["fac_checks"]) + f"] {C.boolc(p['weights_first'])})")


def cp_lit(p):
    return (f"(mk_cpprog {C.nat(p['ra_ndim'])} {C.nat(p['ra_col'])} {C.nat(p['rb_ndim'])} {C.nat(p['rb_val'])} {C.nat(p['pad_len'])} {C.nat(p['pad_val'])} "
            f"{C.nat(p['arity'])} [" + "; ".join(gal(c) for c in p["checks"]) + f"] {C.nat(p['shape_col'])} {C.boolc(p['weights_exact'])})")


def tk_lit(p):
    return (f"(mk_tkprog {C.nat(p['min'])} {C.boolc(p['same_len'])} {C.nat(p['arity'])} [" + "; ".join(gal(c) for c in p["checks"]) + "] "
            f"{C.nat(p['shape_col'])} {C.nat(p['rank_col'])})")


def gal(t):
    if isinstance(t, tuple):
        head, args = t[0], t[1:]
        if not args:
            return head
        return "(" + head + " " + " ".join(gal(a) for a in args) + ")"
    return C.nat(t)


def prog_lit(p):
    return (f"(mk_chainprog {C.nat(p['min'])} {C.nat(p['arity'])} [" + "; ".join(gal(c) for c in p["checks"]) + "] "
            f"{C.nat_list(p['shape_cols'])} {C.nat(p['rank_col'])} {C.nat(p['last_col'])})")


# ---------------------------------------------------------------------------- einsum equation of the einsum tt_matrix_to_tensor
class _Marker:
    pass


def record_ttm_equation(repo, n_cores):
    """run the CURRENT source of einsum_tenalg/_tt_matrix.tt_matrix_to_tensor on n_cores well-formed dummy cores with `tl` replaced by a
    recorder: returns (operand label lists, output labels, transposition axes)"""
    import numpy as np
    path = os.path.join(repo, "tensorly", "tenalg", "einsum_tenalg", "_tt_matrix.py")
    tree = ast.parse(open(path).read())
    fns = [n for n in tree.body if isinstance(n, ast.FunctionDef) and n.name == "tt_matrix_to_tensor"]
    if len(fns) != 1:
        raise Untranslatable("tt_matrix_to_tensor not found in einsum_tenalg/_tt_matrix.py")
    calls = {"einsum": [], "transpose": []}

    class TL:
        @staticmethod
        def ndim(a): return np.ndim(a)
        @staticmethod
        def shape(a): return tuple(np.shape(a))
        @staticmethod
        def einsum(eq, *ops):
            calls["einsum"].append((eq, len(ops))); return _Marker()
        @staticmethod
        def transpose(x, axes=None):
            if not isinstance(x, _Marker):
                raise Untranslatable("transpose of something that is not the einsum result")
            calls["transpose"].append(list(axes)); return _Marker()
        def __getattr__(self, name):
            raise Untranslatable(f"tl.{name} used by the einsum tt_matrix_to_tensor: not part of the recorded shape")
    ns = {"tl": TL(), "__builtins__": __builtins__}
    mod = ast.Module(body=[fns[0]], type_ignores=[])
    exec(compile(mod, path, "exec"), ns)
    rk = [1] + [2] * (n_cores - 1) + [1]
    cores = [np.ones((rk[i], 2, 3, rk[i + 1])) for i in range(n_cores)]
    out = ns["tt_matrix_to_tensor"](cores)
    if not isinstance(out, _Marker) or len(calls["einsum"]) != 1 or len(calls["transpose"]) != 1:
        raise Untranslatable(f"expected exactly one einsum and one transpose call, got {len(calls['einsum'])} / {len(calls['transpose'])}")
    eq, nops = calls["einsum"][0]
    if nops != n_cores or "->" not in eq or "." in eq or " " in eq:
        raise Untranslatable(f"equation {eq!r} not of the explicit form a,b,...->c over {n_cores} operands")
    lhs, rhs = eq.split("->")
    ops = lhs.split(",")
    if len(ops) != n_cores:
        raise Untranslatable(f"equation {eq!r}: {len(ops)} operand terms for {n_cores} cores")
    return [[ord(ch) for ch in o] for o in ops], [ord(ch) for ch in rhs], [int(a) for a in calls["transpose"][0]], eq


HEAD = """From Coq Require Import List Arith Bool. Import ListNotations.
From TLV Require Import Base.Tensor Base.Ops Model.Factorized Model.FactorizedSrc Model.FactorizedSrc2 Proofs.FactorizedProofs22 Proofs.FactorizedProofs24.
"""


def tie_proof(key, same, sim, link, intro, box=None):
    """the regenerated program is (1) the reference program, or (2) similar to it (Proofs24: same interpretation on every input), or,
    where a box exists, (3) has the same interpretation on the finite box (the right disjunct: bounded evidence only)"""
    br = [f'left; assert (E : {same}) by reflexivity; idtac "@@C03-TIE {key} syntactic"; {intro}; rewrite E; apply {link}',
          f'left; assert (E : {sim[0]} = true) by (vm_compute; reflexivity); idtac "@@C03-TIE {key} similar"; {intro}; rewrite ({sim[1]} _ _ E); apply {link}']
    if box:
        br.append("right; vm_compute; reflexivity")
    return "Proof.\n  first [ " + "\n        | ".join(br) + " ].\nQed.\n"



def coq_source(progs, eqs, tk=None, cp=None, p2=None):
    s = HEAD
    for key, p in progs.items():
        _, _, ref, val, _ = VALIDATORS[key]
        s += f"Definition {key}_prog_src : chainprog := {prog_lit(p)}.\n"
        s += (f"Lemma {key}_src_link : (forall (F : Type) (cs : list (tensor F)), run_chain {key}_prog_src (map (@shape F) cs) = {val} cs) \\/ chain_box_eqb {key}_prog_src {ref} = true.\n"
              + tie_proof(key, f"{key}_prog_src = {ref}", (f"chainprog_sim {key}_prog_src {ref}", "run_chain_sim"), f"{ref}_link", "intros F cs", box=True)
              + f"Print Assumptions {key}_src_link.\n")
    if tk is not None:
        s += f"Definition tucker_prog_src : tkprog := {tk_lit(tk)}.\n"
        s += ("Lemma tucker_src_link : (forall (F : Type) (core : tensor F) (fs : list (tensor F)), run_tk tucker_prog_src (shape core) (map (@shape F) fs) = validate_tucker core fs) \\/ tk_box_eqb tucker_prog_src tucker_prog = true.\n"
              + tie_proof("tucker", "tucker_prog_src = tucker_prog", ("tkprog_sim tucker_prog_src tucker_prog", "run_tk_sim"), "tucker_prog_link", "intros F core fs", box=True)
              + "Print Assumptions tucker_src_link.\n")
    if cp is not None:
        s += f"Definition cp_prog_src : cpprog := {cp_lit(cp)}.\n"
        s += ("Lemma cp_src_link : (forall (F : Type) (w : option (tensor F)) (fs : list (tensor F)), run_cp cp_prog_src (option_map (@shape F) w) (map (@shape F) fs) = validate_cp w fs) \\/ False.\n"
              + tie_proof("cp", "cp_prog_src = cp_prog", ("cpprog_sim cp_prog_src cp_prog", "run_cp_sim"), "cp_prog_link", "intros F w fs")
              + "Print Assumptions cp_src_link.\n")
    if p2 is not None:
        s += f"Definition p2_prog_src : p2prog := {p2_lit(p2)}.\n"
        s += ("Lemma p2_src_link : (forall (F : Type) (Op : Base.Ops.fops F) (w : option (tensor F)) (fs ps : list (tensor F)),\n"
              "  run_p2 p2_prog_src (option_map (@shape F) w) (map (@shape F) fs) (map (@shape F) ps) (fun r i => orthonormalb Op (nth i ps (mk [] [])) r) = validate_parafac2 Op w fs ps) \\/ False.\n"
              + tie_proof("p2", "p2_prog_src = p2_prog", ("p2prog_sim p2_prog_src p2_prog", "run_p2_sim"), "p2_prog_link", "intros F Op w fs ps")
              + "Print Assumptions p2_src_link.\n")
    for n, (ops, out, order, _) in eqs.items():
        ol = "[" + "; ".join(C.nat_list(o) for o in ops) + "]"
        s += f"Example ttm_equation_{n} : ttm_equation_ok {C.nat(n)} {ol} {C.nat_list(out)} {C.nat_list(order)} = true. Proof. vm_compute. reflexivity. Qed.\n"
    s += 'Goal True. idtac "@@C03-SRC-OK". exact I. Qed.\n'
    return s


def run_static(chk, repo=None):
    repo = repo or C.REPO
    info = {"validators": {}, "ttm_equations": {}}
    progs, eqs = {}, {}
    for key in VALIDATORS:
        try:
            progs[key] = translate_validator(repo, key)
            info["validators"][key] = {"checks": len(progs[key]["checks"]), "arity": progs[key]["arity"], "min": progs[key]["min"], **progs[key]["flags"]}
        except Untranslatable as e:
            chk.broken.append({"what": f"corr:C03-src: {VALIDATORS[key][1]} is no longer of the shape the chain-validator program transcribes", "detail": str(e)[:500]})
        except (OSError, SyntaxError) as e:
            chk.broken.append({"what": f"corr:C03-src: source of {VALIDATORS[key][1]} not readable", "detail": f"{type(e).__name__}: {e}"[:300]})
    tk = None
    try:
        tk = translate_tucker(repo)
        info["validators"]["tucker"] = {"checks": len(tk["checks"]), "arity": tk["arity"], "min": tk["min"], "same_len": tk["same_len"]}
    except Untranslatable as e:
        chk.broken.append({"what": "corr:C03-src: _validate_tucker_tensor is no longer of the shape the Tucker validator program transcribes", "detail": str(e)[:500]})
    except (OSError, SyntaxError) as e:
        chk.broken.append({"what": "corr:C03-src: source of _validate_tucker_tensor not readable", "detail": f"{type(e).__name__}: {e}"[:300]})
    cp = None
    try:
        cp = translate_cp(repo)
        info["validators"]["cp"] = {"checks": len(cp["checks"]), "arity": cp["arity"], **cp["flags"]}
    except Untranslatable as e:
        chk.broken.append({"what": "corr:C03-src: _validate_cp_tensor is no longer of the shape the CP validator program transcribes", "detail": str(e)[:500]})
    except (OSError, SyntaxError) as e:
        chk.broken.append({"what": "corr:C03-src: source of _validate_cp_tensor not readable", "detail": f"{type(e).__name__}: {e}"[:300]})
    p2 = None
    try:
        p2 = translate_p2(repo)
        info["validators"]["p2"] = {"checks": len(p2["proj_checks"]) + len(p2["fac_checks"]) + 4, "threshold": p2["threshold"], **p2["flags"]}
    except Untranslatable as e:
        chk.broken.append({"what": "corr:C03-src: _validate_parafac2_tensor is no longer of the shape the PARAFAC2 validator program transcribes", "detail": str(e)[:500]})
    except (OSError, SyntaxError) as e:
        chk.broken.append({"what": "corr:C03-src: source of _validate_parafac2_tensor not readable", "detail": f"{type(e).__name__}: {e}"[:300]})
    for n in (1, 2, 3, 4, 5):
        try:
            eqs[n] = record_ttm_equation(repo, n)
            info["ttm_equations"][n] = eqs[n][3]
        except Untranslatable as e:
            chk.broken.append({"what": "corr:C03-src: einsum tt_matrix_to_tensor is no longer one einsum + one transpose on the cores", "detail": f"{n} cores: {e}"[:500]})
        except Exception as e:  # noqa: the routine raised on well-formed dummy cores
            chk.broken.append({"what": "corr:C03-src: einsum tt_matrix_to_tensor raised under the recorder", "detail": f"{n} cores: {type(e).__name__}: {e}"[:500]})
    d = os.path.join(C.BUILD, "cases", "C03", f"src_{os.getpid()}")
    shutil.rmtree(d, ignore_errors=True); os.makedirs(d, exist_ok=True)
    fn = os.path.join(d, "SrcTie.v")
    with open(fn, "w") as f:
        f.write(coq_source(progs, eqs, tk, cp, p2))
    p = subprocess.run(["timeout", "600", "coqc", "-w", "none", "-R", os.path.join(C.COQ, "theories"), "TLV", fn], capture_output=True, text=True, cwd=d)
    ok = p.returncode == 0 and "@@C03-SRC-OK" in p.stdout and p.stdout.count("Closed under the global context") == len(progs) + (1 if tk is not None else 0) + (1 if cp is not None else 0) + (1 if p2 is not None else 0)
    import re as _re
    info["tie"] = {k: "box (bounded)" for k in list(progs) + (["tucker"] if tk is not None else [])}
    info["tie"].update({m.group(1): m.group(2) for m in _re.finditer(r"@@C03-TIE (\w+) (\w+)", p.stdout)})
    if not ok:
        info.pop("tie", None)
        chk.broken.append({"what": "corr:C03-src: a validator program regenerated from the source differs from the reference program of Model/FactorizedSrc.v "
                                   "(or the recorded einsum equation / transposition from ttm_equation / ttm_transposition)",
                           "detail": {"programs": {k: prog_lit(v) for k, v in progs.items()}, "tucker": tk_lit(tk) if tk else None, "cp": cp_lit(cp) if cp else None, "p2": p2_lit(p2) if p2 else None, "equations": {k: v[3] for k, v in eqs.items()},
                                      "stderr": (p.stderr or p.stdout)[-1500:]}})
        info["status"] = "mismatch"
    else:
        info["status"] = "ok"
        boxed = sorted(k for k, v in info["tie"].items() if v.startswith("box"))
        if boxed:
            chk.trusted.append("corr:C03-src: the validator program(s) regenerated for " + ", ".join(boxed) + " differ from the reference program beyond a re-ordering / "
                               "re-spelling of the checks; the two interpretations were compared on a finite box of shape lists only (bounded evidence, no link theorem for the regenerated term)")
        shutil.rmtree(d, ignore_errors=True)
    chk.checker_cmds.append("coqc on the validator programs regenerated from the source (corr:C03-src): <x>_prog_src = <x>_prog, <x>_src_link; recorded einsum equations of tt_matrix_to_tensor")
    return info
