"""C04 -- canonicalising and algebraic transforms preserve the represented tensor.
Correspondence: Model/Transforms.v vs tensorly (cp_tensor, tucker_tensor, parafac2_tensor, tt_tensor, preprocessing):
bit-exact on Z for cp_to_tensor / cp_flip_sign / cp_permute_factors (assignment taken from the implementation) /
cp_mode_dot / tucker_to_tensor / tucker_mode_dot / tt_to_tensor / tr_to_tensor / pad_tt_rank / parafac2_to_slice /
svd_decompress_parafac2_tensor, toleranced on Q for cp_normalize / tucker_normalize / parafac2_normalise /
from_CPTensor / svd_compress_tensor_slices (square roots and QR / SVD answers are data whose contracts are checked inside Coq).
Predicates (independent NumPy reconstructions): dense tensor before == after, advertised canonical form,
factorised mode product == dense mode product, operand of copy=True calls intact (second product on the same object).
Round 7 (C04_r7.py): complex / float32 cores for pad_tt_rank (Gaussian integers, exact), complex mode products, the compress -> fit ->
decompress pipeline on slice lists of mixed heights, TuckerTensor object methods and svd_decompress's projection list on a heap;
source tie for the loop of svd_decompress_parafac2_tensor (gen_decompress); one Print Assumptions question for all theorems;
cases dealt round-robin over the shards."""
import contextlib, io, itertools, random
import numpy as np
from harness import common as C

HEADER = """From Coq Require Import List ZArith QArith Bool. Import ListNotations.
From TLV Require Import Base.Tensor Base.Ops Model.Transforms Model.TransformsApi Model.TransformsHeap Corr.C04.
Open Scope nat_scope."""


# ----------------------------------------------------------------------------- independent dense reconstructions
def dense_cp(w, fs):
    R = fs[0].shape[1]
    out = 0
    for r in range(R):
        term = w[r] if w is not None else 1
        for f in fs:
            term = np.multiply.outer(term, f[:, r])
        out = out + term
    return np.asarray(out)


def dense_tucker(core, fs):
    x = np.asarray(core)
    for k, f in enumerate(fs):
        x = np.moveaxis(np.tensordot(f, x, axes=(1, k)), 0, k)
    return x


def dense_tt(cores, ring=False):
    x = cores[0]                                   # (r0, n0, r1)
    for g in cores[1:]:
        x = np.tensordot(x, g, axes=(x.ndim - 1, 0))
    if ring:
        return np.trace(x, axis1=0, axis2=x.ndim - 1)
    return x[0, ..., 0]


def pf2_slices(w, A, B, Cm, Ps):
    out = []
    for i, P in enumerate(Ps):
        a = A[i] * (w if w is not None else 1)
        out.append((P @ B) @ np.diag(a) @ Cm.T)
    return out


def dense_mode_dot(x, op, mode, keep_dim):
    op = np.asarray(op)
    if op.ndim == 2:
        return np.moveaxis(np.tensordot(op, x, axes=(1, mode)), 0, mode)
    r = np.tensordot(op, x, axes=(0, mode))
    return np.expand_dims(r, mode) if keep_dim else r


def close(a, b, exact=False):
    a, b = np.asarray(a), np.asarray(b)
    if a.shape != b.shape:
        return False
    if exact:
        return bool(np.array_equal(a, b))
    scale = max(1.0, float(np.max(np.abs(b))) if b.size else 1.0)
    return bool(np.all(np.abs(a - b) <= 1e-9 * scale))


def is_int(*arrs):
    return all(np.asarray(a).dtype.kind in "iu" for a in arrs)


def quiet(fn, *a, **k):
    with contextlib.redirect_stdout(io.StringIO()):
        return fn(*a, **k)


def call(fn, *a, **k):
    return C.call_impl(lambda: quiet(fn, *a, **k))


def cps(a):
    return [np.array(x, copy=True) for x in a]


def same_arrays(xs, ys):
    return len(xs) == len(ys) and all(x.shape == y.shape and x.dtype == y.dtype and x.tobytes() == y.tobytes() for x, y in zip(xs, ys))


# ----------------------------------------------------------------------------- predicates (transcriptions of the property)
def pred_cp_normalize(inp):
    from tensorly.cp_tensor import CPTensor, cp_normalize
    w, fs = inp["w"], inp["fs"]
    before = dense_cp(w, fs)
    st, out = call(cp_normalize, CPTensor((np.array(w, copy=True), cps(fs))))
    if st != "ok":
        return f"cp_normalize raised: {out}"
    w2, fs2 = np.asarray(out[0]), [np.asarray(f) for f in out[1]]
    if not close(dense_cp(w2, fs2), before):
        return "cp_normalize changed the represented tensor"
    if np.any(w2 < 0):
        return "cp_normalize returned a negative weight"
    inter = [fs[0] * w] + list(fs[1:])
    for k, f in enumerate(fs2):
        n = np.sqrt(np.sum(f * f, axis=0))
        for r in range(len(w2)):
            zero_in = not np.any(inter[k][:, r])
            if zero_in:
                if np.any(f[:, r]) or w2[r] != 0:
                    return f"zero column {r} of factor {k} did not stay zero with weight 0"
            elif abs(n[r] - 1) > 1e-9:
                return f"column {r} of factor {k} has norm {n[r]!r} after normalisation"
    # the (None, factors) form: weights default to 1
    st, out = call(cp_normalize, (None, cps(fs)))
    if st != "ok":
        return f"cp_normalize((None, factors)) raised: {out}"
    if not close(dense_cp(np.asarray(out[0]), [np.asarray(f) for f in out[1]]), dense_cp(np.ones(len(w)), fs)):
        return "cp_normalize((None, factors)) changed the represented tensor"
    return None


def _func(name):
    import tensorly as tl
    return {"mean": None, "sum": tl.sum}[name]


def pred_cp_flip_sign(inp):
    from tensorly.cp_tensor import CPTensor, cp_flip_sign
    w, fs, mode, fname = inp["w"], inp["fs"], inp["mode"], inp["func"]
    keep_w, keep_fs = np.array(w, copy=True), cps(fs)
    lst = cps(fs)
    st, out = call(cp_flip_sign, CPTensor((np.array(w, copy=True), lst)), mode, _func(fname))
    if st != "ok":
        return f"cp_flip_sign raised: {out}"
    w2, fs2 = np.asarray(out[0]), [np.asarray(f) for f in out[1]]
    if not close(dense_cp(w2, fs2), dense_cp(keep_w, keep_fs), exact=is_int(w, *fs)):
        return "cp_flip_sign changed the represented tensor"
    if np.any(w2 < 0):
        return "cp_flip_sign returned a negative weight"
    for jj, f in enumerate(fs2):
        if jj != mode % len(fs2):
            s = np.sum(f, axis=0) if fname == "sum" else np.mean(f, axis=0)
            if np.any(s < 0):
                return f"column summary of factor {jj} is negative after cp_flip_sign(mode={mode})"
    if not same_arrays(lst, keep_fs):
        return "cp_flip_sign modified the caller's factor arrays"
    return None


def pred_cp_permute(inp):
    from tensorly.cp_tensor import CPTensor, cp_permute_factors
    w, fs, rw, rfs = inp["w"], inp["fs"], inp["ref_w"], inp["ref_fs"]
    t = CPTensor((np.array(w, copy=True), cps(fs)))
    ref = CPTensor((np.array(rw, copy=True), cps(rfs)))
    st, out = call(cp_permute_factors, ref, t)
    if st != "ok":
        return f"cp_permute_factors raised: {out}"
    pt, perms = out
    perm = [int(x) for x in perms[0]]
    R = len(w)
    if sorted(perm) != list(range(R)):
        return f"returned assignment {perm} is not a permutation"
    w2, fs2 = np.asarray(pt.weights), [np.asarray(f) for f in pt.factors]
    if not close(dense_cp(w2, fs2), dense_cp(w, fs)):
        return "cp_permute_factors changed the represented tensor"
    if not (np.array_equal(w2, w[perm]) and all(np.array_equal(f2, f[:, perm]) for f2, f in zip(fs2, fs))):
        return "returned factors are not the columns selected by the returned assignment"
    if not (same_arrays(list(t.factors), fs) and np.array_equal(t.weights, w)):
        return "cp_permute_factors modified its operand"
    # aligned component order: the identity assignment is optimal for the permuted tensor
    def misaligned(w_p, fs_p):
        M = np.ones((R, R))
        for k_, (a, b) in enumerate(zip(rfs, fs_p)):
            a0 = a * rw if k_ == 0 else a
            b0 = b * w_p if k_ == 0 else b
            M = M * np.abs((a0 / np.linalg.norm(a0, axis=0)).T @ (b0 / np.linalg.norm(b0, axis=0)))
        best = max(sum(M[i, p[i]] for i in range(R)) for p in itertools.permutations(range(R)))
        if np.trace(M) < best - 1e-9:
            return f"components are not aligned with the reference: congruence {np.trace(M)!r} < optimum {best!r}"
        return None
    bad = misaligned(w2, fs2)
    if bad:
        return bad
    # list form: the same tensor and a column-rotated, rescaled copy of it; every entry keeps its own tensor
    rot = list(range(1, R)) + [0]
    t2w, t2fs = w[rot] * 2.0, [f[:, rot] for f in fs]
    lst = [CPTensor((np.array(w, copy=True), cps(fs))), CPTensor((np.array(t2w, copy=True), cps(t2fs)))]
    keep = list(lst)
    st, out = call(cp_permute_factors, CPTensor((np.array(rw, copy=True), cps(rfs))), lst)
    if st != "ok":
        return f"cp_permute_factors(list of tensors) raised: {out}"
    pts, perms = out
    if len(pts) != 2 or len(perms) != 2:
        return "cp_permute_factors(list of tensors) did not return one tensor and one assignment per entry"
    for k, (src_w, src_fs) in enumerate([(w, fs), (t2w, t2fs)]):
        pk = [int(x) for x in perms[k]]
        if sorted(pk) != list(range(R)):
            return f"list form: assignment {pk} of entry {k} is not a permutation"
        if not close(dense_cp(np.asarray(pts[k].weights), [np.asarray(f) for f in pts[k].factors]), dense_cp(src_w, src_fs)):
            return f"list form: entry {k} no longer represents its tensor"
        if not (np.array_equal(np.asarray(pts[k].weights), src_w[pk]) and all(np.array_equal(np.asarray(f2), f[:, pk]) for f2, f in zip(pts[k].factors, src_fs))):
            return f"list form: entry {k} is not its operand with the returned assignment applied"
        bad = misaligned(np.asarray(pts[k].weights), [np.asarray(f) for f in pts[k].factors])
        if bad:
            return f"list form: entry {k}: " + bad
    if not (len(lst) == 2 and lst[0] is keep[0] and lst[1] is keep[1]):
        return "cp_permute_factors replaced entries of the caller's list"
    if not (same_arrays(list(lst[0].factors), fs) and same_arrays(list(lst[1].factors), t2fs)):
        return "cp_permute_factors(list of tensors) modified an operand"
    return None


def _mode_dot_seq(kind, inp):
    """first product, then (copy=True: on the SAME operand; copy=False: on the result) a second one"""
    from tensorly.cp_tensor import CPTensor, cp_mode_dot
    from tensorly.tucker_tensor import TuckerTensor, tucker_mode_dot
    fs = cps(inp["fs"])
    if kind == "cp":
        head = np.array(inp["w"], copy=True)
        obj = CPTensor((head, fs)); fn = cp_mode_dot
        dense = lambda o: dense_cp(np.asarray(o[0]), [np.asarray(f) for f in o[1]])
        before = dense_cp(inp["w"], inp["fs"])
    else:
        head = np.array(inp["core"], copy=True)
        obj = TuckerTensor((head, fs)); fn = tucker_mode_dot
        dense = lambda o: dense_tucker(np.asarray(o[0]), [np.asarray(f) for f in o[1]])
        before = dense_tucker(inp["core"], inp["fs"])
    exact = is_int(before, inp["x"])
    name = f"{kind}_mode_dot"
    st, r1 = call(fn, obj, np.array(inp["x"], copy=True), inp["mode"], keep_dim=inp["keep_dim"], copy=inp["copy"])
    if st != "ok":
        return f"{name} raised: {r1}"
    exp1 = dense_mode_dot(before, inp["x"], inp["mode"], inp["keep_dim"])
    d1 = dense(r1)
    if not close(d1, exp1, exact):
        return f"{name}(mode={inp['mode']}, keep_dim={inp['keep_dim']}, copy={inp['copy']}) does not represent the mode product of the dense tensor"
    if tuple(r1.shape) != exp1.shape:
        return f"{name}: advertised shape {tuple(r1.shape)} but represents {exp1.shape}"
    if inp["copy"]:
        if not (same_arrays(list(obj[1]), inp["fs"]) and np.array_equal(obj[0], head)
                and same_arrays([np.asarray(obj[0])], [inp["w"] if kind == "cp" else inp["core"]])):
            return f"{name}(copy=True) modified its operand"
        if not close(dense(obj), before, exact):
            return f"{name}(copy=True): the operand no longer represents the same tensor"
        src, src_dense = obj, before
    else:
        src, src_dense = r1, exp1
    if inp.get("x2") is not None:
        st, r2 = call(fn, src, np.array(inp["x2"], copy=True), inp["mode2"], keep_dim=inp["keep_dim2"], copy=inp["copy"])
        if st != "ok":
            return f"second {name} on the {'same operand' if inp['copy'] else 'result'} raised: {r2}"
        exp2 = dense_mode_dot(src_dense, inp["x2"], inp["mode2"], inp["keep_dim2"])
        if not close(dense(r2), exp2, exact):
            return f"second {name} on the {'same operand' if inp['copy'] else 'result'} is wrong"
    return None


def pred_cp_mode_dot(inp):
    return _mode_dot_seq("cp", inp)


def pred_tucker_mode_dot(inp):
    return _mode_dot_seq("tucker", inp)


def pred_tucker_normalize(inp):
    from tensorly.tucker_tensor import TuckerTensor, tucker_normalize
    core, fs = inp["core"], inp["fs"]
    st, out = call(tucker_normalize, TuckerTensor((np.array(core, copy=True), cps(fs))))
    if st != "ok":
        return f"tucker_normalize raised: {out}"
    c2, fs2 = np.asarray(out[0]), [np.asarray(f) for f in out[1]]
    if not close(dense_tucker(c2, fs2), dense_tucker(core, fs)):
        return "tucker_normalize changed the represented tensor"
    for k, f in enumerate(fs2):
        n = np.sqrt(np.sum(f * f, axis=0))
        for r in range(f.shape[1]):
            if not np.any(fs[k][:, r]):
                if np.any(f[:, r]) or np.any(np.take(c2, r, axis=k)):
                    return f"zero column {r} of factor {k} did not stay zero with a zero core slice"
            elif abs(n[r] - 1) > 1e-9:
                return f"column {r} of factor {k} has norm {n[r]!r} after normalisation"
    return None


def pred_pf2_normalise(inp):
    from tensorly.parafac2_tensor import Parafac2Tensor, parafac2_normalise
    w, (A, B, Cm), Ps = inp["w"], inp["fs"], inp["Ps"]
    st, out = call(parafac2_normalise, Parafac2Tensor((np.array(w, copy=True), cps([A, B, Cm]), cps(Ps))))
    if st != "ok":
        return f"parafac2_normalise raised: {out}"
    w2, (A2, B2, C2), P2 = np.asarray(out[0]), [np.asarray(f) for f in out[1]], [np.asarray(p) for p in out[2]]
    for s1, s2 in zip(pf2_slices(w, A, B, Cm, Ps), pf2_slices(w2, A2, B2, C2, P2)):
        if not close(s2, s1):
            return "parafac2_normalise changed a represented slice"
    if np.any(w2 < 0):
        return "parafac2_normalise returned a negative weight"
    inter = [A * w, B, Cm]
    for k, f in enumerate([A2, B2, C2]):
        n = np.sqrt(np.sum(f * f, axis=0))
        for r in range(len(w2)):
            if not np.any(inter[k][:, r]):
                if np.any(f[:, r]) or w2[r] != 0:
                    return f"zero column {r} of factor {k} did not stay zero with weight 0"
            elif abs(n[r] - 1) > 1e-9:
                return f"column {r} of factor {k} has norm {n[r]!r} after normalisation"
    # a PARAFAC2 tensor passes through from_CPTensor when parafac2_tensor_ok=True and is refused otherwise
    src = Parafac2Tensor((np.array(w, copy=True), cps([A, B, Cm]), cps(Ps)))
    st, again = call(Parafac2Tensor.from_CPTensor, src, parafac2_tensor_ok=True)
    if st != "ok":
        return f"from_CPTensor(parafac2 tensor, parafac2_tensor_ok=True) raised: {again}"
    for s1, s2 in zip(pf2_slices(w, A, B, Cm, Ps), pf2_slices(np.asarray(again[0]), *[np.asarray(f) for f in again[1]], [np.asarray(p) for p in again[2]])):
        if not close(s2, s1):
            return "a PARAFAC2 tensor passed through from_CPTensor(parafac2_tensor_ok=True) represents different slices"
    st, again = call(Parafac2Tensor.from_CPTensor, src)
    if st == "ok":
        return "from_CPTensor accepted a PARAFAC2 tensor without parafac2_tensor_ok=True"
    st, out = call(parafac2_normalise, (None, cps([A, B, Cm]), cps(Ps)))
    if st != "ok":
        return f"parafac2_normalise((None, factors, projections)) raised: {out}"
    one = np.ones(len(w))
    for s1, s2 in zip(pf2_slices(one, A, B, Cm, Ps), pf2_slices(np.asarray(out[0]), *[np.asarray(f) for f in out[1]], [np.asarray(p) for p in out[2]])):
        if not close(s2, s1):
            return "parafac2_normalise((None, factors, projections)) changed a represented slice"
    return None


def _flat3(g):
    """a core (r1, *mid, r2) with its middle modes merged: the chain product only sees G[:, js, :]"""
    g = np.asarray(g)
    return g.reshape(g.shape[0], -1, g.shape[-1])


def pred_pad_tt(inp):
    from tensorly.tt_tensor import pad_tt_rank
    cores, npad, pb, ring = inp["cores"], inp["n_padding"], inp["pad_boundaries"], inp["ring"]
    keep = cps(cores)
    st, out = call(pad_tt_rank, cps(cores), n_padding=npad, pad_boundaries=pb)
    if st != "ok":
        return f"pad_tt_rank raised: {out}"
    out = [np.asarray(g) for g in out]
    n = len(cores)
    for i, (g, g2) in enumerate(zip(keep, out)):
        l = npad if (pb or i > 0) else 0
        r = npad if (pb or i < n - 1) else 0
        if g2.shape != (g.shape[0] + l,) + tuple(g.shape[1:-1]) + (g.shape[-1] + r,):
            return f"core {i}: ranks {g.shape} -> {g2.shape}, expected +{l}/+{r}"
    if not close(dense_tt([_flat3(g) for g in out], ring), dense_tt([_flat3(g) for g in keep], ring), exact=is_int(*cores)):
        return "pad_tt_rank changed the represented tensor"
    return None


def pred_from_cp(inp):
    from tensorly.cp_tensor import CPTensor
    from tensorly.parafac2_tensor import Parafac2Tensor
    w, (A, B, Cm) = inp["w"], inp["fs"]
    st, out = call(Parafac2Tensor.from_CPTensor, CPTensor((np.array(w, copy=True), cps([A, B, Cm]))))
    if st != "ok":
        return f"from_CPTensor raised: {out}"
    w2, (A2, B2, C2), P2 = np.asarray(out[0]), [np.asarray(f) for f in out[1]], [np.asarray(p) for p in out[2]]
    full = dense_cp(w, [A, B, Cm])
    for i, s in enumerate(pf2_slices(w2, A2, B2, C2, P2)):
        if not close(s, full[i]):
            return f"slice {i} of the PARAFAC2 tensor differs from the CP tensor"
    for P in P2:
        if not close(P.T @ P, np.eye(P.shape[1])):
            return "projection is not orthonormal"
    # a PARAFAC2 tensor passes through when parafac2_tensor_ok=True (and is refused otherwise)
    st, again = call(Parafac2Tensor.from_CPTensor, out, parafac2_tensor_ok=True)
    if st != "ok":
        return f"from_CPTensor(parafac2 tensor, parafac2_tensor_ok=True) raised: {again}"
    for i, s in enumerate(pf2_slices(np.asarray(again[0]), *[np.asarray(f) for f in again[1]], [np.asarray(p) for p in again[2]])):
        if not close(s, full[i]):
            return f"slice {i} changed when a PARAFAC2 tensor is passed through from_CPTensor"
    return None


def pred_compress(inp):
    from tensorly.preprocessing import svd_compress_tensor_slices
    slices = inp["slices"]
    st, out = call(svd_compress_tensor_slices, cps(slices), compression_threshold=inp["threshold"], max_rank=inp["max_rank"])
    if st != "ok":
        return f"svd_compress_tensor_slices raised: {out}"
    scores, loads = out
    for i, X in enumerate(slices):
        S, L = np.asarray(scores[i]), loads[i]
        rec = S if L is None else np.asarray(L) @ S
        if L is not None and not close(np.asarray(L).T @ np.asarray(L), np.eye(np.asarray(L).shape[1])):
            return f"loading matrix {i} is not orthonormal"
        if not close(rec, X):
            return f"loading x score of slice {i} differs from the slice (all singular values kept)"
    return None


def pred_decompress(inp):
    from tensorly.parafac2_tensor import Parafac2Tensor
    from tensorly.preprocessing import svd_decompress_parafac2_tensor
    w, (A, B, Cm), Ps, Ls = inp["w"], inp["fs"], inp["Ps"], inp["Ls"]
    pf = Parafac2Tensor((np.array(w, copy=True), cps([A, B, Cm]), cps(Ps)))
    st, out = call(svd_decompress_parafac2_tensor, pf, [None if L is None else np.array(L, copy=True) for L in Ls])
    if st != "ok":
        return f"svd_decompress_parafac2_tensor raised: {out}"
    w2, (A2, B2, C2), P2 = np.asarray(out[0]), [np.asarray(f) for f in out[1]], [np.asarray(p) for p in out[2]]
    comp = pf2_slices(w, A, B, Cm, Ps)
    for i, s in enumerate(pf2_slices(w2, A2, B2, C2, P2)):
        exp = comp[i] if Ls[i] is None else Ls[i] @ comp[i]
        if not close(s, exp):
            return f"decompressed slice {i} is not loading x compressed slice"
    if not same_arrays([np.asarray(p) for p in pf.projections], Ps):
        return "svd_decompress_parafac2_tensor modified its operand's projections"
    return None


def pred_roundtrip(inp):
    """compress the slices of an exact PARAFAC2 tensor, represent the scores by (U_i^T P_i), decompress: original slices"""
    from tensorly.parafac2_tensor import Parafac2Tensor
    from tensorly.preprocessing import svd_compress_tensor_slices, svd_decompress_parafac2_tensor
    w, (A, B, Cm), Ps = inp["w"], inp["fs"], inp["Ps"]
    X = pf2_slices(w, A, B, Cm, Ps)
    st, out = call(svd_compress_tensor_slices, cps(X))
    if st != "ok":
        return f"svd_compress_tensor_slices raised: {out}"
    scores, loads = out
    Qs = [P if L is None else np.asarray(L).T @ P for P, L in zip(Ps, loads)]
    st, pf = call(lambda: Parafac2Tensor((np.array(w, copy=True), cps([A, B, Cm]), Qs)))
    if st != "ok":
        return None          # slice without full column rank: U^T P not orthonormal, outside the round-trip premise
    for i, s in enumerate(pf2_slices(w, A, B, Cm, Qs)):
        if not close(s, np.asarray(scores[i])):
            return f"score matrix {i} is not U^T X"
    st, dec = call(svd_decompress_parafac2_tensor, pf, loads)
    if st != "ok":
        return f"svd_decompress_parafac2_tensor raised: {dec}"
    for i, s in enumerate(pf2_slices(np.asarray(dec[0]), *[np.asarray(f) for f in dec[1]], [np.asarray(p) for p in dec[2]])):
        if not close(s, X[i]):
            return f"compress -> decompress does not reproduce slice {i}"
    return None


def _cp_operand(inp):
    from tensorly.cp_tensor import CPTensor
    w = None if inp["w_none"] else np.array(inp["w"], copy=True)
    return CPTensor((w, cps(inp["fs"]))) if inp["is_class"] else (w, cps(inp["fs"]))


def pred_cp_mode_dot_form(inp):
    """every accepted form of the operand (CPTensor object / plain tuple, weights None) gives the mode product"""
    from tensorly.cp_tensor import cp_mode_dot
    w_eff = np.ones(len(inp["w"]), dtype=inp["w"].dtype) if inp["w_none"] else inp["w"]
    st, out = call(cp_mode_dot, _cp_operand(inp), np.array(inp["x"], copy=True), inp["mode"], keep_dim=inp["keep_dim"], copy=inp["copy"])
    if st != "ok":
        return f"cp_mode_dot raised: {out}"
    exp = dense_mode_dot(dense_cp(w_eff, inp["fs"]), inp["x"], inp["mode"], inp["keep_dim"])
    w2 = np.ones(len(w_eff)) if out[0] is None else np.asarray(out[0])
    if not close(dense_cp(w2, [np.asarray(f) for f in out[1]]), exp, exact=is_int(exp)):
        return "cp_mode_dot does not represent the mode product of the dense tensor"
    if tuple(out.shape) != exp.shape:
        return f"cp_mode_dot: advertised shape {tuple(out.shape)} but represents {exp.shape}"
    return None


def pred_cp_flip_sign_form(inp):
    from tensorly.cp_tensor import cp_flip_sign
    import tensorly as tl
    w_eff = np.ones(len(inp["w"]), dtype=inp["w"].dtype) if inp["w_none"] else inp["w"]
    st, out = call(cp_flip_sign, _cp_operand(inp), inp["mode"], tl.sum)
    if st != "ok":
        return f"cp_flip_sign raised: {out}"
    if not close(dense_cp(np.asarray(out[0]), [np.asarray(f) for f in out[1]]), dense_cp(w_eff, inp["fs"]), exact=True):
        return "cp_flip_sign changed the represented tensor"
    return None


from harness.props import C04_r5 as R5
CLASSIFIERS = dict(R5.CLASSIFIERS)      # open known finding: cp_mode_dot_inplace_alias (known_findings.d/C04.json)


def dense_ttm(cores):
    """entry-wise definition of a TT-matrix: (prod_k G_k[:, i_k, j_k, :])[0, 0], shape (m_1..m_N, n_1..n_N)"""
    ref = np.zeros([g.shape[1] for g in cores] + [g.shape[2] for g in cores], dtype=np.result_type(*cores))
    for ij in itertools.product(*[range(d) for d in ref.shape]):
        m = np.eye(1, dtype=ref.dtype)
        for k, g in enumerate(cores):
            m = m @ g[:, ij[k], ij[len(cores) + k], :]
        ref[ij] = m[0, 0]
    return ref


def _pred_dense(fn_path, build, ref):
    """replayable predicate for the dense reconstructions: implementation == entry-wise definition"""
    def pred(inp):
        import importlib
        mod, name = fn_path.rsplit(".", 1)
        fn = getattr(importlib.import_module(mod), name)
        st, out = call(fn, *build(inp))
        if st != "ok":
            return f"{name} raised: {out}"
        if not close(out, ref(inp), exact=is_int(np.asarray(out))):
            return f"{name} differs from the entry-wise definition"
        return None
    return pred


PRED_DENSE = {
    "cp_to_tensor": _pred_dense("tensorly.cp_tensor.cp_to_tensor", lambda i: ((np.array(i["w"], copy=True), cps(i["fs"])),), lambda i: dense_cp(i["w"], i["fs"])),
    "tucker_to_tensor": _pred_dense("tensorly.tucker_tensor.tucker_to_tensor", lambda i: ((np.array(i["core"], copy=True), cps(i["fs"])),), lambda i: dense_tucker(i["core"], i["fs"])),
    "tt_matrix_to_tensor": _pred_dense("tensorly.tt_matrix.tt_matrix_to_tensor", lambda i: (cps(i["cores"]),), lambda i: dense_ttm(i["cores"])),
    "parafac2_to_slice": _pred_dense("tensorly.parafac2_tensor.parafac2_to_slice", lambda i: ((np.array(i["w"], copy=True), cps(i["fs"]), cps(i["Ps"])), i["i"]),
                                     lambda i: pf2_slices(i["w"], *i["fs"], i["Ps"])[i["i"]]),
}


PRED = {**PRED_DENSE, "cp_mode_dot_form": pred_cp_mode_dot_form, "cp_flip_sign_form": pred_cp_flip_sign_form,
        "cp_normalize": pred_cp_normalize, "cp_flip_sign": pred_cp_flip_sign, "cp_permute_factors": pred_cp_permute,
        "cp_mode_dot": pred_cp_mode_dot, "tucker_mode_dot": pred_tucker_mode_dot, "tucker_normalize": pred_tucker_normalize,
        "parafac2_normalise": pred_pf2_normalise, "pad_tt_rank": pred_pad_tt, "from_CPTensor": pred_from_cp,
        "svd_compress_tensor_slices": pred_compress, "svd_decompress_parafac2_tensor": pred_decompress,
        "svd_compress_decompress": pred_roundtrip}
ENTRY = {"cp_mode_dot_form": "tensorly.cp_tensor.cp_mode_dot", "cp_flip_sign_form": "tensorly.cp_tensor.cp_flip_sign",
         "cp_normalize": "tensorly.cp_tensor.cp_normalize", "cp_flip_sign": "tensorly.cp_tensor.cp_flip_sign",
         "cp_permute_factors": "tensorly.cp_tensor.cp_permute_factors", "cp_mode_dot": "tensorly.cp_tensor.cp_mode_dot",
         "tucker_mode_dot": "tensorly.tucker_tensor.tucker_mode_dot", "tucker_normalize": "tensorly.tucker_tensor.tucker_normalize",
         "parafac2_normalise": "tensorly.parafac2_tensor.parafac2_normalise", "pad_tt_rank": "tensorly.tt_tensor.pad_tt_rank",
         "from_CPTensor": "tensorly.parafac2_tensor.Parafac2Tensor.from_CPTensor",
         "svd_compress_tensor_slices": "tensorly.preprocessing.svd_compress_tensor_slices",
         "svd_decompress_parafac2_tensor": "tensorly.preprocessing.svd_decompress_parafac2_tensor",
         "svd_compress_decompress": "tensorly.preprocessing.svd_decompress_parafac2_tensor"}
PRED.update(R5.PRED); ENTRY.update(R5.ENTRY)
from harness.props import C04_r7 as R7
PRED.update(R7.PRED); ENTRY.update(R7.ENTRY)
from harness.props import C04_r8 as R8
PRED.update(R8.PRED); ENTRY.update(R8.ENTRY)


# ----------------------------------------------------------------------------- generators
def rint(rng, lo, hi, shape):
    return np.array([rng.randint(lo, hi) for _ in range(int(np.prod(shape)))], dtype=np.int64).reshape(shape)


def gen_cp(rng, N=None, R=None, maxdim=3, feat=None, float_=False):
    """CP tensor with small integer (or quarter-integer) entries and one degenerate feature"""
    N = N or rng.randint(1, 4)
    R = R or rng.randint(1, 3)
    dims = [rng.randint(1, maxdim) for _ in range(N)]
    fs = [rint(rng, -3, 3, (d, R)) for d in dims]
    w = rint(rng, -2, 3, (R,))
    feat = feat if feat is not None else rng.choice(["none", "zero_col", "zero_mean", "neg_w", "zero_w", "pos"])
    k, r = rng.randrange(N), rng.randrange(R)
    if feat == "zero_col":
        fs[k][:, r] = 0
    elif feat == "zero_mean":
        d = dims[k]
        if d >= 2:
            col = rint(rng, -3, 3, (d,)); col[-1] = -int(col[:-1].sum()); fs[k][:, r] = col
        else:
            fs[k][:, r] = 0
    elif feat == "neg_w":
        w[r] = -abs(int(w[r])) - 1
    elif feat == "zero_w":
        w[r] = 0
    elif feat == "pos":
        fs = [np.abs(f) + 1 for f in fs]; w = np.abs(w) + 1
    if float_:
        fs = [f.astype(np.float64) / 4 for f in fs]; w = w.astype(np.float64) / 2
    return w, fs, feat


def gen_operand(rng, d, kind):
    if kind == "mat":
        return rint(rng, -2, 2, (rng.randint(1, 3), d))
    if kind == "badvec":
        return rint(rng, -2, 2, (d + 1,))
    if kind == "badmat":
        return rint(rng, -2, 2, (2, d + 1))
    return rint(rng, -2, 2, (d,))


def orth(rng, n, m):
    """n x m matrix with orthonormal columns (n >= m)"""
    a = np.array([[rng.gauss(0, 1) for _ in range(m)] for _ in range(n)])
    q, _ = np.linalg.qr(a)
    return q[:, :m]


# ----------------------------------------------------------------------------- Gallina literals
def zrow(r):
    return C.z_list([int(x) for x in r])


def zmat(A):
    A = np.asarray(A)
    if A.ndim == 1:
        A = A.reshape(1, -1)
    return "[" + "; ".join(zrow(r) for r in A) + "]" if len(A) else "(@nil (list Z))"


def zmats(fs):
    return "[" + "; ".join(zmat(f) for f in fs) + "]" if len(fs) else "(@nil (list (list Z)))"


NONFINITE = float(2 ** 200) * 1.2345  # stands for NaN / inf in a case literal: an implementation output that is not finite can
# never equal the (finite) model value, so the case becomes a disagreement instead of crashing the literal printer (coordinator, end-game)


def _fin(x):
    x = float(x)
    return x if np.isfinite(x) else NONFINITE


def qrow(r):
    return C.q_list([_fin(x) for x in r])


def qmat(A):
    return "[" + "; ".join(qrow(r) for r in np.asarray(A)) + "]" if len(A) else "(@nil (list Q))"


def qmats(fs):
    return "[" + "; ".join(qmat(f) for f in fs) + "]" if len(fs) else "(@nil (list (list Q)))"


def ztens(a):
    a = np.asarray(a)
    return C.ztensor(list(a.shape), [int(x) for x in a.ravel()])


def qtens(a):
    a = np.asarray(a)
    return C.qtensor(list(a.shape), [_fin(x) for x in a.ravel()])


def ztens_list(ts):
    return "[" + "; ".join(ztens(t) for t in ts) + "]" if len(ts) else "(@nil (tensor Z))"


def qmat2(A):
    """2-D array (possibly with 0 rows) as a list of rows of Q"""
    A = np.asarray(A)
    return "[" + "; ".join(qrow(r) for r in A) + "]" if A.shape[0] else "(@nil (list Q))"


def integral(*arrs):
    for a in arrs:
        a = np.asarray(a)
        if a.dtype.kind == "f" and not np.all(a == np.rint(a)):
            return False
        if a.dtype.kind not in "iuf":
            return False
    return True


def zobj_res(st, out):
    """expected value of an entry point returning a CPTensor object: (shape attribute, (weights, factors))"""
    if st != "ok":
        return "Err"
    try:
        shape = [int(d) for d in out.shape]
        w = np.ones(np.asarray(out[1][0]).shape[1], dtype=np.int64) if out[0] is None else np.asarray(out[0])
        fs = [np.asarray(f) for f in out[1]]
        if not integral(w, *fs) or any(f.ndim != 2 for f in fs) or any(d < 0 or d > 4000 for d in shape):
            raise ValueError("not printable")
        return f"(Ok ({C.nat_list(shape)}, ({zrow(w)}, {zmats(fs)})))"
    except Exception:  # noqa
        return "(Ok ([99999]%nat, ([(99999)%Z], (@nil (list (list Z))))))"


def zcp_res(st, w, fs):
    """expected value of a transform returning a CP tensor; a non-integral or malformed answer can never match"""
    if st != "ok":
        return "Err"
    if not integral(w, *fs) or any(np.asarray(f).ndim != 2 for f in fs):
        return "(Ok ([(99999)%Z], (@nil (list (list Z)))))"
    return f"(Ok ({zrow(np.asarray(w))}, {zmats(fs)}))"


# ----------------------------------------------------------------------------- source tie: tensorly source (ast) -> Gallina
# Mini translator for straight-line decision logic (symbolic execution of assignments / if-elif-else over nat, bool and
# option-nat variables).  Used for pad_tt_rank's padding amounts and svd_compress_tensor_slices' rank limit: the generated
# definitions are proved equal to the hand-written model on every run (pad_src_ok, rank_limit_src_ok).
import ast, inspect, textwrap


class Untranslatable(Exception):
    pass


def _sx_expr(e, env, opts):
    if isinstance(e, ast.Name):
        if e.id in env:
            return env[e.id]
        raise Untranslatable(f"free variable {e.id}")
    if isinstance(e, ast.Constant) and isinstance(e.value, bool):
        return "true" if e.value else "false"
    if isinstance(e, ast.Constant) and isinstance(e.value, int) and e.value >= 0:
        return f"{e.value}"
    if isinstance(e, ast.BinOp) and isinstance(e.op, (ast.Add, ast.Sub, ast.Mult)):
        op = {ast.Add: "+", ast.Sub: "-", ast.Mult: "*"}[type(e.op)]
        return f"({_sx_expr(e.left, env, opts)} {op} {_sx_expr(e.right, env, opts)})"
    if isinstance(e, ast.BoolOp):
        op = "&&" if isinstance(e.op, ast.And) else "||"
        return "(" + f" {op} ".join(_sx_expr(v, env, opts) for v in e.values) + ")"
    if isinstance(e, ast.UnaryOp) and isinstance(e.op, ast.Not):
        return f"(negb {_sx_expr(e.operand, env, opts)})"
    if isinstance(e, ast.Compare) and len(e.ops) == 1:
        a, b = _sx_expr(e.left, env, opts), _sx_expr(e.comparators[0], env, opts)
        f = {ast.Eq: "Nat.eqb {a} {b}", ast.NotEq: "negb (Nat.eqb {a} {b})", ast.Lt: "Nat.ltb {a} {b}", ast.LtE: "Nat.leb {a} {b}",
             ast.Gt: "Nat.ltb {b} {a}", ast.GtE: "Nat.leb {b} {a}"}.get(type(e.ops[0]))
        if f:
            return "(" + f.format(a=a, b=b) + ")"
    if isinstance(e, ast.IfExp):
        nt = none_test(e.test)
        if nt and nt[0] in opts:
            name, pos = nt
            some_env = dict(env); some_env[name] = f"{name}_v"
            a = _sx_expr(e.body if pos else e.orelse, some_env, opts)
            b = _sx_expr(e.orelse if pos else e.body, env, opts)
            return f"(match {name} with Some {name}_v => {a} | None => {b} end)"
        return f"(if {_sx_expr(e.test, env, opts)} then {_sx_expr(e.body, env, opts)} else {_sx_expr(e.orelse, env, opts)})"
    if isinstance(e, ast.Call) and isinstance(e.func, ast.Name) and e.func.id in ("min", "max") and len(e.args) == 2:
        return f"(Nat.{e.func.id} {_sx_expr(e.args[0], env, opts)} {_sx_expr(e.args[1], env, opts)})"
    raise Untranslatable(ast.dump(e)[:80])


def none_test(t):
    """`x is not None` / `x is None` on a plain name -> (name, positive?)"""
    if isinstance(t, ast.Compare) and len(t.ops) == 1 and isinstance(t.left, ast.Name) and isinstance(t.comparators[0], ast.Constant) \
            and t.comparators[0].value is None and isinstance(t.ops[0], (ast.Is, ast.IsNot)):
        return t.left.id, isinstance(t.ops[0], ast.IsNot)
    return None


def _sx_run(stmts, env, opts):
    env = dict(env)
    for s in stmts:
        if isinstance(s, ast.Assign):
            v = _sx_expr(s.value, env, opts)
            for t in s.targets:
                if not isinstance(t, ast.Name):
                    raise Untranslatable("assignment target")
                env[t.id] = v
        elif isinstance(s, ast.If):
            nt = none_test(s.test)
            if nt and nt[0] in opts:
                name, pos = nt
                some_env = dict(env); some_env[name] = f"{name}_v"
                e_some = _sx_run(s.body if pos else s.orelse, some_env, opts)
                e_none = _sx_run(s.orelse if pos else s.body, env, opts)
                for k in set(e_some) | set(e_none):
                    a, b = e_some.get(k, env.get(k)), e_none.get(k, env.get(k))
                    if k == name:
                        continue
                    if a is None or b is None:
                        continue            # defined on one path only: not a result variable
                    env[k] = a if a == b else f"(match {name} with Some {name}_v => {a} | None => {b} end)"
            else:
                c = _sx_expr(s.test, env, opts)
                e1, e2 = _sx_run(s.body, env, opts), _sx_run(s.orelse, env, opts)
                for k in set(e1) | set(e2):
                    a, b = e1.get(k), e2.get(k)
                    if a is None or b is None:
                        continue
                    env[k] = a if a == b else f"(if {c} then {a} else {b})"
        else:
            raise Untranslatable(type(s).__name__)
    return env


def find_function(module, name):
    tree = ast.parse(module if isinstance(module, str) else textwrap.dedent(inspect.getsource(module)))
    for n in ast.walk(tree):
        if isinstance(n, ast.FunctionDef) and n.name == name:
            return n
    raise Untranslatable(f"function {name} not found")


def take_while_translatable(stmts, env):
    """the longest prefix of assignments to plain names / ifs that the translator can execute symbolically"""
    out = []
    for s in stmts:
        if isinstance(s, ast.Assign) and not all(isinstance(t, ast.Name) for t in s.targets):
            break
        if not isinstance(s, (ast.Assign, ast.If)):
            break
        try:
            _sx_run(out + [s], env, set())
        except Untranslatable:
            break
        out.append(s)
    return out


def gen_pad(tt_module):
    """padding amounts of pad_tt_rank: the assignments / ifs at the head of its for-loop body"""
    fn = find_function(tt_module, "pad_tt_rank")
    loop = [n for n in fn.body if isinstance(n, ast.For)][0]
    if not (isinstance(loop.target, ast.Tuple) and [e.id for e in loop.target.elts][0] == "i"):
        raise Untranslatable("loop header of pad_tt_rank")
    env0 = {"i": "i", "n_factors": "n_factors", "n_padding": "n_padding", "pad_boundaries": "pad_boundaries"}
    head = take_while_translatable(loop.body, env0)
    env = _sx_run(head, env0, set())
    if "n_padding_left" not in env or "n_padding_right" not in env:
        raise Untranslatable("padding amounts not found at the head of the loop of pad_tt_rank")
    sig = "(i n_factors n_padding : nat) (pad_boundaries : bool) : nat"
    return (f"Definition lpad_src {sig} := {env['n_padding_left']}.\n"
            f"Definition rpad_src {sig} := {env['n_padding_right']}.\n")


def gen_rank_limit(pre_module):
    """rank_limit of svd_compress_tensor_slices: the if / else on max_rank"""
    fn = find_function(pre_module, "svd_compress_tensor_slices")
    def assigns_rank_limit(n):
        return any(isinstance(t, ast.Name) and t.id == "rank_limit" for a in ast.walk(n) if isinstance(a, ast.Assign) for t in a.targets)
    stmts = [n for n in fn.body if isinstance(n, (ast.If, ast.Assign)) and assigns_rank_limit(n)]
    if not stmts:
        raise Untranslatable("no assignment to rank_limit at the top level of svd_compress_tensor_slices")
    env = _sx_run(stmts, {"n_cols": "n_cols", "max_rank": "max_rank"}, {"max_rank"})
    if "rank_limit" not in env:
        raise Untranslatable("rank_limit is not assigned on every path")
    return f"Definition rank_limit_src (n_cols : nat) (max_rank : option nat) : nat := {env['rank_limit']}.\n"


def gen_decompress(pre_module):
    """svd_decompress_parafac2_tensor: the loop `for i, projection in enumerate(projections)` is executed symbolically once for a missing
    loading (None) and once for a present one; the value finally stored in projections[i] on each path becomes dec_step_src.
    Anything the executor does not understand (a return / break / extra test before or inside the loop, an index other than i) is
    Untranslatable: the tie is then reported broken, never skipped."""
    fn = find_function(pre_module, "svd_decompress_parafac2_tensor")
    body = [n for n in fn.body if not (isinstance(n, ast.Expr) and isinstance(n.value, ast.Constant) and isinstance(n.value.value, str))]
    if len(body) < 3:
        raise Untranslatable("body of svd_decompress_parafac2_tensor")
    unpack = body[0]
    if not (isinstance(unpack, ast.Assign) and isinstance(unpack.targets[0], ast.Tuple) and [getattr(e, "id", None) for e in unpack.targets[0].elts] == ["weights", "factors", "projections"]
            and isinstance(unpack.value, ast.Name) and unpack.value.id == fn.args.args[0].arg):
        raise Untranslatable("first statement is not `weights, factors, projections = parafac2_tensor`")
    loads = fn.args.args[1].arg
    rest = body[1:]
    loop = None
    for k, st in enumerate(rest):
        if isinstance(st, ast.For):
            loop = st; after = rest[k + 1:]
            break
        # before the loop only a re-binding of `projections` to a new list of the same entries is understood
        ok = isinstance(st, ast.Assign) and len(st.targets) == 1 and isinstance(st.targets[0], ast.Name) and st.targets[0].id == "projections"
        if ok:
            v = st.value
            ok = ((isinstance(v, ast.Call) and isinstance(v.func, ast.Attribute) and v.func.attr == "copy" and isinstance(v.func.value, ast.Name) and v.func.value.id == "projections" and not v.args)
                  or (isinstance(v, ast.Call) and isinstance(v.func, ast.Name) and v.func.id == "list" and len(v.args) == 1 and isinstance(v.args[0], ast.Name) and v.args[0].id == "projections")
                  or (isinstance(v, ast.ListComp) and len(v.generators) == 1 and isinstance(v.generators[0].iter, ast.Name) and v.generators[0].iter.id == "projections"
                      and not v.generators[0].ifs and isinstance(v.elt, ast.Name) and isinstance(v.generators[0].target, ast.Name) and v.elt.id == v.generators[0].target.id)
                  or (isinstance(v, ast.Subscript) and isinstance(v.value, ast.Name) and v.value.id == "projections" and isinstance(v.slice, ast.Slice)
                      and v.slice.lower is None and v.slice.upper is None and v.slice.step is None)
                  or (isinstance(v, ast.Name) and v.id == "projections"))
        if not ok:
            raise Untranslatable(f"statement before the loop: {ast.dump(st)[:100]}")
    if loop is None:
        raise Untranslatable("no for-loop in svd_decompress_parafac2_tensor")
    it = loop.iter
    if not (isinstance(loop.target, ast.Tuple) and len(loop.target.elts) == 2 and all(isinstance(e, ast.Name) for e in loop.target.elts)
            and isinstance(it, ast.Call) and isinstance(it.func, ast.Name) and it.func.id == "enumerate" and len(it.args) == 1
            and isinstance(it.args[0], ast.Name) and it.args[0].id == "projections" and not loop.orelse):
        raise Untranslatable("loop header is not `for i, projection in enumerate(projections)`")
    ivar, pvar = loop.target.elts[0].id, loop.target.elts[1].id
    if not (len(after) == 1 and isinstance(after[0], ast.Return)):
        raise Untranslatable("statements after the loop")
    rv = after[0].value
    if not (isinstance(rv, ast.Call) and len(rv.args) == 1 and isinstance(rv.args[0], ast.Tuple)
            and [getattr(e, "id", None) for e in rv.args[0].elts] == ["weights", "factors", "projections"]):
        raise Untranslatable("return value is not Parafac2Tensor((weights, factors, projections))")

    def is_entry(e, arr):
        return isinstance(e, ast.Subscript) and isinstance(e.value, ast.Name) and e.value.id == arr and isinstance(e.slice, ast.Name) and e.slice.id == ivar

    def ev(e, env, some):
        if isinstance(e, ast.Name) and e.id in env:
            return env[e.id]
        if is_entry(e, loads):
            return "@L"
        if is_entry(e, "projections"):
            return env["@cur"]
        if isinstance(e, ast.Call) and len(e.args) == 2 and not e.keywords and (
                (isinstance(e.func, ast.Attribute) and e.func.attr in ("matmul", "dot")) or (isinstance(e.func, ast.Name) and e.func.id in ("matmul", "dot"))):
            a, b = ev(e.args[0], env, some), ev(e.args[1], env, some)
            if "@L" in (a, b) and not some:
                raise Untranslatable("a missing loading is used in a product")
            a, b = ("Lm" if a == "@L" else a), ("Lm" if b == "@L" else b)
            return f"(matmul Op {a} {b})"
        raise Untranslatable(ast.dump(e)[:100])

    def run(stmts, env, some):
        """-> True when the iteration ended (continue)"""
        for st in stmts:
            if isinstance(st, ast.Continue):
                return True
            if isinstance(st, ast.Assign) and len(st.targets) == 1 and isinstance(st.targets[0], ast.Name):
                env[st.targets[0].id] = ev(st.value, env, some)
            elif isinstance(st, ast.Assign) and len(st.targets) == 1 and is_entry(st.targets[0], "projections"):
                env["@cur"] = ev(st.value, env, some)
            elif isinstance(st, ast.If):
                t = st.test
                if not (isinstance(t, ast.Compare) and len(t.ops) == 1 and isinstance(t.ops[0], (ast.Is, ast.IsNot)) and isinstance(t.comparators[0], ast.Constant)
                        and t.comparators[0].value is None and ev(t.left, env, some) == "@L"):
                    raise Untranslatable("test inside the loop: " + ast.dump(t)[:100])
                truth = (not some) if isinstance(t.ops[0], ast.Is) else some
                if run(st.body if truth else st.orelse, env, some):
                    return True
            else:
                raise Untranslatable("statement inside the loop: " + type(st).__name__)
        return False

    terms = {}
    for some in (True, False):
        env = {pvar: "P", "@cur": "P"}
        run(loop.body, env, some)
        terms[some] = env["@cur"]
    if "@L" in terms.values():
        raise Untranslatable("a loading matrix is stored as a projection")
    return ("Section G.\nContext {F : Type} (Op : fops F).\n"
            f"Definition dec_step_src (L : option (mat F)) (P : mat F) : mat F := match L with Some Lm => {terms[True]} | None => {terms[False]} end.\nEnd G.\n")


LEMMA_DECOMPRESS = '''
Lemma decompress_src_ok : forall (F : Type) (Op : fops F) (Ps : list (mat F)) (Ls : list (option (mat F))),
  decompress_projs Op Ps Ls = map (fun p => dec_step_src Op (snd p) (fst p)) (combine Ps Ls).
Proof. intros F Op. induction Ps as [|P Ps IH]; intros [|L Ls]; simpl; try reflexivity. rewrite IH. destruct L; reflexivity. Qed.
'''
LEMMA_PAD = '''
Lemma pad_src_ok : forall i n npad pb, 0 < n -> lpad_src i n npad pb = lpad n npad pb i /\\ rpad_src i n npad pb = rpad n npad pb i.
Proof.
  intros i n npad pb Hn. unfold lpad_src, rpad_src, lpad, rpad.
  split;
    repeat match goal with
           | |- context [Nat.eqb ?a ?b] => destruct (Nat.eqb_spec a b)
           | |- context [Nat.ltb ?a ?b] => destruct (Nat.ltb_spec a b)
           | |- context [Nat.leb ?a ?b] => destruct (Nat.leb_spec a b)
           end; destruct pb; cbn; try reflexivity; exfalso; lia.
Qed.
'''
LEMMA_RANK = '''
Lemma rank_limit_src_eq : forall (nc : nat) (mr : option nat),
  rank_limit_src nc mr = match mr with Some m => Nat.min nc m | None => nc end.
Proof.
  intros nc mr. unfold rank_limit_src. destruct mr as [m|];
    repeat match goal with
           | |- context [Nat.eqb ?a ?b] => destruct (Nat.eqb_spec a b)
           | |- context [Nat.ltb ?a ?b] => destruct (Nat.ltb_spec a b)
           | |- context [Nat.leb ?a ?b] => destruct (Nat.leb_spec a b)
           end; cbn; lia.
Qed.
Lemma rank_limit_src_ok : forall (slices : list (list (list Z))) thr mr tapes,
  svd_compress Zops slices thr mr tapes =
  map (fun p => compress_slice Zops (rank_limit_src (ncols (hd [] slices)) mr) thr (fst p) (snd p)) (combine slices tapes).
Proof. intros. unfold svd_compress. rewrite rank_limit_src_eq. reflexivity. Qed.
'''
SRC_HEADER = '''From Coq Require Import List Arith ZArith Bool Lia. Import ListNotations.
From TLV Require Import Base.Tensor Base.Ops Model.Transforms Proofs.TransformsProofsTT.
Open Scope nat_scope.
(* GENERATED from the TensorLy source by harness/props/C04.py (ast -> Gallina); do not edit *)
'''


def generate_source_lemmas(tt_module, pre_module):
    """(PadSrc.v, RankSrc.v) or, for a source the translator does not cover, the Untranslatable exception in that slot.
    Both lemmas decide: the padding amounts are the advertised enlarged ranks, the rank limit is the documented meaning of
    max_rank ("the maximum rank to allow in the datasets after compression") and selects what gets compressed."""
    out = []
    for gen, mod, lemma in ((gen_pad, tt_module, LEMMA_PAD), (gen_rank_limit, pre_module, LEMMA_RANK), (gen_decompress, pre_module, LEMMA_DECOMPRESS)):
        try:
            out.append(SRC_HEADER + gen(mod) + lemma)
        except Untranslatable as e:
            out.append(e)
    return tuple(out)


def source_tie(chk):
    """regenerate the source-derived definitions from the current tensorly tree and re-check the lemmas tying them to the model;
    fail closed: a lemma that fails, or a source the translator cannot read, is a broken tie (verdict), never ignored"""
    import os, shutil, subprocess, importlib
    d = os.path.join(C.BUILD, "gen", f"C04_{os.getpid()}"); os.makedirs(d, exist_ok=True)

    def coqc(name, text):
        fn = os.path.join(d, name)
        open(fn, "w").write(text)
        r = subprocess.run(["timeout", "300", "coqc", "-w", "none", "-R", os.path.join(C.COQ, "theories"), "TLV", fn], capture_output=True, text=True, cwd=d)
        if r.returncode == 0:
            return "proved", ""
        if r.returncode == 1 and "Error" in (r.stdout + r.stderr):
            return "failed", (r.stdout + r.stderr)[-1200:]
        return "skipped", f"coqc rc {r.returncode} (killed / timeout)"
    try:
        tt = importlib.import_module("tensorly.tt_tensor"); pre = importlib.import_module("tensorly.preprocessing")
        tk = importlib.import_module("tensorly.tucker_tensor")
        res = {}
        what = {"pad_src_ok": ("PadSrc.v", "pad_tt_rank", "the padding amounts of pad_tt_rank in the tensorly source no longer equal lpad / rpad of the model"),
                "rank_limit_src_ok": ("RankSrc.v", "svd_compress_tensor_slices", "the rank limit of svd_compress_tensor_slices in the tensorly source is no longer min(n_cols, max_rank) / n_cols as in the model"),
                "decompress_src_ok": ("DecompSrc.v", "svd_decompress_parafac2_tensor", "the loop of svd_decompress_parafac2_tensor in the tensorly source no longer stores L_i P_i where a loading is given and P_i otherwise, as decompress_projs of the model does"),
                "tk_methods_src_ok": ("TkSrc.v", "the TuckerTensor methods (__init__, __getitem__, __setitem__, __iter__, mode_dot, normalize, tucker_copy)",
                                      "a method body of the TuckerTensor class in the tensorly source is no longer the model's function on object cells "
                                      "(tucker_new_h / tucker_getitem_h / tucker_setitem_h / tucker_iter_h / tucker_mode_dot_method_h / tucker_normalize_method_h / tucker_copy_h)"),
                "pf_methods_src_ok": ("PfSrc.v", "the Parafac2Tensor container methods (__init__, __getitem__, __iter__; no __setitem__)",
                                      "a method body of the Parafac2Tensor class in the tensorly source is no longer the model's function on object cells (pf2_new_h / pf2_getitem_h), "
                                      "or the iteration order is no longer weights, factors, projections")}
        texts = list(generate_source_lemmas(tt, pre))
        try:                                     # round 8: a __setitem__ that refreshes / validates is outside the model (noted by C04_r7, not compared): its body is then not tied
            plain = R7.tucker_setitem_refreshes_from_source() is False
        except Exception:  # noqa   (reported as a broken tie by run_round7)
            plain = False
        try:
            texts.append(R8.gen_tucker_methods(tk, setitem_plain=plain))
        except R8.Untranslatable8 as e:
            texts.append(Untranslatable(str(e)))
        try:
            texts.append(R8.gen_pf2_methods(importlib.import_module("tensorly.parafac2_tensor")))
        except R8.Untranslatable8 as e:
            texts.append(Untranslatable(str(e)))
        jobs = []
        for (lemma, (fname, fn_name, msg)), text in zip(what.items(), texts):
            if isinstance(text, Untranslatable):
                res[lemma] = "broken (untranslatable source)"
                chk.broken.append({"what": f"source tie {lemma} broken: the ast -> Gallina translator does not cover the current source of {fn_name}",
                                   "detail": str(text)})
                continue
            chk.checker_cmds.append(f"coqc on generated build/gen/C04_*/{fname}: {lemma} (tensorly source -> Gallina)")
            jobs.append((lemma, fname, msg, text))

        def one(job):
            lemma, fname, msg, text = job
            st, detail = coqc(fname, text)
            if st == "skipped":                      # loaded machine: one more attempt before giving up (never a verdict)
                st, detail = coqc(fname, text)
            return st, detail
        from concurrent.futures import ThreadPoolExecutor
        with ThreadPoolExecutor(max_workers=max(1, min(4, C.NPROC))) as ex:       # independent files: checked side by side (serial part of the run)
            outcomes = list(ex.map(one, jobs))
        for (lemma, fname, msg, text), (st, detail) in zip(jobs, outcomes):
            res[lemma] = st
            if st == "failed":
                chk.broken.append({"what": f"source-derived lemma {lemma} failed: {msg}",
                                   "detail": detail + "\n--- generated ---\n" + "\n".join(l for l in text.splitlines() if l.startswith("Definition"))})
            elif st == "skipped":
                chk.notes.append(f"source tie {lemma} skipped: " + detail)
        chk.cov["source_derived_lemmas"] = res
    finally:
        shutil.rmtree(d, ignore_errors=True)


# ----------------------------------------------------------------------------- case shards, robust against a loaded machine
def run_shards(chk, cases, shard=340):
    """common.run_case_shards (which retries a killed shard once itself) + further serial re-runs of shards whose coqc was
    killed again (OOM killer / timeout on the shared machine).
    A shard that is killed three times is counted as skipped (note in the evidence), never as a verdict;
    a shard that coqc rejects (rc 1: malformed literal, type error) stays broken."""
    import re, time
    # even out the shards: the cost of a case depends on its kind (0.005 s for a CP mode product, 0.25 s for a compression on Q), and the
    # kinds are generated in blocks; cases are dealt round-robin (each carries its own id, so the order is immaterial) so that every
    # shard gets the same mix and no shard becomes the long pole
    n_sh = max(1, -(-len(cases) // shard))
    by_kind = sorted(cases, key=lambda c: c.split(", ", 1)[1].split(" ", 1)[0])
    cases = [c for k in range(n_sh) for c in by_kind[k::n_sh]]
    failing, n_eval, broken = C.run_case_shards("C04", HEADER, "case", cases, shard=shard)
    still, skipped = [], 0
    for b in broken:
        m = re.search(r"S(\d+)\.v$", str(b.get("shard", "")))
        killed = b.get("rc") in (-9, -15, 124, 137, 143) or (b.get("rc") not in (0, 1) and not b.get("stderr"))
        if not (m and killed):
            still.append(b); continue
        k = int(m.group(1)); chunk = cases[k * shard:(k + 1) * shard]
        done = False
        for attempt in range(3):
            time.sleep(2 + 5 * attempt)
            f2, n2, b2 = C.run_case_shards("C04", HEADER, "case", chunk, shard=shard, tag=f"retry{k}_{attempt}")
            if not b2:
                failing |= f2; n_eval += n2; done = True; break
            if any(x.get("rc") == 1 for x in b2):
                still.extend(b2); done = True; break
        if not done:
            skipped += len(chunk)
            chk.notes.append(f"shard S{k} ({len(chunk)} cases) skipped: coqc killed by the system three times (rc {b.get('rc')})")
    chk.cov["cases_skipped_resource"] = skipped
    return failing, n_eval, still


# ----------------------------------------------------------------------------- Print Assumptions, asked once
def union_print_assumptions(prop, names):
    """Print Assumptions asked ONCE for a term that mentions every property theorem (one walk through the Reals library instead of
    one per theorem).  The answer is the union of the theorems' axioms: when it contains nothing but standard-library axioms every
    theorem is clean and each is reported with that union (an over-approximation of its own list).  Otherwise -- or when the
    question cannot be asked (a theorem is missing from the compiled file) -- the per-theorem question of common.print_assumptions
    is asked instead.  Same cache discipline as common.print_assumptions (keyed by the compiled objects)."""
    import os, re, json, shutil, subprocess
    cache = os.path.join(C.BUILD, "pa_cache", f"{prop}_union.json")
    stamp = C._vo_stamp() + ":" + ",".join(names)
    try:
        c = json.load(open(cache))
        if c.get("stamp") == stamp and not os.environ.get("VERIF_NO_PA_CACHE"):
            return c["res"], "(cached: compiled objects unchanged since the last Print Assumptions run)"
    except Exception:  # noqa
        pass
    d = os.path.join(C.BUILD, "pa", f"{os.getpid()}_{prop}_union"); shutil.rmtree(d, ignore_errors=True); os.makedirs(d, exist_ok=True)
    fn = os.path.join(d, f"PAU_{prop}.v")
    with open(fn, "w") as f:
        f.write(f"From TLV Require Import Props.{prop}.\n")
        f.write("Definition all_property_theorems : True :=\n" + "".join(f"  let _ := @{n} in\n" for n in names) + "  I.\n")
        f.write('Goal True. idtac "@@BEGIN". exact I. Qed.\nPrint Assumptions all_property_theorems.\nGoal True. idtac "@@END". exact I. Qed.\n')
    r = subprocess.run(["timeout", "600", "coqc", "-R", os.path.join(C.COQ, "theories"), "TLV", fn], capture_output=True, text=True, cwd=d)
    shutil.rmtree(d, ignore_errors=True)
    if r.returncode == 0 and "@@BEGIN" in r.stdout and "@@END" in r.stdout:
        body = r.stdout.split("@@BEGIN", 1)[1].split("@@END")[0]
        res = None
        if "Closed under the global context" in body:
            res = {n: [] for n in names}
        else:
            axs = sorted(a for a in set(re.findall(r"^([A-Za-z_][\w.']*)\s*:", body, re.M)) if a not in ("Axioms", "Variables", "Hypotheses"))
            if axs and not C.own_axioms(axs):
                res = {n: list(axs) for n in names}
        if res is not None:
            os.makedirs(os.path.dirname(cache), exist_ok=True)
            json.dump({"stamp": stamp, "res": res}, open(cache, "w"))
            return res, r.stdout
    return _common_print_assumptions(prop, names)


_common_print_assumptions = C.print_assumptions


# ----------------------------------------------------------------------------- the run
def run(chk):
    rng = random.Random(chk.seed)
    # the union question (one Print Assumptions for all theorems) only where an over-approximation is good enough: the thorough tier and
    # VERIF_PA_EXACT=1 ask per theorem through common.print_assumptions (exact lists)
    import os as _os
    # (end-game, coordinator) common.print_assumptions now has the union fast path AND reuses the exact per-theorem cache written by the
    # thorough tier, so the local override is no longer installed
    try:
        chk.build_proofs()
    finally:
        C.print_assumptions = _common_print_assumptions
    C.reset_backends()
    source_tie(chk)
    import tensorly as tl
    from tensorly.cp_tensor import CPTensor, cp_normalize, cp_flip_sign, cp_permute_factors, cp_mode_dot, cp_to_tensor
    quick = chk.tier == "quick"
    mult = 1 if quick else 5               # round 8: thorough thinned from 8 (782 CPU-s, 24 min wall at load 95; 6 / 800 still gave 612 CPU-s) to fit <= 10 CPU-min
    n_cp = 110 if quick else 700           # quick: sample sizes trimmed in round 6 (CPU budget); thorough: 1200 until round 8
    cases, meta = [], []

    def add_case(body, descr):
        cases.append(f"({len(cases)}%nat, {body})")
        meta.append(descr)

    def emit(body_fn, descr):
        """build one case literal; a result that cannot even be printed (wrong rank, ragged, non-numeric) is a failing input"""
        try:
            add_case(body_fn(), descr)
        except Exception as e:  # noqa
            chk.finding("tensorly." + str(descr[0]), {"call": [str(x) for x in descr]},
                        f"malformed result of {descr[0]}: {type(e).__name__}: {e}"[:300], "malformed_output")

    def judge(pname, inp, key, nontrivial=True):
        try:
            msg = PRED[pname](inp)
        except Exception as e:  # noqa   (the predicates index into the results; on the unchanged tree nothing raises)
            msg = f"malformed result of {pname}: the predicate could not be evaluated ({type(e).__name__}: {e})"[:300]
        chk.count(key=(pname,) + tuple(key), nontrivial=nontrivial)
        chk.hist("predicate", pname)
        if msg:
            chk.finding(ENTRY[pname], inp, msg, pname)
        return msg

    def shp(fs):
        return tuple(f.shape[0] for f in fs) + (fs[0].shape[1],)

    # --- (0) corpus of minimised past failures: run first
    import glob, json, os
    for fn in sorted(glob.glob(os.path.join(C.VERIF, "corpus", "C04", "*.json"))):
        e = json.load(open(fn))
        if e.get("predicate") in PRED:
            judge(e["predicate"], _rebuild(e["inputs"]), ("corpus", os.path.basename(fn)))
            chk.hist("corpus", os.path.basename(fn))

    # --- (1) cp_to_tensor, cp_flip_sign, cp_mode_dot on integer CP tensors (exact)
    for it in range(n_cp):
        w, fs, feat = gen_cp(rng)
        N, R = len(fs), len(w)
        st, out = call(cp_to_tensor, CPTensor((w.copy(), cps(fs))))
        exp = "(mk [99999]%nat (@nil Z))" if st != "ok" or not integral(out) else C.ztensor(np.asarray(out).shape, np.asarray(out).ravel().tolist())
        emit(lambda: f"ZDense {zrow(w)} {zmats(fs)} {exp}", ("cp_to_tensor", shp(fs), feat))
        chk.count(key=("cp_to_tensor", shp(fs), feat), nontrivial=R > 1 or N > 1)
        if st != "ok" or not close(out, dense_cp(w, fs), exact=True):
            chk.finding("tensorly.cp_tensor.cp_to_tensor", {"w": w, "fs": fs}, f"cp_to_tensor differs from sum_r w_r prod_k A_k[i_k,r]: {out if st != 'ok' else ''}", "cp_to_tensor")
        chk.hist("feature", feat); chk.hist("order", N); chk.hist("rank", R)
        # sign flips: every target mode + one out of range, both summary functions
        for mode in range(N + 1):
            for fname in (("mean", "sum") if it % 2 == 0 else ("mean",)):
                st, out = call(cp_flip_sign, CPTensor((w.copy(), cps(fs))), mode, _func(fname))
                lit = zcp_res(st, *(out if st == "ok" else (None, None)))
                emit(lambda: f"ZFlip {zrow(w)} {zmats(fs)} {mode}%nat {lit}", ("cp_flip_sign", shp(fs), feat, mode, fname))
                chk.hist("outcome", st)
                if mode < N:
                    judge("cp_flip_sign", {"w": w, "fs": fs, "mode": mode, "func": fname}, (shp(fs), feat, mode, fname), nontrivial=N > 1)
                else:
                    chk.count(key=("cp_flip_sign-invalid", shp(fs)), nontrivial=False)
        # mode products
        for mode in range(N + 1):
            d = fs[mode].shape[0] if mode < N else 2
            kinds = ["mat", "vec", "veck"] + (["badvec", "badmat"] if it % 5 == 0 else [])
            for kind in kinds:
                copy = rng.random() < 0.5
                x = gen_operand(rng, d, "vec" if kind == "veck" else kind)
                kd = kind == "veck" or (kind == "mat" and rng.random() < 0.3)
                st, out = call(cp_mode_dot, CPTensor((w.copy(), cps(fs))), x.copy(), mode, keep_dim=kd, copy=copy)
                lit = zcp_res(st, *((out[0], out[1]) if st == "ok" else (None, None)))
                xl = f"(OpMat {zmat(x)})" if x.ndim == 2 else f"(OpVec {zrow(x)})"
                emit(lambda: f"ZModeDot {zrow(w)} {zmats(fs)} {xl} {mode}%nat {C.boolc(kd)} {lit}", ("cp_mode_dot", shp(fs), feat, mode, kind, kd, copy))
                chk.hist("outcome", st); chk.hist("operand", kind); chk.hist("copy", copy)
                valid = mode < N and kind in ("mat", "vec", "veck") and not (kind == "vec" and N == 1)
                if valid:
                    inp = {"w": w, "fs": fs, "x": x, "mode": mode, "keep_dim": kd, "copy": copy, "x2": None}
                    # second product: on the same operand (copy=True) or on the result (copy=False)
                    shape2 = list(shp(fs)[:-1])
                    if not copy:
                        shape2 = list(dense_mode_dot(np.zeros(shape2), x, mode, kd).shape)
                    if len(shape2) >= 1:
                        m2 = rng.randrange(len(shape2)); k2 = rng.choice(["mat", "vec", "veck"])
                        if not (k2 == "vec" and len(shape2) == 1):
                            inp.update(x2=gen_operand(rng, shape2[m2], "vec" if k2 == "veck" else k2), mode2=m2, keep_dim2=(k2 == "veck"))
                    judge("cp_mode_dot", inp, (shp(fs), feat, mode, kind, kd, copy))
                else:
                    chk.count(key=("cp_mode_dot-invalid", shp(fs), kind), nontrivial=False)
                    if st == "ok":
                        chk.finding("tensorly.cp_tensor.cp_mode_dot", {"w": w, "fs": fs, "x": x, "mode": mode, "keep_dim": kd, "copy": copy},
                                    "cp_mode_dot accepted an operand whose size does not match the mode / an order-1 contraction", "cp_mode_dot_invalid")

        # Python mode numbers: every negative mode and one below the range
        if it % 3 == 1:
            for mode in range(-N - 1, 0):
                kind = rng.choice(["mat", "vec", "veck"])
                d = fs[mode].shape[0] if mode >= -N else 2
                x = gen_operand(rng, d, "vec" if kind == "veck" else kind)
                kd = kind == "veck"
                copy = rng.random() < 0.5
                st, out = call(cp_mode_dot, CPTensor((w.copy(), cps(fs))), x.copy(), mode, keep_dim=kd, copy=copy)
                lit = zcp_res(st, *((out[0], out[1]) if st == "ok" else (None, None)))
                xl = f"(OpMat {zmat(x)})" if x.ndim == 2 else f"(OpVec {zrow(x)})"
                emit(lambda: f"ZModeDotZ {zrow(w)} {zmats(fs)} {xl} {C.z(mode)} {C.boolc(kd)} {lit}", ("cp_mode_dot", shp(fs), feat, mode, kind, kd, copy))
                chk.hist("outcome", st); chk.hist("negative_mode", mode)
                if mode >= -N and not (kind == "vec" and N == 1):
                    judge("cp_mode_dot", {"w": w, "fs": fs, "x": x, "mode": mode, "keep_dim": kd, "copy": copy, "x2": None}, (shp(fs), feat, mode, kind, kd, copy))
                st, out = call(cp_flip_sign, CPTensor((w.copy(), cps(fs))), mode, tl.sum)
                lit = zcp_res(st, *(out if st == "ok" else (None, None)))
                emit(lambda: f"ZFlipZ {zrow(w)} {zmats(fs)} {C.z(mode)} {lit}", ("cp_flip_sign", shp(fs), feat, mode, "sum"))
                if mode >= -N:
                    judge("cp_flip_sign", {"w": w, "fs": fs, "mode": mode, "func": "sum"}, (shp(fs), feat, mode, "sum"), nontrivial=N > 1)
        # input forms: CPTensor object / plain tuple, weights given / None, copy on / off (one product and one flip per tensor)
        if it % 3 == 0:
            mode = rng.randrange(N)
            kind = rng.choice(["mat", "veck"] + (["vec"] if N > 1 else []))
            x = gen_operand(rng, fs[mode].shape[0], "vec" if kind == "veck" else kind)
            kd = kind == "veck"
            for is_class in (True, False):
                for w_none in (False, True):
                    wl = "None" if w_none else f"(Some {zrow(w)})"
                    for copy in (True, False):
                        inp = {"w": w, "fs": fs, "x": x, "mode": mode, "keep_dim": kd, "copy": copy, "is_class": is_class, "w_none": w_none}
                        st, out = call(cp_mode_dot, _cp_operand(inp), x.copy(), mode, keep_dim=kd, copy=copy)
                        lit = zobj_res(st, out)
                        xl = f"(OpMat {zmat(x)})" if x.ndim == 2 else f"(OpVec {zrow(x)})"
                        emit(lambda: f"ZModeDotApi {C.boolc(is_class)} {C.boolc(copy)} {wl} {zmats(fs)} {xl} {mode}%nat {C.boolc(kd)} {lit}",
                             ("cp_mode_dot", shp(fs), "form", is_class, copy, w_none, kind))
                        judge("cp_mode_dot_form", inp, (shp(fs), is_class, copy, w_none, kind), nontrivial=False)
                    inp = {"w": w, "fs": fs, "mode": mode, "is_class": is_class, "w_none": w_none}
                    st, out = call(cp_flip_sign, _cp_operand(inp), mode, tl.sum)
                    lit = zobj_res(st, out)
                    emit(lambda: f"ZFlipApi {C.boolc(is_class)} {wl} {zmats(fs)} {mode}%nat {lit}", ("cp_flip_sign", shp(fs), "form", is_class, w_none))
                    judge("cp_flip_sign_form", inp, (shp(fs), is_class, w_none), nontrivial=False)
            # plain tuples the validator must refuse: weights of the wrong length, a factor with one column too many
            bad = [(np.concatenate([w, w[:1]]), fs, "weights")]
            if N > 1:
                k_bad = rng.randrange(N)
                bad.append((w, [np.concatenate([f, f[:, :1]], axis=1) if k == k_bad else f for k, f in enumerate(fs)], "ragged"))
            for wb, fb, why in bad:
                mode_b = rng.randrange(N)
                xb = gen_operand(rng, fb[mode_b].shape[0], "mat")
                st, out = call(cp_mode_dot, (wb.copy(), cps(fb)), xb.copy(), mode_b, copy=True)
                emit(lambda: f"ZModeDotApi false true (Some {zrow(wb)}) {zmats(fb)} (OpMat {zmat(xb)}) {mode_b}%nat false {zobj_res(st, out)}",
                     ("cp_mode_dot", shp(fb), "invalid-tuple", why))
                st, out = call(cp_flip_sign, (wb.copy(), cps(fb)), mode_b, tl.sum)
                emit(lambda: f"ZFlipApi false (Some {zrow(wb)}) {zmats(fb)} {mode_b}%nat {zobj_res(st, out)}", ("cp_flip_sign", shp(fb), "invalid-tuple", why))
                chk.count(key=("cp-invalid-tuple", shp(fb), why), nontrivial=False)
                if st == "ok":
                    chk.finding("tensorly.cp_tensor.cp_flip_sign", {"w": wb, "fs": fb, "mode": mode_b}, f"a malformed CP tuple ({why}) was accepted", "cp_invalid_tuple")

    # --- (2) cp_permute_factors: assignment from the implementation, application compared exactly
    for it in range(60 * mult):
        R = rng.randint(1, 4); N = rng.randint(1, 3)
        w, fs, feat = gen_cp(rng, N=N, R=R, feat=rng.choice(["none", "neg_w", "pos", "zero_mean"]))
        fs = [f.astype(np.float64) for f in fs]; w = w.astype(np.float64)
        for f in fs:                                      # congruence needs non-zero columns
            for r in range(R):
                if not np.any(f[:, r]):
                    f[0, r] = 1.0
        w[w == 0] = 1.0
        p0 = list(range(R)); rng.shuffle(p0)
        rfs = [f[:, p0] * rng.choice([1.0, -1.0, 2.0]) + (0.0 if it % 3 else np.array([[rng.choice([0, 0, 0.25]) for _ in range(R)] for _ in range(f.shape[0])])) for f in fs]
        for f in rfs:
            for r in range(R):
                if not np.any(f[:, r]):
                    f[0, r] = 1.0
        rw = np.ones(R)
        t = CPTensor((w.copy(), cps(fs)))
        st, out = call(cp_permute_factors, CPTensor((rw.copy(), cps(rfs))), t)
        chk.hist("outcome", st)
        if st == "ok":
            pt, perms = out
            perm = [int(x) for x in perms[0]]
            lit = zcp_res(st, pt.weights, pt.factors)
            emit(lambda: f"ZPerm {C.nat_list(perm)} {zrow(w.astype(np.int64))} {zmats([f.astype(np.int64) for f in fs])} {lit}", ("cp_permute_factors", shp(fs), feat, tuple(perm)))
            # aligned component order, checked inside Coq: the assignment is optimal for the congruence matrix (norms = tape)
            rw_ = np.array([rng.choice([1.0, -2.0, 0.5]) for _ in range(R)]) if it % 2 else rw
            st_a, out_a = (st, out) if rw_ is rw else call(cp_permute_factors, CPTensor((rw_.copy(), cps(rfs))), CPTensor((w.copy(), cps(fs))))
            if st_a == "ok":
                Aeff = [rfs[0] * rw_] + list(rfs[1:])
                tA = "[" + "; ".join(qrow(np.sqrt(np.sum(a * a, axis=0))) for a in Aeff) + "]"
                tB = "[" + "; ".join(qrow(np.sqrt(np.sum(b * b, axis=0))) for b in fs) + "]"
                pa = [int(x) for x in out_a[1][0]]
                emit(lambda: f"QAlign false {qrow(rw_)} {qmats(rfs)} {qrow(w)} {qmats(fs)} {tA} {tB} {C.nat_list(pa)}", ("cp_permute_factors", shp(fs), "aligned", tuple(pa)))
            # list form: two tensors, each with its own assignment (exact application + alignment of the normalised tensors)
            rot = list(range(1, R)) + [0]
            w2, fs2_ = w[rot] * 2.0, [f[:, rot] for f in fs]
            st_l, out_l = call(cp_permute_factors, CPTensor((rw.copy(), cps(rfs))), [CPTensor((w.copy(), cps(fs))), CPTensor((w2.copy(), cps(fs2_)))])
            chk.hist("outcome", st_l)
            if st_l == "ok" and len(out_l[0]) == 2 and len(out_l[1]) == 2:
                pl = [[int(x) for x in q] for q in out_l[1]]
                zt = lambda ww, ff: f"({zrow(np.asarray(ww))}, {zmats([np.asarray(f) for f in ff])})"
                outs = "; ".join(zt(o.weights, o.factors) if integral(o.weights, *o.factors) else "([(99999)%Z], (@nil (list (list Z))))" for o in out_l[0])
                emit(lambda: f"ZPermList [{'; '.join(C.nat_list(q) for q in pl)}] [{zt(w, fs)}; {zt(w2, fs2_)}] (Ok [{outs}])", ("cp_permute_factors", shp(fs), "list", tuple(map(tuple, pl))))
                for (tw_, tf_, q) in ((w, fs, pl[0]), (w2, fs2_, pl[1])):
                    Beff = [tf_[0] * tw_] + list(tf_[1:])
                    tA = "[" + "; ".join(qrow(np.sqrt(np.sum(a * a, axis=0))) for a in rfs) + "]"
                    tB = "[" + "; ".join(qrow(np.sqrt(np.sum(b * b, axis=0))) for b in Beff) + "]"
                    emit(lambda: f"QAlign true {qrow(rw)} {qmats(rfs)} {qrow(tw_)} {qmats(tf_)} {tA} {tB} {C.nat_list(q)}", ("cp_permute_factors", shp(fs), "aligned-list", tuple(q)))
        judge("cp_permute_factors", {"w": w, "fs": fs, "ref_w": rw, "ref_fs": rfs}, (shp(fs), feat, tuple(p0)), nontrivial=R > 1)

    # --- (3) cp_normalize on quarter-integer data (toleranced; square-root tape with contract checked in Coq)
    for it in range(80 * mult):
        w, fs, feat = gen_cp(rng, float_=True, maxdim=3)
        st, out = call(cp_normalize, CPTensor((w.copy(), cps(fs))))
        chk.hist("outcome", st)
        inter = [fs[0] * w] + list(fs[1:])
        tape = [np.sqrt(np.sum(a * a, axis=0)) for a in inter]
        if st == "ok" and all(np.asarray(f).ndim == 2 for f in out[1]) and np.all(np.isfinite(np.asarray(out[0]))):
            tl_ = "[" + "; ".join(qrow(t) for t in tape) + "]"
            emit(lambda: f"QNorm {tl_} {qrow(w)} {qmats(fs)} ({qrow(np.asarray(out[0]))}, {qmats([np.asarray(f) for f in out[1]])})",
                     ("cp_normalize", shp(fs), feat))
        judge("cp_normalize", {"w": w, "fs": fs}, (shp(fs), feat))
        chk.hist("feature", feat)

    # --- (4) predicates on the other formats
    run_other_formats(chk, rng, judge, mult, emit)
    # --- (5) round 5: validating constructors, heap model of the copy flag, documented meaning of max_rank
    R5.run_round5(chk, rng, judge, mult, emit)
    # --- (6) round 7: complex / float32 cores, mixed-height compress -> fit -> decompress, every None pattern of the loading list
    R7.run_round7(chk, rng, judge, mult, emit)
    # --- (7) round 8: item assignment of TuckerTensor objects for every index, lossy compression
    R8.run_round8(chk, rng, judge, mult, emit, chk.cov.get("tuckertensor_setitem", "").startswith("plain"))

    failing, n_eval, broken = run_shards(chk, cases)
    chk.checker_cmds.append("coqc (vm_compute) on generated build/cases/C04/*.v: Corr.C04.failing")
    chk.cov["traces_validated_against_impl"] = n_eval
    chk.cov["exhaustive"] = False
    chk.cov["rule"] = ("corpus of past failures first; random CP / Tucker / PARAFAC2 / TT / TR tensors of order 1-4, mode sizes 1-3(5), rank 1-3(4) with small integer (exact) or quarter-integer / Gaussian entries; "
                       "each tensor carries one degenerate feature (zero column, zero-sum column, negative weight, zero weight, zero core slice, rank 1, all positive, none); every target mode (+1 invalid) "
                       "x both summary functions for cp_flip_sign; every mode (+1 invalid) x {matrix, vector, vector keep_dim, mismatching operands} x copy for the CP and Tucker mode products, each followed by a "
                       "second product on the same operand (copy=True) or on the result (copy=False); operand forms {CPTensor object, plain tuple} x {weights, None} x copy; "
                       "pad_tt_rank on TT, TR and TT-matrix cores of order 1-4 x n_padding 1-3 x both pad_boundaries values, incl. complex128 / complex64 cores with Gaussian-integer entries (exact) and float32 cores; "
                       "compress -> fit -> decompress on slice lists of mixed heights in every order (ST, TS, STT, TSS, STS, TST, STST, TSTS, ...) and svd_decompress with every None pattern of 2-3 loadings; svd_compress thresholds {0, 1e-3, .25, .5, 1} x max_rank {None, 1, n_cols, n_cols+1}; "
                       "distinct key = (function, shapes, feature, options)")
    for b in broken:
        chk.broken.append({"what": "correspondence corr:C04 shard not evaluated", "detail": b})
    for i in sorted(failing):
        chk.disagreement("corr:C04 (Model/Transforms.v vs tensorly)", {"call": [str(x) for x in meta[i]]})
    for m in meta[:: max(1, len(meta) // 4)][:4]:
        chk.sample({"call": [str(x) for x in m]})
    chk.assumptions = ["the represented dense tensors are defined entry-wise (cp_entry, tucker_entry, tt_entry / tr_entry, pf2_entry); tensorly's own cp_to_tensor, tucker_to_tensor, "
                       "tt_to_tensor, tr_to_tensor (order >= 2) and parafac2_to_slice are compared against these definitions on this run's integer cases",
                       "size-0 modes and rank 0 are outside the model",
                       "mode products are compared at the level of the represented dense tensor and its shape (which factor absorbs a contracted vector is not part of the property); "
                       "compressed slices are compared through loading x score",
                       "floating-point rounding is outside the theorems: they are stated over an abstract commutative ring / over R; the implementation is compared with the exact model at rtol 1e-9 on quarter-integer / Gaussian data"]
    chk.trusted = ["square roots in cp_normalize / tucker_normalize / parafac2_normalise are data for the model; the contract s>=0, s*s = sum of squares is checked inside Coq on every case",
                   "QR (from_CPTensor) and SVD (svd_compress_tensor_slices, obtained through tensorly's svd_interface with the rank limit computed by the harness) answers are data; "
                   "Q R = B and, for complete answers, U diag(s) Vh = X are checked inside Coq on every case",
                   "the assignment of cp_permute_factors (scipy linear_sum_assignment) is taken from the implementation; its optimality for the congruence matrix, recomputed by the model from the factors and "
                   "the norm tape (entries rounded to 2^-40, tolerance 2e-9), is checked by exhaustive search inside Coq (checker proved sound) and again in Python",
                   "orthonormality of the QR / SVD answers and of the returned projections / loadings is checked inside Coq on every case (exactly on Z for svd_decompress with signed partial permutations) and again in Python"]
    chk.trusted.append("aliasing observations of the heap cases (np.shares_memory between the caller's arrays and the result's, identity of the caller's list entries) are taken by the harness")
    return finish_with_local_known(chk)


def finish_with_local_known(chk):
    """chk.finish with the entries of known_findings.d/C04.json added to those of the merged known_findings.json (which the
    coordinator regenerates from the .d files; until then a new entry would be invisible to common.load_known)"""
    import json, os
    orig = C.load_known

    def load(prop):
        known = orig(prop)
        try:
            extra = json.load(open(os.path.join(C.VERIF, "known_findings.d", "C04.json"))).get("findings", [])
        except Exception:  # noqa
            extra = []
        ids = {k.get("id") for k in known}
        return known + [dict(e, property="C04") for e in extra if e.get("id") not in ids]
    C.load_known = load
    try:
        return chk.finish(CLASSIFIERS)
    finally:
        C.load_known = orig


def gen_tucker(rng, float_=False):
    N = rng.randint(2, 4)
    dims = [rng.randint(1, 3) for _ in range(N)]
    ranks = [rng.randint(1, 3) for _ in range(N)]
    core = rint(rng, -3, 3, ranks)
    fs = [rint(rng, -3, 3, (d, r)) for d, r in zip(dims, ranks)]
    feat = rng.choice(["none", "zero_col", "zero_core", "rank1"])
    if feat == "zero_col":
        k = rng.randrange(N); fs[k][:, rng.randrange(ranks[k])] = 0
    elif feat == "zero_core":
        k = rng.randrange(N); idx = [slice(None)] * N; idx[k] = rng.randrange(ranks[k]); core[tuple(idx)] = 0
    elif feat == "rank1":
        ranks = [1] * N; core = rint(rng, -3, 3, ranks); fs = [rint(rng, -3, 3, (d, 1)) for d in dims]
    if float_:
        core = core.astype(np.float64) / 2; fs = [f.astype(np.float64) / 4 for f in fs]
    return core, fs, feat


def gen_pf2(rng, R=None):
    R = R or rng.randint(1, 3)
    I, K = rng.randint(1, 3), rng.randint(1, 3)
    A = rint(rng, -3, 3, (I, R)).astype(np.float64) / 2
    B = rint(rng, -3, 3, (R, R)).astype(np.float64) / 2
    Cm = rint(rng, -3, 3, (K, R)).astype(np.float64) / 4
    w = rint(rng, -2, 3, (R,)).astype(np.float64)
    Ps = [orth(rng, rng.randint(R, R + 3), R) for _ in range(I)]
    feat = rng.choice(["none", "zero_col", "neg_w", "zero_w"])
    r = rng.randrange(R)
    if feat == "zero_col":
        [A, B, Cm][rng.randrange(3)][:, r] = 0
    elif feat == "neg_w":
        w[r] = -1.5
    elif feat == "zero_w":
        w[r] = 0
    return w, [A, B, Cm], Ps, feat


def gen_tt(rng, ring, matrix=False):
    """cores (r_i, n_i, r_{i+1}); matrix=True: TT-matrix cores (r_i, m_i, n_i, r_{i+1})"""
    N = rng.randint(1, 3 if matrix else 4)
    dims = [(rng.randint(1, 2), rng.randint(1, 3)) if matrix else (rng.randint(1, 3),) for _ in range(N)]
    ranks = [rng.randint(1, 3) for _ in range(N + 1)]
    if ring:
        ranks[-1] = ranks[0]
    else:
        ranks[0] = ranks[-1] = 1
    return [rint(rng, -2, 2, (ranks[i],) + dims[i] + (ranks[i + 1],)) for i in range(N)]


def sperm(rng, n, m):
    """n x m integer matrix with orthonormal columns (n >= m): a signed partial permutation"""
    rows = rng.sample(range(n), m)
    P = np.zeros((n, m))
    for c, r in enumerate(rows):
        P[r, c] = rng.choice([1.0, -1.0])
    return P


def gen_pf2_int(rng):
    R = rng.randint(1, 3)
    I, K = rng.randint(1, 3), rng.randint(1, 3)
    A = rint(rng, -3, 3, (I, R)).astype(np.float64)
    B = rint(rng, -3, 3, (R, R)).astype(np.float64)
    Cm = rint(rng, -3, 3, (K, R)).astype(np.float64)
    w = rint(rng, -2, 3, (R,)).astype(np.float64)
    Ps = [sperm(rng, rng.randint(R, R + 2), R) for _ in range(I)]
    return w, [A, B, Cm], Ps


def zopt_mats(Ls):
    return "[" + "; ".join("None" if L is None else f"(Some {zmat(L)})" for L in Ls) + "]" if len(Ls) else "(@nil (option (list (list Z))))"


def run_other_formats(chk, rng, judge, mult, emit):
    import tensorly as tl
    from tensorly.tucker_tensor import TuckerTensor, tucker_to_tensor, tucker_mode_dot, tucker_normalize
    from tensorly.tt_tensor import tt_to_tensor, pad_tt_rank
    from tensorly.tr_tensor import tr_to_tensor
    from tensorly.parafac2_tensor import Parafac2Tensor, parafac2_normalise, parafac2_to_slice
    from tensorly.preprocessing import svd_compress_tensor_slices, svd_decompress_parafac2_tensor
    from tensorly.cp_tensor import CPTensor
    from tensorly.tenalg.svd import svd_interface

    def sh(arrs):
        return tuple(tuple(a.shape) for a in arrs)

    def finite(*arrs):
        return all(np.all(np.isfinite(np.asarray(a, dtype=float))) for a in arrs)

    # --- tucker_normalize (toleranced; square-root tape)
    for it in range(60 * mult):
        core, fs, feat = gen_tucker(rng, float_=True)
        st, out = call(tucker_normalize, TuckerTensor((core.copy(), cps(fs))))
        chk.hist("outcome", st)
        if st == "ok" and finite(out[0], *out[1]) and all(np.asarray(f).ndim == 2 for f in out[1]):
            tape = [np.sqrt(np.sum(f * f, axis=0)) for f in fs]
            tl_ = "[" + "; ".join(qrow(t) for t in tape) + "]"
            emit(lambda: f"QTkNorm {tl_} {qtens(core)} {qmats(fs)} ({qtens(out[0])}, {qmats([np.asarray(f) for f in out[1]])})",
                     ("tucker_normalize", sh(fs), feat))
        judge("tucker_normalize", {"core": core, "fs": fs}, (sh(fs), feat))
    # --- tucker_to_tensor, tucker_mode_dot (exact)
    for it in range(45 * mult if mult == 1 else 60 * mult):
        core, fs, feat = gen_tucker(rng)
        N = len(fs)
        st, out = call(tucker_to_tensor, TuckerTensor((core.copy(), cps(fs))))
        exp = "(mk [99999]%nat (@nil Z))" if st != "ok" or not integral(out) else ztens(out)
        emit(lambda: f"ZTkDense {ztens(core)} {zmats(fs)} {exp}", ("tucker_to_tensor", sh(fs), feat))
        chk.count(key=("tucker_to_tensor", sh(fs), feat))
        if st != "ok" or not close(out, dense_tucker(core, fs), exact=True):
            chk.finding("tensorly.tucker_tensor.tucker_to_tensor", {"core": core, "fs": fs}, "tucker_to_tensor differs from the entry-wise definition", "tucker_to_tensor")
        for mode in range(N + 1):
            kinds = ["mat", "vec", "veck"] + (["badvec", "badmat"] if it % 4 == 0 else [])
            for kind in kinds:
                copy = rng.random() < 0.5
                d = fs[mode].shape[0] if mode < N else 2
                x = gen_operand(rng, d, "vec" if kind == "veck" else kind)
                kd = kind == "veck" or (kind == "mat" and rng.random() < 0.3)
                st, out = call(tucker_mode_dot, TuckerTensor((core.copy(), cps(fs))), x.copy(), mode, keep_dim=kd, copy=copy)
                chk.hist("outcome", st); chk.hist("operand", kind); chk.hist("copy", copy)
                if st != "ok":
                    lit = "Err"
                elif not integral(out[0], *out[1]) or any(np.asarray(f).ndim != 2 for f in out[1]):
                    lit = "(Ok (mk [99999]%nat (@nil Z), (@nil (list (list Z)))))"
                else:
                    lit = f"(Ok ({ztens(out[0])}, {zmats([np.asarray(f) for f in out[1]])}))"
                xl = f"(OpMat {zmat(x)})" if x.ndim == 2 else f"(OpVec {zrow(x)})"
                emit(lambda: f"ZTkDot {ztens(core)} {zmats(fs)} {xl} {mode}%nat {C.boolc(kd)} {lit}", ("tucker_mode_dot", sh(fs), feat, mode, kind, kd, copy))
                valid = mode < N and kind in ("mat", "vec", "veck") and not (kind == "vec" and N == 2)
                if not valid:
                    chk.count(key=("tucker_mode_dot-invalid", sh(fs), kind), nontrivial=False)
                    if st == "ok":
                        chk.finding("tensorly.tucker_tensor.tucker_mode_dot", {"core": core, "fs": fs, "x": x, "mode": mode, "keep_dim": kd, "copy": copy},
                                    "tucker_mode_dot accepted an operand whose size does not match the mode / a contraction leaving one factor", "tucker_mode_dot_invalid")
                    continue
                inp = {"core": core, "fs": fs, "x": x, "mode": mode, "keep_dim": kd, "copy": copy, "x2": None}
                shape2 = [f.shape[0] for f in fs]
                if not copy:
                    shape2 = list(dense_mode_dot(np.zeros(shape2), x, mode, kd).shape)
                m2 = rng.randrange(len(shape2)); k2 = rng.choice(["mat", "vec", "veck"])
                if not (k2 == "vec" and len(shape2) <= 2):
                    inp.update(x2=gen_operand(rng, shape2[m2], "vec" if k2 == "veck" else k2), mode2=m2, keep_dim2=(k2 == "veck"))
                judge("tucker_mode_dot", inp, (sh(fs), feat, mode, kind, copy))
        if it % 3 == 1:
            for mode in range(-N - 1, 0):
                kind = rng.choice(["mat", "vec", "veck"])
                d = fs[mode].shape[0] if mode >= -N else 2
                x = gen_operand(rng, d, "vec" if kind == "veck" else kind)
                kd = kind == "veck"
                copy = rng.random() < 0.5
                st, out = call(tucker_mode_dot, TuckerTensor((core.copy(), cps(fs))), x.copy(), mode, keep_dim=kd, copy=copy)
                if st != "ok":
                    lit = "Err"
                elif not integral(out[0], *out[1]) or any(np.asarray(f).ndim != 2 for f in out[1]):
                    lit = "(Ok (mk [99999]%nat (@nil Z), (@nil (list (list Z)))))"
                else:
                    lit = f"(Ok ({ztens(out[0])}, {zmats([np.asarray(f) for f in out[1]])}))"
                xl = f"(OpMat {zmat(x)})" if x.ndim == 2 else f"(OpVec {zrow(x)})"
                emit(lambda: f"ZTkDotZ {ztens(core)} {zmats(fs)} {xl} {C.z(mode)} {C.boolc(kd)} {lit}", ("tucker_mode_dot", sh(fs), feat, mode, kind, kd, copy))
                chk.hist("outcome", st); chk.hist("negative_mode", mode)
                if mode >= -N and not (kind == "vec" and N == 2):
                    judge("tucker_mode_dot", {"core": core, "fs": fs, "x": x, "mode": mode, "keep_dim": kd, "copy": copy, "x2": None}, (sh(fs), feat, mode, kind, copy))
    # --- PARAFAC2: normalise (toleranced), decompress, compress -> decompress
    for it in range(50 * mult):
        w, fs, Ps, feat = gen_pf2(rng)
        st, out = call(parafac2_normalise, Parafac2Tensor((w.copy(), cps(fs), cps(Ps))))
        chk.hist("outcome", st)
        if st == "ok" and finite(out[0], *out[1]):
            inter = [fs[0] * w, fs[1], fs[2]]
            tape = [np.sqrt(np.sum(a * a, axis=0)) for a in inter]
            tl_ = "[" + "; ".join(qrow(t) for t in tape) + "]"
            emit(lambda: f"QPf2Norm {tl_} {qrow(w)} {qmat(fs[0])} {qmat(fs[1])} {qmat(fs[2])} ({qrow(np.asarray(out[0]))}, {qmats([np.asarray(f) for f in out[1]])})",
                     ("parafac2_normalise", sh(fs), feat))
            if not same_arrays([np.asarray(p) for p in out[2]], Ps):
                chk.finding("tensorly.parafac2_tensor.parafac2_normalise", {"w": w, "fs": fs, "Ps": Ps}, "parafac2_normalise changed the projections", "parafac2_normalise")
        judge("parafac2_normalise", {"w": w, "fs": fs, "Ps": Ps}, (sh(fs), sh(Ps), feat))
        Ls = [None if rng.random() < 0.3 else orth(rng, P.shape[0] + rng.randint(0, 2), P.shape[0]) for P in Ps]
        judge("svd_decompress_parafac2_tensor", {"w": w, "fs": fs, "Ps": Ps, "Ls": Ls}, (sh(fs), sh(Ps), feat))
        judge("svd_compress_decompress", {"w": w, "fs": fs, "Ps": Ps}, (sh(fs), sh(Ps), feat, "rt"))
    # --- PARAFAC2 on integer data with signed partial permutations as projections / loadings (exact)
    for it in range(40 * mult):
        w, (A, B, Cm), Ps = gen_pf2_int(rng)
        pf = (w.copy(), cps([A, B, Cm]), cps(Ps))
        for i in range(len(Ps)):
            st, out = call(parafac2_to_slice, pf, i)
            exp = zmat(out) if st == "ok" and integral(out) and np.asarray(out).ndim == 2 else "[[(99999)%Z]]"
            emit(lambda: f"ZPf2Slice {zrow(w)} {zmat(A)} {zmat(B)} {zmat(Cm)} {zmats(Ps)} {i}%nat {exp}", ("parafac2_to_slice", sh([A, B, Cm]), sh(Ps), i))
            chk.count(key=("parafac2_to_slice", sh([A, B, Cm]), sh(Ps)))
            if st != "ok" or not close(out, pf2_slices(w, A, B, Cm, Ps)[i], exact=True):
                chk.finding("tensorly.parafac2_tensor.parafac2_to_slice", {"w": w, "fs": [A, B, Cm], "Ps": Ps, "i": i}, "parafac2_to_slice differs from (P_i B) diag(w a_i) C^T", "parafac2_to_slice")
        Ls = [None if rng.random() < 0.3 else sperm(rng, P.shape[0] + rng.randint(0, 2), P.shape[0]) for P in Ps]
        st, out = call(lambda: svd_decompress_parafac2_tensor(Parafac2Tensor(pf), [None if L is None else L.copy() for L in Ls]))
        chk.hist("outcome", st)
        if st == "ok" and integral(*out[2]) and all(np.asarray(p).ndim == 2 for p in out[2]):
            lit = f"(Ok {zmats([np.asarray(p) for p in out[2]])})"
        else:
            lit = "Err" if st != "ok" else "(Ok [[[(99999)%Z]]])"
        emit(lambda: f"ZDecomp {zrow(w)} {zmat(A)} {zmat(B)} {zmat(Cm)} {zmats(Ps)} {zopt_mats(Ls)} {lit}", ("svd_decompress", sh([A, B, Cm]), sh(Ps), tuple(L is None for L in Ls)))
        judge("svd_decompress_parafac2_tensor", {"w": w, "fs": [A, B, Cm], "Ps": Ps, "Ls": Ls}, (sh([A, B, Cm]), sh(Ps), "int", tuple(L is None for L in Ls)))
        # surplus loadings are ignored, a missing one raises (IndexError): the model follows
        for Lv, why in ((Ls + [None if it % 2 else sperm(rng, 3, 2)], "surplus"), (Ls[:-1], "missing")):
            st, out = call(lambda: svd_decompress_parafac2_tensor(Parafac2Tensor(pf), [None if L is None else L.copy() for L in Lv]))
            if st == "ok" and integral(*out[2]) and all(np.asarray(p).ndim == 2 for p in out[2]):
                lit = f"(Ok {zmats([np.asarray(p) for p in out[2]])})"
            else:
                lit = "Err" if st != "ok" else "(Ok [[[(99999)%Z]]])"
            emit(lambda: f"ZDecomp {zrow(w)} {zmat(A)} {zmat(B)} {zmat(Cm)} {zmats(Ps)} {zopt_mats(Lv)} {lit}", ("svd_decompress", sh([A, B, Cm]), sh(Ps), why))
            chk.count(key=("svd_decompress-lengths", sh(Ps), why), nontrivial=False)
    # --- from_CPTensor (QR tape), svd_compress_tensor_slices (SVD tape, thresholds, max_rank)
    for it in range(40 * mult):
        R = rng.randint(1, 3)
        A = rint(rng, -3, 3, (rng.randint(1, 3), R)).astype(np.float64) / 2
        B = np.array([[rng.gauss(0, 1) for _ in range(R)] for _ in range(rng.randint(R, R + 2))])
        Cm = rint(rng, -3, 3, (rng.randint(1, 3), R)).astype(np.float64) / 4
        w = rint(rng, -2, 3, (R,)).astype(np.float64)
        st, out = call(Parafac2Tensor.from_CPTensor, CPTensor((w.copy(), cps([A, B, Cm]))))
        chk.hist("outcome", st)
        if st == "ok" and finite(out[0], *out[1], *out[2]):
            Qm, Rm = tl.qr(B.copy())
            emit(lambda: f"QFromCP {qmat2(Qm)} {qmat2(Rm)} {qrow(w)} {qmat(A)} {qmat(B)} {qmat(Cm)} "
                     f"({qrow(np.asarray(out[0]))}, {qmats([np.asarray(f) for f in out[1]])}, {qmats([np.asarray(p) for p in out[2]])})",
                     ("from_CPTensor", sh([A, B, Cm])))
        judge("from_CPTensor", {"w": w, "fs": [A, B, Cm]}, (sh([A, B, Cm]),))
        K = rng.randint(1, 3)
        slices = [np.array([[rng.gauss(0, 1) for _ in range(K)] for _ in range(rng.randint(1, 5))]) for _ in range(rng.randint(1, 3))]
        judge("svd_compress_tensor_slices", {"slices": slices, "threshold": 0.0, "max_rank": rng.choice([None, K, K + 1])}, (sh(slices),))
        # correspondence incl. truncating configurations (thresholds > 0, max_rank < n_cols): the model follows the count rule
        thr = rng.choice([0.0, 0.0, 0.25, 0.5, 1.0, 1e-3])
        mr = rng.choice([None, None, 1, K, K + 1])
        st, out = call(svd_compress_tensor_slices, cps(slices), compression_threshold=thr, max_rank=mr)
        chk.hist("outcome", st)
        if st == "ok":
            rl = K if mr is None else min(K, mr)
            tapes, full = [], []
            for X in slices:
                if X.shape[0] <= rl and not thr:
                    tapes.append("((@nil (list Q)), (@nil Q), (@nil (list Q)))"); full.append(False)
                else:
                    U, sv, Vh = svd_interface(X.copy(), n_eigenvecs=rl, method="truncated_svd")
                    U, sv, Vh = np.asarray(U), np.asarray(sv), np.asarray(Vh)
                    tapes.append(f"({qmat2(U)}, {qrow(sv)}, {qmat2(Vh)})")
                    full.append(bool(len(sv) == min(X.shape) and U.shape[1] == len(sv) == Vh.shape[0]))
            scores, loads = out
            exp = "[" + "; ".join(f"({qmat2(np.asarray(S))}, {'None' if L is None else '(Some ' + qmat2(np.asarray(L)) + ')'})" for S, L in zip(scores, loads)) + "]"
            mrl = "None" if mr is None else f"(Some {mr}%nat)"
            emit(lambda: f"QCompress {qmats(slices)} {C.q(thr)} {mrl} [{'; '.join(tapes)}] [{'; '.join(C.boolc(b) for b in full)}] {exp}",
                     ("svd_compress_tensor_slices", sh(slices), thr, mr))
            chk.count(key=("svd_compress-corr", sh(slices), thr, mr))
    # --- tt_to_tensor / tr_to_tensor, pad_tt_rank (exact): TT and TR of order 1-4
    for it in range(80 * mult):
        ring = it % 2 == 1
        ttm = it % 5 == 4                          # TT-matrix cores: padding only (their dense form is another property's business)
        cores = gen_tt(rng, ring, matrix=ttm)
        if not ttm and (not ring or len(cores) >= 2):   # tr_to_tensor on a single core is outside this property
            st, out = call(tr_to_tensor if ring else tt_to_tensor, cps(cores))
            exp = "(mk [99999]%nat (@nil Z))" if st != "ok" or not integral(out) else ztens(out)
            emit(lambda: f"ZTTDense {C.boolc(ring)} {ztens_list(cores)} {exp}", ("tr_to_tensor" if ring else "tt_to_tensor", sh(cores)))
            chk.count(key=("tt_to_tensor", ring, sh(cores)))
            if st != "ok" or not close(out, dense_tt(cores, ring), exact=True):
                chk.finding("tensorly.tr_tensor.tr_to_tensor" if ring else "tensorly.tt_tensor.tt_to_tensor", {"cores": cores},
                            "dense reconstruction differs from the chain-product definition", "tt_to_tensor")
        if ttm and not ring:
            st, out = call(tl.tt_matrix_to_tensor, cps(cores))
            exp = "(mk [99999]%nat (@nil Z))" if st != "ok" or not integral(out) else ztens(out)
            emit(lambda: f"ZTTMDense {ztens_list(cores)} {exp}", ("tt_matrix_to_tensor", sh(cores)))
            chk.count(key=("tt_matrix_to_tensor", sh(cores)))
            ref = dense_ttm(cores)
            if st != "ok" or not close(out, ref, exact=True):
                chk.finding("tensorly.tt_matrix.tt_matrix_to_tensor", {"cores": cores}, "tt_matrix_to_tensor differs from the entry-wise chain-product definition", "tt_matrix_to_tensor")
        for npad in (1, rng.randint(2, 3)):
            for pb in ((ring,) if it % 4 < 2 else (ring, not ring)):
                st, out = call(pad_tt_rank, cps(cores), n_padding=npad, pad_boundaries=pb)
                chk.hist("outcome", st)
                if st == "ok" and integral(*out) and all(np.asarray(g).ndim == np.asarray(c).ndim for g, c in zip(out, cores)):
                    lit = f"(Ok {ztens_list([np.asarray(g) for g in out])})"
                else:
                    lit = "Err" if st != "ok" else "(Ok [mk [99999]%nat (@nil Z)])"
                emit(lambda: f"ZPad {ztens_list(cores)} {npad}%nat {C.boolc(pb)} {lit}", ("pad_tt_rank", sh(cores), npad, pb))
                # the represented tensor: a train keeps entry (0,0) of the chain under either option, a ring its trace
                judge("pad_tt_rank", {"cores": cores, "n_padding": npad, "pad_boundaries": pb, "ring": ring}, (sh(cores), npad, pb, ring), nontrivial=len(cores) > 1 or pb)


def _rebuild(o):
    if isinstance(o, dict):
        if "shape" in o and ("hex" in o or "values" in o or "re_im_hex" in o):
            return C.from_jsonable_array(o)
        return {k: _rebuild(v) for k, v in o.items()}
    if isinstance(o, list):
        return [_rebuild(x) for x in o]
    return o


def replay(payload):
    """re-run a stored failing input against the current implementation; 1 = still failing"""
    if payload.get("kind") != "failing-input":
        print("replay file names a broken theorem/correspondence, not an input:", payload.get("theorem_or_correspondence"))
        return 1
    C.reset_backends()
    name = payload["predicate"]
    inp = _rebuild(payload["inputs"])
    if name not in PRED:
        print("replay: predicate", name, "has no stand-alone replay; re-run ./check C04")
        return 1
    try:
        msg = PRED[name](inp)
    except Exception as e:  # noqa
        msg = f"malformed result: {type(e).__name__}: {e}"
    print("replay:", name, "->", msg or "holds")
    return 1 if msg else 0
